#!/venv/bin/python
"""Single entry point:  run_check.py <ID> <quick|thorough>   |   run_check.py <ID> --replay FILE

A check module ``checks/cNN.py`` provides
    PROPERTY, LEVEL, RULE, ASSUMPTIONS, EXHAUSTIVE (bool or callable(tier))
    configs(tier, seed)          -> list of JSON-able configurations (independent work units)
    run_config(cfg, tier, seed)  -> dict: evaluations, states, transitions, outcomes (iterable of
                                    ints), nontrivial (iterable of ints), violations (list of
                                    dicts: signature, message, replay), samples, counters,
                                    traces_validated, caps
    replay(replay_obj)           -> (violated: bool, text)   re-executes one recorded case
    vacuity(counters, tier)      -> list of problems (strings); optional
The runner distributes configurations over worker processes, merges the results, matches
violations against known_findings.json, re-executes each reported violation twice, writes
evidence/<ID>.json and sets the exit code (0 held / 1 violation / 2 harness error).
"""
import os
import sys

if os.environ.get('PYTHONHASHSEED') != '0':
    os.environ['PYTHONHASHSEED'] = '0'
    os.execv(sys.executable, [sys.executable] + sys.argv)

HERE = os.path.dirname(os.path.abspath(__file__))
REPO = os.environ.get('VERIF_REPO', '/repo')
sys.path.insert(0, HERE)
sys.path.insert(0, REPO)

import warnings
warnings.filterwarnings('ignore')
import hashlib
import importlib
import json
import logging
import multiprocessing
import random
import time
import traceback

logging.disable(logging.CRITICAL)


def _load(pid):
    return importlib.import_module('checks.' + pid.lower())


def _worker(args):
    pid, idx, cfg, tier, seed = args
    logging.disable(logging.CRITICAL)
    try:
        mod = _load(pid)
        t0 = time.time()
        res = mod.run_config(cfg, tier, seed)
        res['wall'] = time.time() - t0
        res['outcomes'] = list(res.get('outcomes', ()))
        res['nontrivial'] = list(res.get('nontrivial', ()))
        return idx, res, None
    except BaseException:
        return idx, None, 'config %r\n%s' % (cfg, traceback.format_exc())


def load_known():
    path = os.path.join(HERE, 'known_findings.json')
    if not os.path.exists(path):
        return {'open': [], 'fixed': []}
    with open(path) as f:
        return json.load(f)


def sig_matches(match, sig):
    for k, v in match.items():
        sv = sig.get(k)
        if isinstance(v, list):
            if sv not in v:
                return False
        elif sv != v:
            return False
    return True


def validate_evidence(ev):
    """Mirror of EVIDENCE.schema.json for the keys we emit (jsonschema is not in /venv)."""
    errs = []
    for k in ('property_id', 'tier', 'seed', 'level', 'coverage', 'wall_s'):
        if k not in ev:
            errs.append('missing ' + k)
    cov = ev.get('coverage', {})
    lvl = ev.get('level')
    if lvl in ('exploration', 'fault_enumeration'):
        if not (isinstance(cov.get('evaluations'), int) and cov['evaluations'] >= 1):
            errs.append('evaluations')
        if not (isinstance(cov.get('distinct_nontrivial'), int) and cov['distinct_nontrivial'] >= 2):
            errs.append('distinct_nontrivial')
        if not isinstance(cov.get('rule'), str):
            errs.append('rule')
        if not (isinstance(cov.get('samples'), list) and cov['samples']):
            errs.append('samples')
    elif lvl == 'model_checking':
        for k in ('states', 'transitions'):
            if not (isinstance(cov.get(k), int) and cov[k] >= 1):
                errs.append(k)
        if not (isinstance(cov.get('traces_validated_against_impl'), int)):
            errs.append('traces_validated_against_impl')
        if not (isinstance(cov.get('samples'), list) and cov['samples']):
            errs.append('samples')
    return errs


def jsonable(o):
    if isinstance(o, bytes):
        return o.decode('latin-1')
    if isinstance(o, (set, frozenset, tuple)):
        return [jsonable(x) for x in o]
    if isinstance(o, list):
        return [jsonable(x) for x in o]
    if isinstance(o, dict):
        return {str(k): jsonable(v) for k, v in o.items()}
    if isinstance(o, (str, int, float, bool)) or o is None:
        return o
    return repr(o)


def do_replay(pid, path):
    mod = _load(pid)
    with open(path) as f:
        rep = json.load(f)
    r1 = mod.replay(rep['replay'])
    r2 = mod.replay(rep['replay'])
    print('replay of', path)
    print('config/case :', json.dumps(rep['replay'])[:2000])
    print('recorded    :', rep.get('message'))
    print('run 1       :', 'VIOLATED' if r1[0] else 'holds', '-', r1[1])
    print('run 2       :', 'VIOLATED' if r2[0] else 'holds', '-', r2[1])
    if r1 != r2:
        print('HARNESS ERROR: replay not deterministic')
        return 2
    return 1 if r1[0] else 0


def main(argv):
    if len(argv) < 3:
        print(__doc__)
        return 2
    pid = argv[1].upper()
    if argv[2] == '--replay':
        return do_replay(pid, argv[3])
    tier = os.environ.get('VERIF_TIER') or argv[2]
    if argv[2] in ('quick', 'thorough'):
        tier = argv[2]
    seed = int(os.environ.get('VERIF_SEED', '0') or 0)
    only = None
    for a in argv[3:]:
        if a.startswith('--only='):
            only = int(a.split('=')[1])
    mod = _load(pid)
    t0 = time.time()
    cfgs = list(mod.configs(tier, seed))
    order = list(range(len(cfgs)))
    random.Random(seed).shuffle(order)
    if only is not None:
        order = [only]
    nproc = int(os.environ.get('VERIF_PROCS', '0') or 0) or min(16, max(1, len(order)))
    work = [(pid, i, cfgs[i], tier, seed) for i in order]
    results = {}
    errors = []
    if nproc == 1 or len(work) == 1:
        it = map(_worker, work)
        pool = None
    else:
        ctx = multiprocessing.get_context('fork')
        pool = ctx.Pool(nproc)
        it = pool.imap_unordered(_worker, work, chunksize=max(1, len(work) // (nproc * 8)))
    for idx, res, err in it:
        if err:
            errors.append(err)
        else:
            results[idx] = res
    if pool is not None:
        pool.close()
        pool.join()
    if errors:
        print('HARNESS ERROR in %d configuration(s); first:\n%s' % (len(errors), errors[0]))
        return 2

    # ---- merge in configuration order (deterministic output)
    evaluations = states = transitions = validated = 0
    outcomes, nontrivial = set(), set()
    violations, samples, caps = [], [], []
    counters = {}
    for idx in sorted(results):
        r = results[idx]
        evaluations += r.get('evaluations', 0)
        states += r.get('states', 0)
        transitions += r.get('transitions', 0)
        validated += r.get('traces_validated', 0)
        outcomes.update(r['outcomes'])
        nontrivial.update(r['nontrivial'])
        for v in r.get('violations', ()):
            v.setdefault('config_index', idx)
            violations.append(v)
        for s in r.get('samples', ()):
            if len(samples) < 12:
                samples.append(s)
        for c in r.get('caps', ()):
            caps.append(c)
        for k, v in r.get('counters', {}).items():
            counters[k] = counters.get(k, 0) + v

    known = load_known()
    open_entries = [e for e in known.get('open', []) if e.get('property') == pid]
    by_sig = {}
    for v in violations:
        key = json.dumps(v['signature'], sort_keys=True)
        by_sig.setdefault(key, []).append(v)
    new_sigs, known_hits = [], {}
    for key, vs in by_sig.items():
        sig = vs[0]['signature']
        ent = next((e for e in open_entries if sig_matches(e['match'], sig)), None)
        if ent is not None:
            known_hits.setdefault(ent['id'], [ent, 0])[1] += len(vs)
        else:
            new_sigs.append((key, vs))

    exit_code = 0
    rdir = os.path.join(HERE, 'replays', pid)
    reported = []
    for key, vs in sorted(new_sigs)[:25]:
        v = vs[0]
        os.makedirs(rdir, exist_ok=True)
        h = hashlib.blake2b(json.dumps(jsonable(v['replay']), sort_keys=True).encode(), digest_size=6).hexdigest()
        path = os.path.join(rdir, h + '.json')
        with open(path, 'w') as f:
            json.dump(jsonable({'property': pid, 'signature': v['signature'], 'message': v['message'],
                                'replay': v['replay'], 'count_same_signature': len(vs)}), f, indent=1)
        # a violation is only believed after two identical re-executions
        try:
            with open(path) as f:
                rep = json.load(f)['replay']
            r1 = mod.replay(rep)
            r2 = mod.replay(rep)
        except Exception:
            print('HARNESS ERROR: replay of %s raised\n%s' % (path, traceback.format_exc()))
            return 2
        if not (r1[0] and r2[0] and r1[1] == r2[1]):
            print('HARNESS ERROR: violation %s did not reproduce deterministically (%r / %r)' % (path, r1, r2))
            return 2
        print('VIOLATION property=%s replay=%s' % (pid, path))
        print('   signature=%s x%d : %s' % (key, len(vs), v['message'][:600]))
        reported.append(path)
        exit_code = 1
    for eid, (ent, n) in sorted(known_hits.items()):
        print('KNOWN-FINDING: property=%s %s [%s, %d case(s) this run]' % (pid, ent['what'], eid, n))

    problems = []
    if hasattr(mod, 'vacuity'):
        problems = list(mod.vacuity(counters, tier) or [])
    if evaluations and len(outcomes) < 2:
        problems.append('only %d distinct observation(s) over %d evaluations' % (len(outcomes), evaluations))

    exhaustive = mod.EXHAUSTIVE(tier) if callable(getattr(mod, 'EXHAUSTIVE', None)) else bool(getattr(mod, 'EXHAUSTIVE', False))
    cov = {
        'evaluations': evaluations,
        'distinct_nontrivial': len(nontrivial),
        'distinct_observations': len(outcomes),
        'rule': mod.RULE if not callable(mod.RULE) else mod.RULE(tier),
        'samples': jsonable(samples),
        'states': states,
        'transitions': transitions,
        'traces_validated_against_impl': validated,
        'configurations': len(results),
        'counters': counters,
        'caps_hit': caps,
        'exhaustive': bool(exhaustive and not caps),
        'known_findings_hit': {eid: n for eid, (ent, n) in known_hits.items()},
    }
    cov['explanation'] = ('The check explores the real implementation in /repo directly (no separate model): every '
                          'execution/evaluation is a run of the library code under the harness.  traces_validated_against_impl '
                          'counts additional differential or conformance re-executions (merge validation, two-representative '
                          'checks, real-file-system replays) where the check has them.')
    if hasattr(mod, 'BOUNDS'):
        cov['bounds'] = mod.BOUNDS(tier) if callable(mod.BOUNDS) else mod.BOUNDS
    ev = {
        'property_id': pid, 'tier': tier, 'seed': seed, 'level': mod.LEVEL, 'coverage': cov,
        'assumptions': list(getattr(mod, 'ASSUMPTIONS', [])),
        'wall_s': round(time.time() - t0, 2),
        'violations': len(new_sigs),
    }
    errs = validate_evidence(ev)
    # evidence/ describes /repo; a run against another tree (VERIF_REPO: mutation and seed evaluation) must not overwrite it
    evdir = os.path.join(HERE, 'evidence') if os.path.realpath(REPO) == '/repo' else os.path.join(HERE, 'build', 'evidence-other-tree')
    os.makedirs(evdir, exist_ok=True)
    with open(os.path.join(evdir, pid + '.json'), 'w') as f:
        json.dump(ev, f, indent=1, sort_keys=True)
    print('%s %s: configs=%d evaluations=%d states=%d transitions=%d distinct_obs=%d nontrivial=%d '
          'validated=%d violations=%d known=%d wall=%.1fs' %
          (pid, tier, len(results), evaluations, states, transitions, len(outcomes), len(nontrivial),
           validated, len(new_sigs), len(known_hits), time.time() - t0))
    if counters:
        print('   counters:', json.dumps(counters, sort_keys=True))
    if caps:
        print('   caps hit:', caps[:5])
    if errs:
        print('HARNESS ERROR: evidence invalid:', errs)
        return 2
    if problems and exit_code == 0:
        print('HARNESS ERROR: vacuous exploration:', problems)
        return 2
    return exit_code


if __name__ == '__main__':
    sys.exit(main(sys.argv))
