"""C10 -- the pipelining client pairs every reply with the command that caused it.

The real ``Client`` / ``LmtpClient`` run a full session against a scripted peer whose reply to a
command becomes readable only after the command's bytes have been sent (a recv() when nothing is
owed raises OverRead).  Every scripted reply carries a unique text, so a pairing error shows up as
a wrong (code, text) on some returned Reply object.  Enumerated: recipients 1..3 x reply class per
command x 1..3 lines per reply x PIPELINING on/off x SMTP/LMTP x empty/non-empty data, each under
one burst, byte by byte, line by line and every single cut; ALL segmentations (continuation-merged) for the
all-success scripts (quick) / every script with at most one non-success class (thorough).
"""
import itertools
import re

from slimta.smtp.client import Client, LmtpClient
from slimta.smtp import ConnectionLost, BadReply

from engine.core import HarnessError, Horizon, Prune, explore
from engine.result import Result
from engine.seq import ScriptSocket, CutCtl, FixedCtl, AllSegmentations, OverRead

PROPERTY = 'C10'
LEVEL = 'exploration'
EXHAUSTIVE = True
RULE = ('session = banner, EHLO/LHLO, MAIL, RCPT x n (n=1..3), DATA, content|empty content, RSET, custom NOOP, QUIT (plus two '
        'other shapes with n<=2: two transactions back to back without RSET; a second EHLO/LHLO, accepted or refused, between the last '
        'RCPT and DATA; an AUTH LOGIN exchange with standard or empty challenges, accepted or refused, before the transaction); '
        'reply script = one class from {2xx,4xx,5xx} (RCPT also 3xx; DATA: {354,4xx,5xx}) per command -- all assignments consistent with a '
        'server (DATA refused when no recipient accepted; LMTP: one end-of-data reply per accepted recipient, each '
        'with its own class), quick: at most 2 non-success classes, thorough: all -- x line counts cycling 1..3 x '
        'PIPELINING on/off x SMTP/LMTP; replies become readable only after their command was sent.  Each script is '
        'explored in one burst, byte by byte, line by line and under every single cut; all segmentations for the '
        'all-success scripts (quick) / scripts with <= 1 non-success class (thorough).  Non-trivial = script with at least one non-2xx class or a multi-line reply (all are).')
ASSUMPTIONS = ['reply texts are ASCII tags; reply parsing itself is C17',
               'thorough: continuation canonicaliser validated differentially']


def BOUNDS(tier):
    return {'max_rcpts': 3, 'max_non_success_classes': 2 if tier == 'quick' else 'all',
            'segmentations': 'burst, byte, line, every single cut; all segmentations for scripts with 0 (quick) / <=1 (thorough) non-success classes'}


ESC3 = re.compile(r'^[245]\.\d{1,3}\.\d{1,3} ')


def wire(code, tag, nlines, esc=None):
    lines = ['%s line%d' % (tag, i) for i in range(nlines)]
    if esc:
        lines[0] = esc + ' ' + lines[0]          # the server states its own enhanced status code
    out = b''
    for i, l in enumerate(lines):
        sep = b' ' if i == len(lines) - 1 else b'-'
        out += code.encode() + sep + l.encode() + b'\r\n'
    return out, '\r\n'.join(lines)


CODE = {'2': '250', '4': '450', '5': '550', '3': '354', '1': '150'}


def _split_classes(cls, n):
    return cls[0], cls[1:1 + n], cls[1 + n], cls[2 + n:]


def transactions_of(cfg):
    """-> list of class strings, one per mail transaction of the session"""
    if cfg.get('prog') in ('two', 'auth-late'):
        return list(cfg['classes'].split('|'))
    return [cfg['classes']]


def build_script(cfg):
    """cfg: dict(lmtp, pipelining, n, classes=(mail, rcpt..., data, enddata...), empty, lshift, prog)
    prog 'std' (default): one transaction, RSET, custom NOOP, QUIT;  'two': two transactions back to back without
    RSET (classes = 'first|second');  'rehello': a second EHLO/LHLO between the last RCPT and DATA (cfg['hello2'] = class).
    -> list of (name, code, text, wire bytes) in the order the server sends them."""
    n = cfg['n']
    seq = []
    k = [cfg.get('lshift', 0)]

    def add(name, code, text_override=None):
        nl = 1 + (k[0] % 3)
        k[0] += 1
        tag = 'r%d-%s' % (len(seq), name)
        if text_override is not None:
            w, t = text_override
        elif cfg.get('esc3') and code[0] in '245':
            # enhanced status codes with up to three digits per field (RFC 3463), different for every reply
            w, t = wire(code, tag, nl, '%s.%d.%d' % (code[0], 7 + len(seq), (509, 50, 5, 123)[len(seq) % 4]))
        else:
            w, t = wire(code, tag, nl)
        seq.append((name, code, t, w))

    add('banner', '220')
    exts = ['mx', '8BITMIME'] + (['PIPELINING'] if cfg['pipelining'] else []) + (['SIZE 100'] if cfg.get('size') else [])
    hello_wire = b''.join(b'250' + (b' ' if i == len(exts) - 1 else b'-') + e.encode() + b'\r\n' for i, e in enumerate(exts))
    if cfg.get('prog') in ('auth', 'auth-late'):
        exts = exts + ['AUTH LOGIN PLAIN']
        hello_wire = b''.join(b'250' + (b' ' if i == len(exts) - 1 else b'-') + e.encode() + b'\r\n' for i, e in enumerate(exts))
    add('ehlo', '250', (hello_wire, 'mx'))
    if cfg.get('prog') == 'auth':
        # AUTH LOGIN: two challenges (the standard prompts, or empty ones -- a challenge may be empty), then the verdict
        for j, prompt in enumerate((b'VXNlcm5hbWU6', b'UGFzc3dvcmQ6')):
            text = b'' if cfg['chal'] == 'empty' else prompt
            seq.append(('auth-chal%d' % j, '334', text.decode(), b'334 ' + text + b'\r\n'))
        add('auth', '235' if cfg['hello2'] == '2' else '535')
    for t, cls in enumerate(transactions_of(cfg)):
        pre = '' if t == 0 else 't%d-' % (t + 1)
        mail_c, rcpt_c, data_c, end_c = _split_classes(cls, n)
        if t == 1 and cfg.get('prog') == 'auth-late':
            # authentication between two messages, while replies of the first one may still be outstanding
            for j, prompt in enumerate((b'VXNlcm5hbWU6', b'UGFzc3dvcmQ6')):
                seq.append(('auth-chal%d' % j, '334', prompt.decode(), b'334 ' + prompt + b'\r\n'))
            add('auth', '235' if cfg['hello2'] == '2' else '535')
        add(pre + 'mail', CODE[mail_c])
        for i in range(n):
            add(pre + 'rcpt%d' % i, '350' if rcpt_c[i] == '3' else CODE[rcpt_c[i]])
        if cfg.get('prog') == 'rehello':
            if cfg['hello2'] == '2':
                add('ehlo-again', '250', (hello_wire, 'mx'))
            else:
                add('ehlo-again', CODE[cfg['hello2']])
        add(pre + 'data', CODE[data_c])
        if data_c == '3':
            if cfg['lmtp']:
                acc = [i for i in range(n) if rcpt_c[i] == '2']
                for j, i in enumerate(acc):
                    add(pre + 'enddata%d' % i, CODE[end_c[j]])
            else:
                add(pre + 'enddata', CODE[end_c[0]])
    if cfg.get('prog', 'std') in ('std', 'auth'):
        add('rset', '250')
        add('noop', '250')
    add('quit', '221')
    return seq


def owed(sent, script_names, data_accepted, n_end):
    """How many scripted replies the bytes sent so far entitle the client to.  data_accepted / n_end: one entry per DATA
    command of the session (was it answered 354; how many end-of-data replies follow)."""
    count, mode, pos, d = 1, 'cmd', 0, 0
    while True:
        nl = sent.find(b'\r\n', pos)
        if nl < 0:
            break
        line = sent[pos:nl]
        pos = nl + 2
        if mode == 'cmd':
            count += 1
            if line.upper() == b'DATA':
                if d < len(data_accepted) and data_accepted[d]:
                    mode = 'data'
                else:
                    d += 1
        elif line == b'.':
            count += n_end[d] if d < len(n_end) else 0
            d += 1
            mode = 'cmd'
    return count


def session(cfg, sock):
    """Drive the real client; returns list of (name, code, text) per returned Reply, plus error."""
    c = (LmtpClient if cfg['lmtp'] else Client)(sock, ('mx', 25))
    got = []
    err = None
    holders = []
    try:
        holders.append(('banner', c.get_banner()))
        holders.append(('ehlo', c.lhlo('me') if cfg['lmtp'] else c.ehlo('me')))
        if cfg.get('prog') == 'auth':
            holders.append(('auth', c.auth('user', 'pw', mechanism=b'LOGIN')))
        for t in range(len(transactions_of(cfg))):
            pre = '' if t == 0 else 't%d-' % (t + 1)
            if t == 1 and cfg.get('prog') == 'auth-late':
                holders.append(('auth', c.auth('user', 'pw', mechanism=b'LOGIN')))
            if cfg.get('size'):
                # the server advertised SIZE 100, the caller announces a bigger message: the command goes out all the same and
                # the reply that counts is the server's
                holders.append((pre + 'mail', c.mailfrom('s%d@x' % t, data_size=1000)))
            else:
                holders.append((pre + 'mail', c.mailfrom('s%d@x' % t)))
            for i in range(cfg['n']):
                # cfg['dup']: the same address in every RCPT command (legal; each gets its own reply and, in LMTP, its own
                # end-of-data reply)
                holders.append((pre + 'rcpt%d' % i, c.rcptto('r0@y' if cfg.get('dup') else 'r%d@y' % i)))
            if cfg.get('prog') == 'rehello':
                holders.append(('ehlo-again', c.lhlo('me') if cfg['lmtp'] else c.ehlo('me')))
            d = c.data()
            holders.append((pre + 'data', d))
            if d.code == '354':
                if cfg['empty']:
                    sd = c.send_empty_data()
                else:
                    # three parts, the middle one empty: part boundaries are not line boundaries of their own
                    if cfg.get('content') == 'lf-end':
                        sd = c.send_data(b'Subject: x\r\n\r\n', b'.dot after the blank line\nlast line ends in a bare LF\n')
                    else:
                        sd = c.send_data(b'Subject: x\r\n\r\n', b'', b'.leading dot\r\nbody\r\n')
                if cfg['lmtp'] and cfg.get('dup'):
                    acc = [i for i in range(cfg['n']) if _split_classes(transactions_of(cfg)[t], cfg['n'])[1][i] == '2']
                    for j, (rcpt, r) in enumerate(sd):
                        holders.append((pre + 'enddata%d' % (acc[j] if j < len(acc) else 90 + j), r))
                elif cfg['lmtp']:
                    for rcpt, r in sd:
                        holders.append((pre + 'enddata%d' % int(rcpt[1]), r))
                else:
                    holders.append((pre + 'enddata', sd))
        if cfg.get('prog', 'std') in ('std', 'auth'):
            holders.append(('rset', c.rset()))
            holders.append(('noop', c.custom_command(b'NOOP')))
        holders.append(('quit', c.quit()))
    except OverRead as e:
        err = 'over-read: ' + str(e)
    except ConnectionLost:
        err = 'connection-lost'
    except BadReply as e:
        err = 'bad-reply'
    except (Prune, Horizon, HarnessError):
        raise
    except Exception as e:
        err = 'client-raised: %s: %s' % (type(e).__name__, str(e)[:80])
    for name, r in holders:
        msg = r.message
        got.append((name, r.code, msg))
    # what the client put on the wire as message content must be exactly one message: the gate above counts the replies owed by
    # parsing these bytes the way a server does, so an unescaped "." line would entitle the client to replies it never asked for
    sent = sock.sent()
    if not cfg['empty'] and err is None and b'DATA\r\n' in sent:
        for chunk in sent.split(b'DATA\r\n')[1:]:
            want = (b'Subject: x\r\n\r\n..dot after the blank line\nlast line ends in a bare LF\n\r\n.\r\n' if cfg.get('content') == 'lf-end'
                    else b'Subject: x\r\n\r\n..leading dot\r\nbody\r\n.\r\n')
            if b'Subject: x' in chunk and not chunk.startswith(want):
                err = 'content-wire-mismatch: ' + repr(chunk[:60])
    return tuple(got), err, len(c.reply_queue), c.io.recv_buffer + sock.unread()


def expected_of(script):
    exp = []
    for name, code, text, w in script:
        if name.startswith('auth-chal'):
            continue            # consumed inside the AUTH exchange, never handed out
        t = text
        if not name.startswith('ehlo') and code[0] in '245' and ESC3.match(text):
            t = text            # the server's own enhanced status code is kept (in the greeting it is simply part of the text)
        elif not name.startswith('ehlo') and name != 'banner' and code[0] in '245':
            t = '%s.0.0 %s' % (code[0], text)
        elif name == 'banner':
            t = text
        exp.append((name, code, t))
    return tuple(exp)


def make_body(cfg, script):
    names = [s[0] for s in script]
    lens = [len(s[3]) for s in script]
    data_acc, n_end = [], []
    for t, cls in enumerate(transactions_of(cfg)):
        pre = '' if t == 0 else 't%d-' % (t + 1)
        data_acc.append(_split_classes(cls, cfg['n'])[2] == '3')
        n_end.append(sum(1 for nme in names if nme.startswith(pre + 'enddata')))
    stream = b''.join(s[3] for s in script)

    def gate(sock):
        k = owed(sock.sent(), names, data_acc, n_end)
        return sum(lens[:k])

    def make_sock(ctl):
        return ScriptSocket(stream, ctl, gate=gate, eof=False)

    def body(sock):
        return session(cfg, sock)
    return body, make_sock, stream


def normalize_got(got):
    # Reply.message re-adds a default ESC for 2xx/4xx/5xx; banner/ehlo objects have ESC disabled
    return got


def judge(cfg, script, outs):
    exp = expected_of(script)
    v = []
    base = {'lmtp': cfg['lmtp'], 'pipelining': cfg['pipelining'], 'session': cfg.get('prog', 'std')}
    if len(outs) != 1:
        v.append((dict(base, kind='segmentation-dependent'), '%d different outcomes: %r' % (len(outs), sorted(map(repr, outs))[:2])))
    for got, err, qlen, left in sorted(outs, key=repr)[:2]:
        if err:
            v.append((dict(base, kind=err.split(':')[0]), 'client error %s; replies so far %r' % (err, got)))
            continue
        if got != exp:
            wrong = [(g, e) for g, e in zip(got, exp) if g != e]
            kind = 'wrong-pairing'
            if len(got) != len(exp):
                kind = 'reply-count'
            elif all(g[0] == e[0] and g[1] is None for g, e in wrong):
                kind = 'reply-never-filled'
            v.append((dict(base, kind=kind, first_wrong=(wrong[0][0][0].rstrip('0123456789') if wrong else 'count')),
                      'returned replies %r, script says %r' % (got, exp)))
        if qlen or left:
            v.append((dict(base, kind='leftover'), 'reply_queue length %d, unread bytes %r at the end' % (qlen, left)))
    return v


def scripts(tier):
    for lmtp in (False, True):
        for pipelining in (True, False):
            for n in (1, 2, 3):
                for empty in (False, True):
                    for mail_c in '245':
                        for rc in itertools.product('2453' if n <= 2 else '245', repeat=n):
                            nacc = sum(1 for x in rc if x == '2')
                            data_opts = '345' if (nacc and mail_c == '2') else '5'
                            for data_c in data_opts:
                                n_end = (nacc if lmtp else 1) if data_c == '3' else 0
                                for ec in itertools.product('245', repeat=n_end):
                                    classes = (mail_c,) + rc + (data_c,) + ec
                                    dev = (mail_c != '2') + sum(1 for x in rc if x != '2') + (data_c != '3') + sum(1 for x in ec if x != '2')
                                    if tier == 'quick' and dev > 2:
                                        continue
                                    if empty and dev > 1 and tier == 'quick':
                                        continue
                                    yield {'lmtp': lmtp, 'pipelining': pipelining, 'n': n, 'empty': empty,
                                           'classes': ''.join(classes), 'lshift': dev % 3}


def extra_scripts(tier):
    """sessions of other shapes: two transactions on one connection, a second EHLO/LHLO in the middle of a transaction"""
    def txn_classes(lmtp, n, limit):
        for mail_c in '24':
            for rc in itertools.product('245', repeat=n):
                nacc = sum(1 for x in rc if x == '2')
                for data_c in ('35' if (nacc and mail_c == '2') else '5'):
                    n_end = (nacc if lmtp else 1) if data_c == '3' else 0
                    for ec in itertools.product('245', repeat=n_end):
                        dev = (mail_c != '2') + sum(1 for x in rc if x != '2') + (data_c != '3') + sum(1 for x in ec if x != '2')
                        if dev <= limit:
                            yield ''.join((mail_c,) + rc + (data_c,) + ec), dev
    for lmtp in (False, True):
        for pipelining in (True, False):
            for n in (1, 2):
                lim = 1 if tier == 'quick' else 2
                for c1, d1 in txn_classes(lmtp, n, lim):
                    for c2, d2 in txn_classes(lmtp, n, lim):
                        if d1 + d2 <= lim:
                            yield {'lmtp': lmtp, 'pipelining': pipelining, 'n': n, 'empty': False, 'prog': 'two',
                                   'classes': c1 + '|' + c2, 'lshift': (d1 + d2) % 3}
                # a server that refuses the second MAIL and nevertheless goes on accepting RCPT and DATA (any class to any
                # command), after a first transaction that ended with a refused DATA and no RSET
                for m2 in '45':
                    for c1 in ('2' + '2' * n + '5', '2' + '2' * n + '3' + '2' * (n if lmtp else 1)):
                        yield {'lmtp': lmtp, 'pipelining': pipelining, 'n': n, 'empty': False, 'prog': 'two',
                               'classes': c1 + '|' + m2 + '2' * n + '3' + '2' * (n if lmtp else 1), 'lshift': 2}
                for c1, d1 in txn_classes(lmtp, n, lim):
                    for h2 in '25':
                        if h2 == '2' and _split_classes(c1, n)[2] == '3':
                            continue          # an accepted EHLO/LHLO resets the server: DATA cannot be accepted after it
                        yield {'lmtp': lmtp, 'pipelining': pipelining, 'n': n, 'empty': False, 'prog': 'rehello', 'hello2': h2,
                               'classes': c1, 'lshift': d1 % 3}


def esc_scripts(tier):
    """replies that carry the server's own enhanced status code, with one-, two- and three-digit fields"""
    for lmtp in (False, True):
        for pipelining in (True, False):
            for n in (1, 2):
                base = '2' + '2' * n + '3' + '2' * (n if lmtp else 1)
                yield {'lmtp': lmtp, 'pipelining': pipelining, 'n': n, 'empty': False, 'classes': base, 'lshift': 0, 'esc3': True}
                for cls in ('5' + '2' * n + '5', '2' + '5' + '2' * (n - 1) + ('3' + '2' * ((n - 1) if lmtp else 1) if n > 1 else '5'),
                            '2' + '2' * n + '5', '2' + '2' * n + '3' + '5' * (n if lmtp else 1), '4' + '2' * n + '5'):
                    yield {'lmtp': lmtp, 'pipelining': pipelining, 'n': n, 'empty': False, 'classes': cls, 'lshift': 1, 'esc3': True}


def size_scripts(tier):
    """SIZE advertised, the client announces a message over the limit with MAIL"""
    for lmtp in (False, True):
        for pipelining in (True, False):
            for cls in ('2232', '5232', '4252', '2235'):
                yield {'lmtp': lmtp, 'pipelining': pipelining, 'n': 1, 'empty': False, 'classes': cls, 'lshift': 0, 'size': True}


def auth_scripts(tier):
    for lmtp in (False, True):
        for pipelining in (True, False):
            for chal in ('std', 'empty'):
                for verdict in '25':
                    for cls in ('2232' if not lmtp else '2232', '252', '2252'):
                        n = len(cls) - 3 if cls[-2] == '3' else len(cls) - 2
                        yield {'lmtp': lmtp, 'pipelining': pipelining, 'n': n, 'empty': False, 'prog': 'auth', 'chal': chal, 'hello2': verdict,
                               'classes': cls, 'lshift': 0}


def dup_scripts(tier):
    for lmtp in (True, False):
        for pipelining in (True, False):
            for cls in ('22232', '222322', '25232', '22235', '222325', '222352'):
                n = 2
                want = 1 + n + 1 + ((sum(1 for x in cls[1:1 + n] if x == '2') if lmtp else 1) if cls[1 + n] == '3' else 0)
                if len(cls) != want:
                    continue
                yield {'lmtp': lmtp, 'pipelining': pipelining, 'n': n, 'empty': False, 'dup': True, 'classes': cls, 'lshift': 0}


def content_scripts(tier):
    for lmtp in (True, False):
        for pipelining in (True, False):
            yield {'lmtp': lmtp, 'pipelining': pipelining, 'n': 1, 'empty': False, 'content': 'lf-end', 'classes': '2232', 'lshift': 0}


def auth_late_scripts(tier):
    for lmtp in (False, True):
        for pipelining in (True, False):
            for verdict in '25':
                for c1 in ('2232', '252', '2252', '2234'):
                    n = 1
                    yield {'lmtp': lmtp, 'pipelining': pipelining, 'n': n, 'empty': False, 'prog': 'auth-late', 'hello2': verdict,
                           'classes': c1 + '|2232', 'lshift': 0}


def run_script(cfg, tier, res):
    script = build_script(cfg)
    body, make_sock, stream = make_body(cfg, script)
    outs = set()
    n_ = cfg['n']
    dev = 0
    for cl in transactions_of(cfg):
        dev += (cl[0] != '2') + sum(1 for x in cl[1:1 + n_] if x != '2') + (cl[1 + n_] != '3') + sum(1 for x in cl[2 + n_:] if x != '2')
    if cfg.get('prog', 'std') != 'std':
        dev += 1          # bounded segmentations only for the other session shapes
    if (tier == 'thorough' and dev <= 1) or (tier == 'quick' and dev == 0 and cfg['n'] <= 2):
        ex = AllSegmentations(body, stream, make_sock=make_sock)
        outs |= ex.explore()
        res.evaluations += ex.execs
        res.states += len(ex.memo)
        res.transitions += ex.transitions
        res.traces_validated += ex.validated
        res.count('scripts_all_segmentations')
        if ex.validation_failures:
            res.count('merge_validation_failed')
    # every single cut, plus the named extremes (for every script)
    n = len(stream)
    for mode in ['all', 'byte', 'line'] + [[c] for c in range(1, n)]:
        outs.add(body(make_sock(FixedCtl(mode))))
        res.evaluations += 1
        res.transitions += 1
    for o in outs:
        res.outcome((o[0], o[1]))
    res.interesting((cfg['lmtp'], cfg['pipelining'], cfg['n'], cfg['classes'], cfg['empty'], cfg.get('prog', 'std'), cfg.get('hello2')))
    return script, outs


def configs(tier, seed):
    allc = list(scripts(tier))
    k = 64 if tier == 'quick' else 256
    return [{'k': i, 'of': k} for i in range(k)]


def run_config(cfg, tier, seed):
    res = Result()
    for i, sc in enumerate(itertools.chain(scripts(tier), extra_scripts(tier), esc_scripts(tier), size_scripts(tier), auth_scripts(tier), auth_late_scripts(tier), dup_scripts(tier), content_scripts(tier))):
        if i % cfg['of'] != cfg['k']:
            continue
        script, outs = run_script(sc, tier, res)
        res.count('scripts')
        for sig, msg in judge(sc, script, outs):
            res.violation(sig, 'script %r: %s' % (sc, msg), {'script': sc, 'tier': tier})
        if i % 500 == cfg['k']:
            res.sample({'script': sc, 'server_stream': b''.join(s[3] for s in script).decode('latin-1')})
    return res.as_dict()


def vacuity(counters, tier):
    if counters.get('scripts', 0) < 500:
        return ['fewer than 500 scripts']


def replay(rep):
    res = Result()
    script, outs = run_script(rep['script'], rep.get('tier', 'quick'), res)
    vs = judge(rep['script'], script, outs)
    if vs:
        return True, vs[0][1]
    return False, 'every returned Reply holds the scripted reply of its command'
