"""C15 -- every queue storage backend behaves like the same simple store.

Breadth-first search over sequences of mutating storage operations on two messages, executed on
each real backend (dict, disk on the in-memory FS, redis on the fake client, cloud on the fake object
store).  A state is the operation history (replayed on a fresh backend); its canonical form is the
content of the dict-based reference store, so histories reaching the same store content are merged.
After every operation the real backend is observed completely (get of both ids, load) and compared
with the reference.  Thorough adds two operations on different ids overlapping in time for the
backends whose operations yield (disk: every aio completion is an event; redis: every command).
"""
import itertools

import gevent

from slimta.envelope import Envelope

from engine.core import Chooser, explore, stable_hash
from engine.result import Result
from engine.vloop import World
from worlds.queue_world import UUID_MODULES

PROPERTY = 'C15'
LEVEL = 'model_checking'
EXHAUSTIVE = True
T0, T1, T2 = 1000000.0, 1000010.0, 1000020.5
DLV = [[], [0], [1, 2], [0, 1, 2], [2, 0]]          # the last one: a legal list that is not ascending

RULE = ('BFS over histories: write A, write B, then up to D mutators from {set_timestamp(id,t1|t2), increment_attempts(id), '
        'set_recipients_delivered(id, idxs) once per message with idxs in {[],[0],[1,2],[0,1,2],[2,0]} given as a list, remove(id)} '
        '(also interleaved with the second write); after every mutator the backend is observed by get(A), get(B), load() '
        '(and get of a removed id) and compared with a dict-based reference store; states merged on reference-store '
        'content.  Thorough: every pair of operations on different ids overlapping in time, interleavings of their '
        'yield points; load() overlapping an operation on another id (3 messages; remove / write / increment / set_timestamp), every '
        'message untouched by that operation must be listed exactly once; index collections of other shapes (set, tuple, descending '
        'list, range, frozenset) on a 10-recipient message.  Non-trivial = state in which a message has marks, attempts > 0 or was removed.')
ASSUMPTIONS = ['fake redis client (bytes replies) and fake object store with aws.py semantics; in-memory FS for disk',
               'ids are compared after ASCII decoding; a get() of a removed id may raise any exception ("gone")',
               'single delivered-marking round per message (multi-round marking is C03)']


def BOUNDS(tier):
    return {'messages': 2, 'recipients': 3, 'depth_after_writes': 4 if tier == 'quick' else 5,
            'overlap': '5 pairs' if tier == 'quick' else 'all pairs of ops on different ids, interleavings of their yield points with <= 3 deviations from run-to-completion'}


def make_env(label):
    e = Envelope('s%s@x' % label, ['r%s%d@y' % (label, j) for j in range(3)])
    e.parse(b'Subject: ' + label.encode() + b'\r\nX-8bit: \xe9\r\n\r\nbody ' + label.encode() * 40 + b'\r\n.\r\n\xff\r\n')
    e.client = {'ip': '192.0.2.1', 'name': 'c'}
    e.receiver = 'mx'
    e.timestamp = 5.0
    return e


def make_backend(name, w, yield_events=False):
    if name == 'dict':
        from slimta.queue.dict import DictStorage
        from engine.vloop import reset_mutable_defaults
        reset_mutable_defaults(DictStorage)
        # a second store of the same process, used before the one under test: two stores share nothing
        other = DictStorage()
        other.write(make_env('Z'), T0)
        return DictStorage(), None
    if name == 'shelf':
        # the documented persistent variant of the dict backend: real shelve.Shelf objects (every value is pickled on
        # assignment and unpickled afresh on every access) over in-memory dicts
        import shelve
        from slimta.queue.dict import DictStorage
        return DictStorage(shelve.Shelf({}), shelve.Shelf({})), None
    if name == 'disk':
        import slimta.diskstorage as ds
        from engine import memfs
        complete = None
        if yield_events:
            def complete(fn, label):
                w.add_event(label, fn)
        fs = memfs.MemFS(complete=complete)
        memfs.bind(w, fs, chunk_size=64)
        return ds.DiskStorage('/q/env', '/q/meta', '/q/tmp'), fs
    if name == 'disk-onedir':
        # envelope and meta files in one directory (a legal configuration: the two file kinds differ by their suffix)
        import slimta.diskstorage as ds
        from engine import memfs
        fs = memfs.MemFS(dirs=('/q/all', '/q/tmp'))
        memfs.bind(w, fs, chunk_size=64)
        return ds.DiskStorage('/q/all', '/q/all', '/q/tmp'), fs
    if name == 'redis':
        import slimta.redisstorage as rs
        from slimta.queue import QueueStorage
        from fakes.fakeredis import make_storage
        st, _fake = make_storage(w)
        if yield_events:
            st.redis.yield_hook = lambda name: w.env_wait('redis:' + name)
        return st, st.redis
    if name == 'cloud':
        import slimta.cloudstorage as cs
        from fakes.fakecloud import FakeObjectStore
        os_ = FakeObjectStore(uuid4=w.fake_uuid4)
        if yield_events:
            os_.yield_hook = lambda name: w.env_wait('s3:' + name)
        return cs.CloudStorage(os_), os_
    raise ValueError(name)


class RefStore(object):
    def __init__(self):
        self.msgs = {}      # label -> dict
        self.removed = set()

    def key(self):
        return (tuple(sorted((l, m['ts'], m['attempts'], None if m['dlv'] is None else tuple(sorted(m['dlv'])))
                             for l, m in self.msgs.items())), tuple(sorted(self.removed)))

    def apply(self, op):
        kind = op[0]
        if kind == 'write':
            self.msgs[op[1]] = {'ts': T0, 'attempts': 0, 'dlv': None}
            return 'id'
        m = self.msgs[op[1]]
        if kind == 'ts':
            m['ts'] = op[2]
        elif kind == 'inc':
            m['attempts'] += 1
            return m['attempts']
        elif kind == 'dlv':
            m['dlv'] = list(op[2])
        elif kind == 'rm':
            del self.msgs[op[1]]
            self.removed.add(op[1])
        return None

    def enabled(self, written_target=('A', 'B')):
        ops = []
        for l in ('A', 'B'):
            if l not in self.msgs and l not in self.removed:
                if l == 'A' or 'A' in self.msgs or 'A' in self.removed:
                    ops.append(('write', l))
        for l, m in sorted(self.msgs.items()):
            ops.append(('ts', l, T1))
            ops.append(('ts', l, T2))
            ops.append(('inc', l))
            if m['dlv'] is None:
                for d in DLV:
                    ops.append(('dlv', l, tuple(d)))
            ops.append(('rm', l))
        return ops

    def expect_get(self, l):
        if l not in self.msgs:
            return 'gone' if l in self.removed else None
        m = self.msgs[l]
        env = make_env(l)
        rc = [r for i, r in enumerate(env.recipients) if not (m['dlv'] and i in m['dlv'])]
        return (env.sender, env.flatten(), tuple(rc), m['attempts'])

    def expect_load(self, ids):
        return sorted((m['ts'], ids[l]) for l, m in self.msgs.items())


def sid(x):
    return x.decode('ascii') if isinstance(x, bytes) else x


def do_op(st, op, ids):
    kind = op[0]
    if kind == 'write':
        i = st.write(make_env(op[1]), T0)
        ids[op[1]] = sid(i)
        return ('id', sid(i))
    i = ids[op[1]]
    if kind == 'ts':
        return st.set_timestamp(i, op[2])
    if kind == 'inc':
        return st.increment_attempts(i)
    if kind == 'dlv':
        return st.set_recipients_delivered(i, list(op[2]))
    if kind == 'rm':
        return st.remove(i)
    raise ValueError(op)


def observe(st, ids):
    out = {}
    for l, i in sorted(ids.items()):
        try:
            env, attempts = st.get(i)
            out[l] = (env.sender, env.flatten(), tuple(env.recipients), attempts)
        except BaseException as e:
            out[l] = ('raised', type(e).__name__)
    try:
        out['load'] = sorted((float(t), sid(i)) for t, i in st.load())
    except BaseException as e:
        out['load'] = ('raised', type(e).__name__)
    return out


def run_history(backend, hist, uuid_repeat_at=None):
    """Executes hist on a fresh backend, observing after every op.  Returns list of (op result, observation)."""
    ch = Chooser()
    res = []
    with World(ch, uuid_modules=UUID_MODULES, max_steps=20000) as w:
        w.uuid_repeat_at = uuid_repeat_at
        st, _ = make_backend(backend, w)
        ids = {}

        def body():
            for op in hist:
                try:
                    r = do_op(st, op, ids)
                except BaseException as e:
                    r = ('raised', type(e).__name__, str(e)[:80])
                res.append((r, observe(st, ids)))
        g = gevent.spawn(body)
        w.run_until_quiescent()
        if not g.dead:
            res.append((('blocked',), {}))
    return res, dict(ids)


def judge_last(backend, hist, real, ids):
    """compare the observation after the last op with the reference; returns list of (sig, msg)."""
    ref = RefStore()
    for op in hist[:-1]:
        ref.apply(op)
    exp_ret = ref.apply(hist[-1])
    out = []
    if len(real) != len(hist):
        return [({'kind': 'operation-blocked', 'op': hist[-1][0]}, 'history %r: an operation never returned' % (hist,))], ref
    r, obs = real[-1]
    op = hist[-1]
    if isinstance(r, tuple) and r and r[0] == 'raised':
        out.append(({'kind': 'operation-raised', 'op': op[0], 'exception': r[1]}, 'history %r: %s raised %s: %s' % (hist, op[0], r[1], r[2])))
        if op[0] == 'write' or any(l not in ids for l in ref.msgs):
            return out, ref         # no id to ask the store about
    elif op[0] == 'inc' and r != exp_ret:
        out.append(({'kind': 'increment-returned-wrong-count', 'op': 'inc'}, 'history %r: increment_attempts returned %r, reference %r' % (hist, r, exp_ret)))
    elif op[0] == 'write':
        others = [i for l, i in ids.items() if l != op[1]]
        if r[1] in others:
            out.append(({'kind': 'duplicate-id', 'op': 'write'}, 'history %r: write returned an id already in use' % (hist,)))
    for l in ('A', 'B'):
        exp = ref.expect_get(l)
        if exp is None:
            continue
        got = obs.get(l)
        if exp == 'gone':
            if not (isinstance(got, tuple) and got and got[0] == 'raised'):
                out.append(({'kind': 'removed-message-still-readable', 'op': op[0]}, 'history %r: get(%s) after remove returned %r' % (hist, l, got)))
        elif got != exp:
            what = 'get-raised' if (isinstance(got, tuple) and got and got[0] == 'raised') else \
                'not-observed' if not (isinstance(got, tuple) and len(got) == 4) else \
                ['sender', 'content', 'recipients', 'attempts'][[i for i in range(4) if got[i] != exp[i]][0]]
            other = l != op[1] if len(op) > 1 else False
            out.append(({'kind': 'get-differs', 'field': what, 'op': op[0], 'other_message_disturbed': other},
                        'history %r: get(%s) = %r, reference %r' % (hist, l, got[2:] if isinstance(got, tuple) and len(got) == 4 else got, exp[2:])))
    exp_load = ref.expect_load(ids)
    if obs.get('load') != exp_load:
        out.append(({'kind': 'load-differs', 'op': op[0]}, 'history %r: load() = %r, reference %r' % (hist, obs.get('load'), exp_load)))
    return out, ref


def start_during_case(opA, opB, res):
    """disk store: operation B (on another message) is started right after the k-th file-system effect of operation A, for
    every k -- also right behind A's last effect, when A is about to let go of the machinery both share.  Both must return,
    the store must end up as after A then B, and no aio request may be in flight without the keep-awake greenlet."""
    pre = [('write', 'A'), ('write', 'B')]
    seq_real, _ = run_history('disk', pre + [opA, opB])
    want = repr(sorted(seq_real[-1][1].items())) if seq_real else None
    k = 0
    while True:
        k += 1
        rs = {}
        with World(Chooser(), uuid_modules=UUID_MODULES, max_steps=50000) as w:
            st, fs = make_backend('disk', w)
            ids = {}

            def setup():
                for op in pre:
                    do_op(st, op, ids)
            gevent.spawn(setup)
            w.run_until_quiescent()
            base = len(fs.log)

            def runner(name, op):
                try:
                    rs[name] = do_op(st, op, ids)
                except BaseException as e:
                    rs[name] = ('raised', type(e).__name__, str(e)[:80])

            def on_effect(n):
                if n - base == k and 'Bstarted' not in rs:
                    rs['Bstarted'] = True
                    gevent.spawn(runner, 'B', opB)
            fs.on_effect = on_effect
            gevent.spawn(runner, 'A', opA)
            w.run_until_quiescent()
            fs.on_effect = None
            n_eff = len(fs.log) - base
            started = 'Bstarted' in rs
            after = {}
            if started:
                def ob():
                    after.update(observe(st, ids))
                gevent.spawn(ob)
                w.run_until_quiescent()
            missing = list(fs.keeper_missing)
        if not started:
            break           # k is beyond A's last effect
        res.evaluations += 1
        res.count('start_during_cases')
        res.interesting(('start-during', opA, opB, k))
        rep = {'start_during': [list(opA), list(opB)], 'k': k}
        where = '%r started right after effect %d of %r' % (opB, k, opA)
        if 'A' not in rs or 'B' not in rs:
            res.violation({'kind': 'operation-blocked', 'backend': 'disk', 'mode': 'start-during', 'op': (opA if 'A' not in rs else opB)[0]},
                          '%s: %s never returned' % (where, 'A' if 'A' not in rs else 'B'), rep)
        elif missing:
            res.violation({'kind': 'aio-request-without-keep-awake', 'backend': 'disk', 'mode': 'start-during', 'op': opB[0]},
                          '%s: aio request(s) in flight while no keep-awake greenlet was alive: %r' % (where, missing[:3]), rep)
        elif any(isinstance(rs[x], tuple) and rs[x] and rs[x][0] == 'raised' for x in 'AB'):
            res.violation({'kind': 'operation-raised', 'backend': 'disk', 'mode': 'start-during', 'op': opB[0]}, '%s: results %r / %r' % (where, rs['A'], rs['B']), rep)
        elif repr(sorted(after.items())) != want and opA[0] != 'write' and opB[0] != 'write':
            res.violation({'kind': 'overlap-differs-from-sequential', 'backend': 'disk', 'mode': 'start-during', 'opA': opA[0], 'opB': opB[0]},
                          '%s: the store ends up as %r, A then B gives %r' % (where, after, seq_real[-1][1]), rep)
        if k > 200:
            break


def uuid_repeat_case(backend, res):
    """the id source hands out an id that is still in use (its k-th answer repeats the one before): the store draws again, the
    message that owns the id is not disturbed"""
    hist = [('write', 'A'), ('inc', 'A'), ('write', 'B'), ('ts', 'B', T2), ('write', 'C')]
    for k in (1, 2, 3):
        for n in range(1, len(hist) + 1):
            h = hist[:n]
            real, ids = run_history(backend, h, uuid_repeat_at=k)
            res.evaluations += 1
            res.count('uuid_repeat_histories')
            res.interesting(('uuid-repeat', backend, k, n))
            viols, _ = judge_last(backend, list(h), real, ids)
            for sig, msg in viols:
                res.violation(dict(sig, backend=backend, id_source='repeats'), msg + ' [the id source repeats its answer number %d]' % k,
                              {'backend': backend, 'hist': [list(o) for o in h], 'uuid_repeat_at': k})
                return


def bfs(backend, depth, res):
    seen = {}
    root = ()
    frontier = [root]
    seen[stable_hash(RefStore().key())] = root
    level = 0
    while frontier and level < depth + 2:
        nxt = []
        for hist in frontier:
            ref = RefStore()
            for op in hist:
                ref.apply(op)
            n_mut = sum(1 for op in hist if op[0] != 'write')
            for op in ref.enabled():
                if op[0] != 'write' and n_mut >= depth:
                    continue
                h2 = hist + (op,)
                real, ids = run_history(backend, list(h2))
                res.evaluations += 1
                res.transitions += 1
                viols, ref2 = judge_last(backend, list(h2), real, ids)
                for sig, msg in viols:
                    sig = dict(sig, backend=backend)
                    res.violation(sig, msg, {'backend': backend, 'hist': [list(o) for o in h2]})
                obs = real[-1][1] if real else {}
                res.outcome((backend, stable_hash(repr(sorted(obs.items())))))
                k = stable_hash(ref2.key())
                if any(m['attempts'] or m['dlv'] is not None for m in ref2.msgs.values()) or ref2.removed:
                    res.interesting(ref2.key())
                if k not in seen:
                    seen[k] = h2
                    nxt.append(h2)
        frontier = nxt
        level += 1
    res.states += len(seen)
    return seen


# ---- overlapping operations (thorough)
def overlap_case(backend, prefix, opA, opB, res):
    """prefix sequential, then opA (on A) and opB (on B) run concurrently; all interleavings of their yields."""
    finals = set()

    def run(ch):
        out = {}
        with World(ch, uuid_modules=UUID_MODULES, max_steps=20000) as w:
            st, _ = make_backend(backend, w, yield_events=True)
            ids = {}
            state = {'phase': 0}

            def seq():
                for op in prefix:
                    do_op(st, op, ids)
            g = gevent.spawn(seq)
            w.loop.chooser = None          # the sequential prefix is not a source of choices
            w.run_until_quiescent()
            w.loop.chooser = ch
            rs = {}

            def one(name, op):
                try:
                    rs[name] = do_op(st, op, ids)
                except BaseException as e:
                    rs[name] = ('raised', type(e).__name__)
            ga = gevent.spawn(one, 'a', opA)
            gb = gevent.spawn(one, 'b', opB)
            w.run_until_quiescent()
            w.loop.chooser = None
            obs = {}

            def ob():
                obs.update(observe(st, ids))
            gevent.spawn(ob)
            w.run_until_quiescent()
            out = (repr(rs.get('a')), repr(rs.get('b')), repr(sorted(obs.items())))
        return out
    st = explore(run, d=3, dd=None, merge=False, max_exec=50000, on_result=lambda ch, o: finals.add(o))
    res.evaluations += st.executions
    res.transitions += st.transitions
    res.count('overlap_executions', st.executions)
    if st.cap_hit:
        res.caps.append('overlap ' + st.cap_hit)
    # reference: the two ops commute, compare with the sequential run prefix+opA+opB
    seq_real, ids = run_history(backend, list(prefix) + [opA, opB])
    seq_obs = repr(sorted(seq_real[-1][1].items())) if seq_real else None
    got = set(f[2] for f in finals)
    if got != {seq_obs}:
        res.violation({'kind': 'overlap-differs-from-sequential', 'backend': backend, 'opA': opA[0], 'opB': opB[0]},
                      'prefix %r then %r || %r: %d distinct final observations, sequential run gives a different/single one'
                      % (prefix, opA, opB, len(got)), {'backend': backend, 'overlap': [list(map(list, prefix)), list(opA), list(opB)]})
    res.interesting(('overlap', opA, opB))


# ---- load() overlapping an operation on another message
def load_overlap_case(backend, opB, res):
    """writes A, B, C; then list(load()) runs concurrently with opB (on B, or the write of a 4th message D): all
    interleavings of their yield points.  A and C are not touched by opB: each must be listed exactly once."""
    finals = set()
    bad = []

    def run(ch):
        with World(ch, uuid_modules=UUID_MODULES, max_steps=20000) as w:
            st, _ = make_backend(backend, w, yield_events=True)
            ids = {}

            pre = {}

            def seq():
                try:
                    for l in ('A', 'B', 'C'):
                        do_op(st, ('write', l), ids)
                except BaseException as e:
                    pre['exc'] = '%s: %s' % (type(e).__name__, str(e)[:80])
            gevent.spawn(seq)
            w.loop.chooser = None
            w.run_until_quiescent()
            w.loop.chooser = ch
            if pre or len(ids) < 3:
                bad.append((list(ch.choices), 'three plain writes one after the other, nothing overlapping: %s' % (pre.get('exc') or 'a write never returned')))
                return 'prestore-failed'
            rs = {}

            def lister():
                try:
                    rs['load'] = [(float(t), sid(i)) for t, i in st.load()]
                except BaseException as e:
                    rs['load'] = ('raised', type(e).__name__, str(e)[:80])

            def other():
                try:
                    rs['op'] = do_op(st, opB, ids)
                except BaseException as e:
                    rs['op'] = ('raised', type(e).__name__, str(e)[:80])
            gevent.spawn(lister)
            gevent.spawn(other)
            w.run_until_quiescent()
            listing = rs.get('load')
            out = (repr(listing), repr(rs.get('op')))
            if not isinstance(listing, list):
                bad.append((list(ch.choices), 'load() overlapping %r on another message: %r' % (opB, listing)))
            else:
                for l in ('A', 'C'):
                    n = sum(1 for t, i in listing if i == ids[l])
                    if n != 1:
                        bad.append((list(ch.choices), 'load() overlapping %r: message %s, untouched and live throughout, is listed %d time(s): %r'
                                    % (opB, l, n, listing)))
                    elif (T0, ids[l]) not in listing:
                        bad.append((list(ch.choices), 'load() overlapping %r: message %s listed with a wrong timestamp: %r' % (opB, l, listing)))
            # whatever the overlap, the operation itself must have had its effect: afterwards the store equals the reference
            w.loop.chooser = None
            after = {}

            def ob():
                after.update(observe(st, ids))
            gevent.spawn(ob)
            w.run_until_quiescent()
            ref = RefStore()
            for l in ('A', 'B', 'C'):
                ref.apply(('write', l))
            if not (isinstance(rs.get('op'), tuple) and rs['op'] and rs['op'][0] == 'raised'):
                ref.apply(opB)
                for l in sorted(ids):
                    exp = ref.expect_get(l) if l in ref.msgs or l in ref.removed else None
                    got = after.get(l)
                    if exp is not None and exp != 'gone' and got != exp:
                        bad.append((list(ch.choices), 'after %r overlapped a load(): get(%s) = %r, reference %r' % (opB, l, got if not isinstance(got, tuple) or len(got) != 4 else got[2:], exp[2:])))
            else:
                bad.append((list(ch.choices), '%r overlapping a load() raised %r' % (opB, rs['op'])))
        return out
    st = explore(run, d=3, dd=None, merge=False, max_exec=20000, on_result=lambda ch, o: finals.add(o))
    res.evaluations += st.executions
    res.transitions += st.transitions
    res.count('load_overlap_executions', st.executions)
    if st.cap_hit:
        res.caps.append('load-overlap ' + st.cap_hit)
    for o in finals:
        res.outcome((backend, 'load-overlap', o))
    res.interesting(('load-overlap', backend, opB))
    if bad:
        res.violation({'kind': 'load-disturbed-by-operation-on-another-message', 'backend': backend, 'op': opB[0]}, bad[0][1],
                      {'backend': backend, 'load_overlap': list(opB)})


# ---- other shapes of the delivered-index collection
def index_forms(backend, res):
    forms = [('set', lambda: {8, 1}), ('descending-list', lambda: [8, 1]), ('tuple', lambda: (1, 8)), ('set3', lambda: {9, 0, 4}),
             ('frozenset', lambda: frozenset([3, 9])), ('range', lambda: range(0, 10, 3)), ('unsorted-list', lambda: [5, 9, 0]),
             ('all', lambda: set(range(10))), ('last-first', lambda: [9, 0])]
    for name, mk in forms:
        idx = sorted(mk())
        got = {}
        with World(Chooser(), uuid_modules=UUID_MODULES, max_steps=20000) as w:
            st, _ = make_backend(backend, w)

            def body():
                e = Envelope('sF@x', ['rF%d@y' % j for j in range(10)])
                e.parse(b'Subject: forms\r\n\r\nbody\r\n')
                try:
                    i = st.write(e, T0)
                    st.set_recipients_delivered(i, mk())
                    env, attempts = st.get(i)
                    got['rcpts'] = list(env.recipients)
                except BaseException as ex:
                    got['rcpts'] = ('raised', type(ex).__name__, str(ex)[:80])
            gevent.spawn(body)
            w.run_until_quiescent()
        exp = ['rF%d@y' % j for j in range(10) if j not in idx]
        res.evaluations += 1
        res.outcome((backend, 'forms', name, repr(got.get('rcpts'))))
        res.interesting(('forms', backend, name))
        if got.get('rcpts') != exp:
            res.violation({'kind': 'get-differs', 'field': 'recipients', 'op': 'dlv', 'backend': backend, 'index_form': name},
                          'set_recipients_delivered(id, %s %r) on a 10-recipient message: get() recipients %r, reference %r'
                          % (name, mk() if name != 'range' else list(mk()), got.get('rcpts'), exp), {'backend': backend, 'forms': True})


# ---- short aio completions (disk)
SHORT_HISTORIES = [
    [('write', 'A')],
    [('write', 'A'), ('inc', 'A')],
    [('write', 'A'), ('dlv', 'A', (1, 2)), ('ts', 'A', T2)],
    [('write', 'A'), ('write', 'B'), ('inc', 'B'), ('rm', 'A')],
]


def short_io_case(hist, res, d):
    """the history on DiskStorage where every aio write/read may complete for fewer bytes than requested (all, half, one):
    all placements of <= d short completions; the final observation must equal the reference store"""
    bad = []

    def run(ch):
        out = []
        with World(ch, uuid_modules=UUID_MODULES, max_steps=200000) as w:
            st, fs = make_backend('disk', w)
            fs.short_chooser = ch
            ids = {}

            def body():
                for op in hist:
                    try:
                        r = do_op(st, op, ids)
                    except BaseException as e:
                        r = ('raised', type(e).__name__, str(e)[:80])
                    out.append((r, None))
                fs.short_chooser = None
                out[-1] = (out[-1][0], observe(st, ids))
            g = gevent.spawn(body)
            w.run_until_quiescent()
            if not g.dead:
                out.append((('blocked',), {}))
        if len(out) == len(hist):
            # judge only the final observation (judge_last looks at the last entry)
            viols, _ = judge_last('disk', list(hist), out, ids)
        else:
            viols = [({'kind': 'operation-blocked', 'op': hist[-1][0]}, 'history %r with short aio completions: an operation never returned' % (hist,))]
        for sig, msg in viols:
            bad.append((sig, msg + ' [short aio completions, choices %r]' % (list(ch.choices),), list(ch.choices)))
        return repr(out[-1])
    st = explore(run, d=d, dd=None, merge=False, max_exec=20000)
    res.evaluations += st.executions
    res.transitions += st.transitions
    res.count('short_io_executions', st.executions)
    if st.cap_hit:
        res.caps.append('short-io ' + st.cap_hit)
    res.interesting(('short-io', tuple(hist)))
    seen = set()
    for sig, msg, choices in bad:
        k = sig['kind']
        if k in seen:
            continue
        seen.add(k)
        res.violation(dict(sig, backend='disk', io='short'), msg, {'backend': 'disk', 'short_io': [list(o) for o in hist], 'choices': choices, 'd': d})


def configs(tier, seed):
    cfgs = []
    depth = 4 if tier == 'quick' else 5
    for b in ('dict', 'shelf', 'disk', 'redis', 'cloud'):
        cfgs.append({'mode': 'bfs', 'backend': b, 'depth': depth})
    cfgs.append({'mode': 'bfs', 'backend': 'disk-onedir', 'depth': 2})
    if tier == 'quick':
        for a, bb in ((('inc', 'A'), ('ts', 'B', T2)), (('write', 'A'), ('write', 'B')), (('dlv', 'A', (0,)), ('rm', 'B')), (('rm', 'A'), ('inc', 'B'))):
            cfgs.append({'mode': 'overlap', 'backend': 'disk', 'a': list(a), 'b': list(bb)})
        cfgs.append({'mode': 'overlap', 'backend': 'redis', 'a': ['inc', 'A'], 'b': ['dlv', 'B', [1, 2]]})
    for i in range(len(SHORT_HISTORIES)):
        cfgs.append({'mode': 'short-io', 'i': i, 'd': 1 if tier == 'quick' else 2})
    for b in ('dict', 'shelf', 'disk', 'redis', 'cloud'):
        cfgs.append({'mode': 'forms', 'backend': b})
    for b in ('dict', 'shelf', 'disk', 'redis'):
        cfgs.append({'mode': 'uuid-repeat', 'backend': b})
    for a in (('ts', 'A', T1), ('inc', 'A'), ('dlv', 'A', (0,)), ('rm', 'A'), ('write', 'C')):
        for bb in (('inc', 'B'), ('ts', 'B', T2), ('write', 'D')):
            cfgs.append({'mode': 'start-during', 'a': list(a), 'b': list(bb)})
    for b in ('disk', 'redis', 'cloud'):
        for op in (('rm', 'B'), ('write', 'D'), ('inc', 'B'), ('ts', 'B', T2)):
            cfgs.append({'mode': 'load-overlap', 'backend': b, 'op': list(op)})
    if tier != 'thorough':
        # a few overlapping pairs in every run (all 25 in thorough)
        for b in ('disk', 'redis', 'cloud'):
            for a, bb in ((('write', 'A'), ('write', 'B')), (('dlv', 'A', (0,)), ('write', 'B')), (('rm', 'A'), ('inc', 'B')),
                          (('ts', 'A', T1), ('dlv', 'B', (1, 2)))):
                cfgs.append({'mode': 'overlap', 'backend': b, 'a': list(a), 'b': list(bb)})
    if tier == 'thorough':
        opsA = [('ts', 'A', T1), ('inc', 'A'), ('dlv', 'A', (0,)), ('rm', 'A'), ('write', 'A')]
        opsB = [('ts', 'B', T2), ('inc', 'B'), ('dlv', 'B', (1, 2)), ('rm', 'B'), ('write', 'B')]
        for b in ('disk', 'redis', 'cloud'):
            for a in opsA:
                for bb in opsB:
                    cfgs.append({'mode': 'overlap', 'backend': b, 'a': list(a), 'b': list(bb)})
    return cfgs


def run_config(cfg, tier, seed):
    res = Result()
    if cfg['mode'] == 'bfs':
        seen = bfs(cfg['backend'], cfg['depth'], res)
        ks = sorted(seen)
        res.sample({'backend': cfg['backend'], 'a_history': [list(o) for o in seen[ks[len(ks) // 2]]], 'abstract_states': len(seen)})
        res.count('abstract_states', len(seen))
    elif cfg['mode'] == 'short-io':
        short_io_case(SHORT_HISTORIES[cfg['i']], res, cfg['d'])
        res.sample({'backend': 'disk', 'short_aio_completions': SHORT_HISTORIES[cfg['i']], 'd': cfg['d']})
    elif cfg['mode'] == 'forms':
        index_forms(cfg['backend'], res)
        res.sample({'backend': cfg['backend'], 'index_forms': 9})
    elif cfg['mode'] == 'start-during':
        tt = lambda op: tuple(tuple(x) if isinstance(x, list) else x for x in op)
        start_during_case(tt(cfg['a']), tt(cfg['b']), res)
        res.sample({'backend': 'disk', 'start_during': [cfg['a'], cfg['b']]})
    elif cfg['mode'] == 'uuid-repeat':
        uuid_repeat_case(cfg['backend'], res)
        res.sample({'backend': cfg['backend'], 'id_source_repeats_answer': [1, 2, 3]})
    elif cfg['mode'] == 'load-overlap':
        load_overlap_case(cfg['backend'], tuple(cfg['op']), res)
        res.sample({'backend': cfg['backend'], 'load_overlapping': cfg['op']})
    else:
        a, b = tuple(cfg['a']), tuple(cfg['b'])
        a = a[:2] + ((tuple(a[2]),) if len(a) > 2 and isinstance(a[2], list) else a[2:])
        b = b[:2] + ((tuple(b[2]),) if len(b) > 2 and isinstance(b[2], list) else b[2:])
        return _overlap(cfg, res, None, a, b)
    return res.as_dict()


def _overlap(cfg, res, prefix, a, b):
    # make sure both targets exist unless the op itself is the write
    pre = []
    if a[0] != 'write':
        pre.append(('write', 'A'))
    if b[0] != 'write':
        if a[0] == 'write':
            # RefStore writes A before B; emulate by writing B under label order: write A first then run op on A
            pre.append(('write', 'A'))
            a = ('inc', 'A')
        pre.append(('write', 'B'))
    overlap_case(cfg['backend'], pre, a, b, res)
    res.sample({'backend': cfg['backend'], 'prefix': pre, 'concurrent': [a, b]})
    return res.as_dict()


def vacuity(counters, tier):
    if counters.get('abstract_states', 0) < 200:
        return ['fewer than 200 abstract states']


def replay(rep):
    if 'hist' in rep:
        hist = [tuple(tuple(x) if isinstance(x, list) else x for x in op) for op in rep['hist']]
        real, ids = run_history(rep['backend'], hist, rep.get('uuid_repeat_at'))
        viols, _ = judge_last(rep['backend'], hist, real, ids)
        if viols:
            return True, viols[0][1] + (' [the id source repeats its answer number %d]' % rep['uuid_repeat_at'] if rep.get('uuid_repeat_at') else '')
        return False, 'backend agrees with the reference store after %r' % (hist[-1],)
    res = Result()
    if rep.get('start_during'):
        tt = lambda op: tuple(tuple(x) if isinstance(x, list) else x for x in op)
        start_during_case(tt(rep['start_during'][0]), tt(rep['start_during'][1]), res)
        mine = [v for v in res.violations if v['replay'].get('k') == rep['k']]
        if mine:
            return True, mine[0]['message']
        return False, 'both operations returned and the store ends up as after A then B'
    if rep.get('short_io'):
        tt = lambda op: tuple(tuple(x) if isinstance(x, list) else x for x in op)
        short_io_case([tt(o) for o in rep['short_io']], res, rep.get('d', 1))
        if res.violations:
            return True, res.violations[0]['message']
        return False, 'short aio completions do not change what the store holds'
    if rep.get('forms'):
        index_forms(rep['backend'], res)
        if res.violations:
            return True, res.violations[0]['message']
        return False, 'every index collection shape removes exactly the marked recipients'
    if rep.get('load_overlap'):
        load_overlap_case(rep['backend'], tuple(rep['load_overlap']), res)
        if res.violations:
            return True, res.violations[0]['message']
        return False, 'load() lists every untouched message exactly once'
    prefix, a, b = rep['overlap']
    tt = lambda op: tuple(tuple(x) if isinstance(x, list) else x for x in op)
    overlap_case(rep['backend'], [tt(p) for p in prefix], tt(a), tt(b), res)
    if res.violations:
        return True, res.violations[0]['message']
    return False, 'overlapped run equals the sequential run'
