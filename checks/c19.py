"""C19 -- relay connection pools stay within bounds and strand no request.

Layer A: the real RelayPool + BlockingDeque + RelayPoolClient.poll with a harness client class that
follows the documented pattern; what a client does with a request is an explorer choice (deliver,
fail, deliver then die, put the request back and exit) and takes time (an environment event), callers
arrive as environment events, idle expiry is a virtual timer.
Layer B: the real StaticSmtpRelay/SmtpRelayClient (and HttpRelay/HttpRelayClient) with 2-3 concurrent
attempts against auto-answering scripted peers with explorer-placed faults (connection refused,
4xx/5xx on MAIL, unsolicited 421 between messages, delayed replies).
All interleavings up to a deviation bound, quiescent states merged.
"""
import socket as _socket
import types

import gevent
import gevent.event
from gevent.event import AsyncResult

import engine.speedups  # noqa
from slimta.relay.pool import RelayPool, RelayPoolClient
from slimta.relay import TransientRelayError, PermanentRelayError, RelayError
from slimta.smtp.reply import Reply

from engine.core import explore, Chooser
from engine.result import Result
from engine.vloop import World
from fakes.vsock import Net, VContext
from fakes.downstream import ScriptedPeer
from worlds.relay_world import make_envelope, classify

PROPERTY = 'C19'
LEVEL = 'model_checking'
EXHAUSTIVE = True

RULE = ('A: callers 2..3 (4 thorough) x pool_size {1,2,3,None} x idle_timeout {None,5}: all interleavings (<= d deviations) of '
        'attempt() calls, client start-up, polling, processing completions and idle expiry x per-request client behaviour '
        '{deliver, fail, deliver-then-die, requeue-and-exit} (<= dd non-default), quiescent states merged.  B: real SMTP and '
        'HTTP relay pools, 2..3 concurrent attempts x pool_size {1,2} x idle_timeout {None,5} x peer faults {refused, 4xx/5xx on '
        'MAIL, unsolicited 421 after a message, delayed reply; HTTP: refused, 500, dropped, delayed}.  Monitors: live clients/connections <= pool_size; every '
        'attempt gets the result of its own envelope; at quiescence no request pending and no caller blocked; len(deque) == '
        'semaphore counter; the peer never sees MAIL inside a transaction nor after a failed one without RSET.  Non-trivial '
        '= execution in which two requests overlapped in time.')
ASSUMPTIONS = ['a pool client that dies without ever setting or re-queueing its request is a client bug, not a pool bug, and is not generated',
               'in-memory sockets; wait_read() in slimta.smtp.client is rebound to the in-memory readiness of the socket']


def BOUNDS(tier):
    return {'callers': 3 if tier == 'quick' else 4, 'd': 2 if tier == 'quick' else 3, 'dd': 2}


# ------------------------------------------------------------------ layer A
class PoolWorldA(object):
    def __init__(self, ch, cfg):
        self.ch, self.cfg = ch, cfg
        self.viol = []
        self.max_live = 0
        self.overlap = False

    def run(self):
        cfg = self.cfg
        ch = self.ch
        pw = self
        with World(ch, max_steps=2000) as w:
            self.world = w
            live = set()
            working = {}

            class HClient(RelayPoolClient):
                counter = [0]

                def __init__(self, queue, idle_timeout):
                    super(HClient, self).__init__(queue, idle_timeout)
                    self.k = HClient.counter[0]
                    HClient.counter[0] += 1

                def _run(self):
                    live.add(self)
                    pw.max_live = max(pw.max_live, len(live))
                    if cfg['pool_size'] and len(live) > cfg['pool_size']:
                        pw.viol.append(('pool-size-exceeded', '%d live clients, pool_size %r' % (len(live), cfg['pool_size'])))
                    try:
                        while True:
                            result, envelope = self.poll()
                            if not result:
                                return
                            working[self.k] = envelope.sender
                            if len(working) > 1:
                                pw.overlap = True
                            try:
                                w.env_wait('client%d-finishes-%s' % (self.k, envelope.sender))
                                b = ch.choose(4, 'behaviour:%s' % envelope.sender, 'data')
                                if b == 0:
                                    result.set(('ok', envelope.sender, self.k))
                                elif b == 1:
                                    result.set_exception(TransientRelayError('scripted', Reply('450', '4.0.0 for ' + envelope.sender)))
                                elif b == 2:
                                    result.set(('ok', envelope.sender, self.k))
                                    raise RuntimeError('client dies after delivering')
                                else:
                                    self.queue.appendleft((result, envelope))
                                    return
                            finally:
                                working.pop(self.k, None)
                            if self.idle_timeout is None:
                                return
                    finally:
                        live.discard(self)

            class Pool(RelayPool):
                def add_client(self):
                    return HClient(self.queue, cfg['idle_timeout'])
            pool = Pool(cfg['pool_size'])
            self.pool = pool
            callers = []
            for i in range(cfg['callers']):
                rec = {'i': i, 'sender': 's%d@x' % i, 'outcome': None, 'started': False}
                callers.append(rec)

                def call(rec=rec):
                    rec['started'] = True
                    env = make_envelope(rec['i'], 1)
                    try:
                        rec['outcome'] = ('returned', pool.attempt(env, 0))
                    except gevent.GreenletExit:
                        raise
                    except BaseException as e:
                        rec['outcome'] = ('raised', e)
                w.add_event('caller%d' % i, lambda call=call: gevent.spawn(call))
            self.callers = callers
            w.loop.state_key = lambda: (
                tuple(e.label for e in w.loop.env_events), tuple(sorted(round(t.due - w.loop._now, 6) for t in w.loop._timers)),
                len(pool.queue), pool.queue.sema.counter, tuple(sorted((c.k, c.idle) for c in live)), tuple(sorted(working.items())),
                tuple((r['started'], repr(r['outcome'])[:60]) for r in callers), len(self.viol))
            w.loop.on_step = lambda kind, label: self.invariants(pool)
            w.run_until_quiescent()
            self.final(pool, live)
            self.errors = [e for e in w.errors() if e != ('RuntimeError', 'client dies after delivering')]
        return (tuple(repr(r['outcome'])[:80] for r in callers), self.max_live, tuple(sorted(set(v[0] for v in self.viol))))

    def invariants(self, pool):
        if len(pool.queue) != pool.queue.sema.counter:
            self.viol.append(('deque-semaphore-mismatch', 'len(deque)=%d semaphore=%d' % (len(pool.queue), pool.queue.sema.counter)))
        if self.cfg['pool_size'] and len(pool.pool) > self.cfg['pool_size']:
            self.viol.append(('pool-size-exceeded', '%d clients in pool, pool_size %r' % (len(pool.pool), self.cfg['pool_size'])))

    def final(self, pool, live):
        self.invariants(pool)
        if len(pool.queue) > 0:
            self.viol.append(('request-stranded', '%d request(s) left in the deque at quiescence with %d live client(s)' % (len(pool.queue), len(live))))
        for r in self.callers:
            if r['started'] and r['outcome'] is None:
                self.viol.append(('caller-blocked-forever', 'attempt() of %s never returned (live clients %d, deque %d)' % (r['sender'], len(live), len(pool.queue))))
            elif r['outcome'] is not None:
                kind, val = r['outcome']
                if kind == 'returned' and (not isinstance(val, tuple) or val[1] != r['sender']):
                    self.viol.append(('result-of-another-request', 'attempt() of %s returned %r' % (r['sender'], val)))
                if kind == 'raised' and r['sender'] not in str(getattr(val, 'reply', val)):
                    self.viol.append(('result-of-another-request', 'attempt() of %s raised %r' % (r['sender'], val)))


# ------------------------------------------------------------------ layer B (SMTP)
class PoolWorldB(object):
    def __init__(self, ch, cfg):
        self.ch, self.cfg = ch, cfg
        self.viol = []
        self.overlap = False

    def run(self):
        import slimta.smtp.client as sclient
        from slimta.relay.smtp.static import StaticSmtpRelay
        cfg, ch = self.cfg, self.ch
        with World(ch, max_steps=3000) as w:
            self.world = w
            net = Net(w)
            peers = []
            socks = {}

            def wait_read(fd, timeout=None, timeout_exc=None):
                s = socks.get(fd)
                if s is not None and s.readable():
                    return
                raise timeout_exc
            w.patch(sclient, 'wait_read', wait_read)

            def creator(address):
                c = ch.choose(2, 'connect', 'data') if cfg.get('faults') else 0
                if c == 1:
                    raise _socket.error(111, 'Connection refused')
                client, server = net.pair(peername=address)
                fd = 1000 + len(peers)
                client.fileno = lambda fd=fd: fd
                socks[fd] = client
                if cfg['pool_size'] and len(net.open) > cfg['pool_size']:
                    self.viol.append(('pool-size-exceeded', '%d open connections, pool_size %r' % (len(net.open), cfg['pool_size'])))
                p = ScriptedPeer(server, {}, pipelining=True, lmtp=bool(cfg.get('lmtp')))
                peers.append(p)
                if cfg.get('faults'):
                    orig_reply = p._reply

                    def faulty(stage, base, text, multi=None, p=p, orig_reply=orig_reply):
                        txn = max(0, len(p.transactions) - 1)
                        if stage == 'mail':
                            f = ch.choose(4, 'mail-reply', 'data')
                            if f:
                                p.script['mail@%d' % txn] = {1: '4', 2: '5', 3: 'disconnect'}[f]
                        if stage.startswith('rcpt') and cfg.get('rcpt_faults'):
                            f = ch.choose(3, 'rcpt-reply', 'data')
                            if f:
                                p.script['%s@%d' % (stage, txn)] = {1: '4', 2: '5'}[f]
                        if stage.startswith('eod') and cfg.get('rcpt_faults'):
                            f = ch.choose(3, 'eod-reply', 'data')
                            if f:
                                p.script['%s@%d' % (stage, txn)] = {1: '4', 2: '5'}[f]
                        if stage.startswith('eod') and ch.choose(2, 'eod-silent', 'data') == 1:
                            p.script['%s@%d' % (stage, txn)] = 'stall'                 # the peer goes silent after the final dot
                        if stage == 'rset' and ch.choose(2, 'rset-reply-late', 'data') == 1:
                            p.script['rset@%d' % txn] = ('delay', 12.0)          # later than the command timeout (11 s)
                        if stage == 'mail' and cfg.get('delays'):
                            if ch.choose(2, 'delay-mail-reply', 'sched') == 1:
                                w.env_wait('peer%d-replies' % peers.index(p))
                        return orig_reply(stage, base, text, multi)
                    p._reply = faulty
                    if cfg.get('idle_timeout'):
                        p.after_transaction = lambda p: ch.choose(2, 'unsolicited-421', 'data') == 1
                gevent.spawn(p.run)
                return client
            relay_cls = StaticSmtpRelay
            if cfg.get('lmtp'):
                from slimta.relay.smtp.static import StaticLmtpRelay as relay_cls
            if cfg.get('no_ehlo_as'):
                # relay built without ehlo_as (the documented default: the FQDN of the system).  The standard library's
                # getfqdn() answers without switching; gevent's cooperative one may let other greenlets run meanwhile.
                import socket as std_socket
                import gevent.socket as gsocket
                w.patch(std_socket, 'getfqdn', lambda *a: 'relay.test')

                def coop_getfqdn(*a):
                    w.env_wait('getfqdn')
                    return 'relay.test'
                w.patch(gsocket, 'getfqdn', coop_getfqdn)
            relay = relay_cls('mx.test', 25, pool_size=cfg['pool_size'], socket_creator=creator, ehlo_as=None if cfg.get('no_ehlo_as') else 'relay.test',
                                    idle_timeout=cfg.get('idle_timeout'), context=VContext(), connect_timeout=7.0,
                                    command_timeout=11.0, data_timeout=13.0)
            callers = []
            inflight = [0]
            for i in range(cfg['callers']):
                rec = {'i': i, 'sender': 's%d@x' % i, 'outcome': None, 'started': False, 'env': make_envelope(i, cfg.get('rcpts', 1))}
                callers.append(rec)

                def call(rec=rec):
                    rec['started'] = True
                    inflight[0] += 1
                    if inflight[0] > 1:
                        self.overlap = True
                    try:
                        rec['outcome'] = ('returned', relay.attempt(rec['env'], 0))
                    except gevent.GreenletExit:
                        raise
                    except BaseException as e:
                        rec['outcome'] = ('raised', e)
                    finally:
                        inflight[0] -= 1
                w.add_event('caller%d' % i, lambda call=call: gevent.spawn(call))
            w.loop.state_key = lambda: (
                tuple(e.label for e in w.loop.env_events), tuple(sorted(round(t.due - w.loop._now, 6) for t in w.loop._timers)),
                len(relay.queue), len(relay.pool), tuple(sorted(c.idle for c in relay.pool)), len(net.open),
                tuple((r['started'], repr(r['outcome'])[:50]) for r in callers),
                tuple((len(p.transactions), p.closed, tuple(sorted(p.script.items()))) for p in peers), len(self.viol))

            def inv(kind, label):
                if len(relay.queue) != relay.queue.sema.counter:
                    self.viol.append(('deque-semaphore-mismatch', 'len(deque)=%d semaphore=%d' % (len(relay.queue), relay.queue.sema.counter)))
                if cfg['pool_size'] and len(relay.pool) > cfg['pool_size']:
                    self.viol.append(('pool-size-exceeded', '%d clients, pool_size %r' % (len(relay.pool), cfg['pool_size'])))
            w.loop.on_step = inv
            w.run_until_quiescent()
            inv(None, None)
            if len(relay.queue) > 0:
                self.viol.append(('request-stranded', '%d request(s) left in the deque at quiescence' % len(relay.queue)))
            for r in callers:
                if r['started'] and r['outcome'] is None:
                    self.viol.append(('caller-blocked-forever', 'attempt() of %s never returned' % r['sender']))
                elif r['outcome'] is not None:
                    kind, val = r['outcome']
                    if kind == 'returned' and isinstance(val, dict):
                        for rcpt, v in val.items():
                            if isinstance(v, Reply) and ('for ' + r['sender']) not in (v.message or ''):
                                self.viol.append(('result-of-another-request', 'attempt() of %s got reply %r' % (r['sender'], v)))
                            if rcpt not in r['env'].recipients:
                                self.viol.append(('result-of-another-request', 'attempt() of %s got a result for %r' % (r['sender'], rcpt)))
                    elif kind == 'raised' and not isinstance(val, RelayError):
                        self.viol.append(('non-relay-exception', 'attempt() of %s raised %r' % (r['sender'], val)))
                    elif kind == 'raised':
                        msg = str(getattr(val, 'reply', ''))
                        if ' for ' in msg and (' for ' + r['sender']) not in msg:
                            self.viol.append(('result-of-another-request', 'attempt() of %s failed with a reply given to another transaction: %s' % (r['sender'], msg)))
                    if not cfg.get('faults'):
                        # no fault anywhere: the only acceptable result is delivery of every recipient
                        per, _ = classify(r['outcome'], r['env'])
                        bad = sorted(rc for rc in r['env'].recipients if per.get(rc) != 'delivered')
                        if bad:
                            self.viol.append(('fault-free-attempt-failed', 'no fault was injected, yet attempt() of %s reports %r for %r'
                                              % (r['sender'], r['outcome'][0] if kind == 'raised' else 'failure', bad)))
                    # delivered only if some peer accepted it
                    if kind == 'returned':
                        acc = set()
                        for p in peers:
                            acc |= set(x[1].decode() for x in p.accepted() if x[0].decode() == r['sender'])
                        per, _ = classify(r['outcome'], r['env'])
                        for rcpt, c in per.items():
                            if c == 'delivered' and rcpt not in acc:
                                self.viol.append(('delivered-but-not-accepted', 'attempt() of %s reports %s delivered, no peer accepted it' % (r['sender'], rcpt)))
            for p in peers:
                for v in p.violations:
                    self.viol.append(('peer-saw-protocol-violation', v))
            self.errors = w.errors()
            self.peers = peers
        return (tuple(repr(r['outcome'])[:60] for r in callers), len(peers), tuple(sorted(set(v[0] for v in self.viol))))


# ------------------------------------------------------------------ layer H (HTTP relay pool)
class PoolWorldH(object):
    def __init__(self, ch, cfg):
        self.ch, self.cfg = ch, cfg
        self.viol = []
        self.overlap = False

    def run(self):
        import slimta.http as shttp
        from slimta.relay.http import HttpRelay
        from fakes.fakehttp import HttpPeer, response
        cfg, ch = self.cfg, self.ch
        # an idle HttpRelayClient polls for ever: stop firing timers after 40 virtual seconds
        with World(ch, max_steps=4000, horizon=40.0) as w:
            net = Net(w)
            peers = []
            accepted = []
            received = []
            refused = [0]
            late = set()

            def create_connection(addr, timeout=None, source_address=None):
                if cfg.get('faults') and ch.choose(2, 'connect', 'data') == 1:
                    refused[0] += 1
                    raise _socket.error(111, 'Connection refused')
                c, s_ = net.pair(peername=addr)
                if cfg['pool_size'] and len(net.open) > cfg['pool_size']:
                    self.viol.append(('pool-size-exceeded', '%d open connections, pool_size %r' % (len(net.open), cfg['pool_size'])))

                def responder(req, k):
                    import base64
                    sender = base64.b64decode(dict(req['headers'])['X-Envelope-Sender']).decode()
                    received.append(sender)
                    f = ch.choose(5, 'http-status', 'data') if cfg.get('faults') else 0
                    if f == 4:
                        # whatever listens there does not speak HTTP (the answer is no status line)
                        return ('partial', b'220 mx.test ESMTP ready\r\n')
                    if cfg.get('delays') and ch.choose(2, 'delay-response', 'sched') == 1:
                        w.env_wait('origin-replies-%s' % sender)
                    if f == 3:
                        late.add(sender)
                        gevent.sleep(12.0)          # the answer comes after the relay's timeout (9 s)
                        f = 0
                    if f == 0:
                        accepted.append(sender)
                        return response(200, 'OK', [('X-Smtp-Reply', '250; message="2.0.0 ok for %s"' % sender)])
                    if f == 1:
                        return response(500, 'Internal Server Error', [('X-Smtp-Reply', '451; message="4.0.0 busy for %s"' % sender)], b'oops')
                    return 'drop'
                p = HttpPeer(s_, responder)
                peers.append(p)
                gevent.spawn(p.run)
                return c
            w.patch(shttp, 'socket', types.SimpleNamespace(create_connection=create_connection))
            relay = HttpRelay('http://mx.test:8025/deliver', pool_size=cfg['pool_size'], ehlo_as='relay.test', timeout=9.0,
                              idle_timeout=cfg.get('idle_timeout'))
            callers = []
            inflight = [0]
            for i in range(cfg['callers']):
                rec = {'i': i, 'sender': 's%d@x' % i, 'outcome': None, 'started': False, 'env': make_envelope(i, 1)}
                callers.append(rec)

                def call(rec=rec):
                    rec['started'] = True
                    inflight[0] += 1
                    if inflight[0] > 1:
                        self.overlap = True
                    try:
                        rec['outcome'] = ('returned', relay.attempt(rec['env'], 0))
                    except gevent.GreenletExit:
                        raise
                    except BaseException as e:
                        rec['outcome'] = ('raised', e)
                    finally:
                        inflight[0] -= 1
                w.add_event('caller%d' % i, lambda call=call: gevent.spawn(call))
            w.loop.state_key = lambda: (
                tuple(e.label for e in w.loop.env_events), tuple(sorted(round(t.due - w.loop._now, 6) for t in w.loop._timers)),
                len(relay.queue), len(relay.pool), tuple(sorted(c.idle for c in relay.pool)), len(net.open),
                tuple((r['started'], repr(r['outcome'])[:50]) for r in callers), tuple(len(p.requests) for p in peers), len(self.viol))

            def inv(kind, label):
                if len(relay.queue) != relay.queue.sema.counter:
                    self.viol.append(('deque-semaphore-mismatch', 'len(deque)=%d semaphore=%d' % (len(relay.queue), relay.queue.sema.counter)))
                if cfg['pool_size'] and len(relay.pool) > cfg['pool_size']:
                    self.viol.append(('pool-size-exceeded', '%d clients, pool_size %r' % (len(relay.pool), cfg['pool_size'])))
            w.loop.on_step = inv
            w.run_until_quiescent()
            inv(None, None)
            if len(relay.queue) > 0:
                self.viol.append(('request-stranded', '%d request(s) left in the deque at the horizon' % len(relay.queue)))
            for r in callers:
                if r['started'] and r['outcome'] is None:
                    self.viol.append(('caller-blocked-forever', 'attempt() of %s never returned' % r['sender']))
                elif r['outcome'] is not None:
                    kind, val = r['outcome']
                    if kind == 'returned':
                        if not (isinstance(val, Reply) and ('for ' + r['sender']) in (val.message or '')):
                            self.viol.append(('result-of-another-request', 'attempt() of %s returned %r' % (r['sender'], val)))
                        if r['sender'] not in accepted:
                            self.viol.append(('delivered-but-not-accepted', 'attempt() of %s reports success, the origin never accepted it' % r['sender']))
                    elif not isinstance(val, RelayError):
                        self.viol.append(('non-relay-exception', 'attempt() of %s raised %r' % (r['sender'], val)))
                    elif ('for ' in str(val.reply)) and ('for ' + r['sender']) not in str(val.reply):
                        self.viol.append(('result-of-another-request', 'attempt() of %s raised %r' % (r['sender'], val.reply)))
                    elif r['sender'] in accepted and r['sender'] not in late and not cfg.get('delays'):
                        # the origin took this very message (and answered in time), yet the attempt is reported as failed:
                        # it tripped over what another request left behind on the connection
                        self.viol.append(('accepted-but-reported-failed', 'attempt() of %s raised %r although the origin accepted its request with 200 in time'
                                          % (r['sender'], val.reply)))
                    elif r['sender'] not in received and not refused[0]:
                        # no connection was refused, yet this request never reached the origin: it failed on the state
                        # another request left behind in the client or its connection
                        self.viol.append(('failed-without-reaching-the-origin', 'attempt() of %s raised %r although no connection was refused and the '
                                          'origin never saw its request (requests seen: %r)' % (r['sender'], val.reply, received)))
            self.errors = [e for e in w.errors() if e[0] not in ('RemoteDisconnected', 'ConnectionRefusedError', 'OSError')]
        return (tuple(repr(r['outcome'])[:60] for r in callers), len(peers), tuple(sorted(set(v[0] for v in self.viol))))


# ------------------------------------------------------------------ layer M (MxSmtpRelay: one pool per destination)
class PoolWorldM(object):
    def __init__(self, ch, cfg):
        self.ch, self.cfg = ch, cfg
        self.viol = []
        self.overlap = False

    def run(self):
        import slimta.relay.smtp.mx as mx
        from gevent.event import AsyncResult
        cfg, ch = self.cfg, self.ch
        with World(ch, max_steps=4000) as w:
            net = Net(w)
            peers = []
            R = types.SimpleNamespace

            class Stub(object):
                @classmethod
                def query(cls, name, qtype):
                    r = AsyncResult()
                    ans = [R(priority=10, host='mx1.%s' % name, ttl=300)] if qtype == 'MX' else [R(host='192.0.2.1', ttl=300)]
                    if cfg.get('slow_dns'):
                        w.add_event('dns-%s-%s' % (qtype, name), lambda: r.set(ans))
                    else:
                        r.set(ans)
                    return r
            w.patch(mx, 'DNSResolver', Stub)

            def creator(address):
                client, server = net.pair(peername=address)
                if cfg['pool_size'] and len(net.open) > cfg['pool_size']:
                    self.viol.append(('pool-size-exceeded', '%d connections open to %r, pool_size %r' % (len(net.open), address, cfg['pool_size'])))
                p = ScriptedPeer(server, {}, pipelining=True)
                peers.append(p)
                orig_reply = p._reply

                def slow(stage, base, text, multi=None, p=p, orig_reply=orig_reply):
                    if stage == 'mail':
                        w.env_wait('peer%d-answers-mail' % peers.index(p))      # transactions take time: attempts overlap
                    return orig_reply(stage, base, text, multi)
                p._reply = slow
                gevent.spawn(p.run)
                return client
            relay = mx.MxSmtpRelay(pool_size=cfg['pool_size'], socket_creator=creator, ehlo_as='relay.test', context=VContext(),
                                   idle_timeout=cfg.get('idle_timeout'))
            callers = []
            inflight = [0]
            for i in range(cfg['callers']):
                env = make_envelope(i, 1)
                env.recipients = ['u%d@example.com' % i]
                rec = {'i': i, 'sender': 's%d@x' % i, 'outcome': None, 'started': False, 'env': env}
                callers.append(rec)

                def call(rec=rec):
                    rec['started'] = True
                    inflight[0] += 1
                    if inflight[0] > 1:
                        self.overlap = True
                    try:
                        rec['outcome'] = ('returned', relay.attempt(rec['env'], 0))
                    except gevent.GreenletExit:
                        raise
                    except BaseException as e:
                        rec['outcome'] = ('raised', e)
                    finally:
                        inflight[0] -= 1
                w.add_event('caller%d' % i, lambda call=call: gevent.spawn(call))
            w.loop.state_key = lambda: (
                tuple(e.label for e in w.loop.env_events), tuple(sorted(round(t.due - w.loop._now, 6) for t in w.loop._timers)),
                len(net.open), tuple((r['started'], repr(r['outcome'])[:50]) for r in callers),
                tuple((len(p.transactions), p.closed) for p in peers), len(self.viol))
            w.run_until_quiescent()
            for r in callers:
                if r['started'] and r['outcome'] is None:
                    self.viol.append(('caller-blocked-forever', 'attempt() of %s never returned' % r['sender']))
                elif r['outcome'] is not None:
                    # (a slow MAIL answer may legitimately run into the command timeout: only a non-relay exception is wrong here)
                    per, whole = classify(r['outcome'], r['env'])
                    if whole.startswith('raised:other'):
                        self.viol.append(('non-relay-exception', 'attempt() of %s ended as %s' % (r['sender'], whole)))
            self.errors = w.errors()
        return (tuple(repr(r['outcome'])[:60] for r in callers), len(peers), tuple(sorted(set(v[0] for v in self.viol))))


def configs(tier, seed):
    q = tier == 'quick'
    cfgs = []
    for callers in ((2, 3) if q else (2, 3, 4)):
        for ps in (1, 2, 3, None):
            for it in (None, 5.0):
                cfgs.append({'layer': 'A', 'callers': callers, 'pool_size': ps, 'idle_timeout': it,
                             'd': (2 if callers <= 3 else 1) if q else (3 if callers <= 3 else 2), 'dd': 2})
    for callers in (2, 3):
        for ps in (1, 2):
            for it in (None, 5.0):
                cfgs.append({'layer': 'B', 'callers': callers, 'pool_size': ps, 'idle_timeout': it, 'faults': True, 'delays': callers == 2,
                             'd': 1 if q else 2, 'dd': 2})
                cfgs.append({'layer': 'B', 'callers': callers, 'pool_size': ps, 'idle_timeout': it, 'faults': False, 'd': 2 if q else 3, 'dd': 0})
                if callers == 2 or ps == 1:
                    cfgs.append({'layer': 'B', 'lmtp': True, 'callers': callers, 'pool_size': ps, 'idle_timeout': it, 'faults': False, 'd': 1 if q else 2, 'dd': 0})
                    cfgs.append({'layer': 'B', 'lmtp': True, 'callers': callers, 'pool_size': ps, 'idle_timeout': it, 'faults': True, 'd': 0 if q else 1, 'dd': 2})
                if ps == 1 or callers == 2:
                    cfgs.append({'layer': 'M', 'callers': callers, 'pool_size': ps, 'idle_timeout': it, 'slow_dns': callers == 2, 'd': 2 if q else 3, 'dd': 0})
                if callers == 3 and it is None:
                    cfgs.append({'layer': 'B', 'callers': callers, 'pool_size': ps, 'idle_timeout': it, 'faults': True, 'delays': True, 'no_ehlo_as': True, 'd': 2 if q else 3, 'dd': 0})
                if callers == 2 and ps == 1:
                    # two recipients each, every RCPT may be refused either way (all refused, in different ways, is one case)
                    for lm in (False, True):
                        cfgs.append({'layer': 'B', 'lmtp': lm, 'callers': 2, 'pool_size': 1, 'idle_timeout': it, 'faults': True, 'rcpts': 2,
                                     'rcpt_faults': True, 'd': 0 if q else 1, 'dd': 2})
                if not q and callers == 3:
                    # deeper: a fourth caller, one more schedule deviation, pool size 3
                    for ps4 in sorted(set((ps, 3))):
                        cfgs.append({'layer': 'B', 'callers': 4, 'pool_size': ps4, 'idle_timeout': it, 'faults': True, 'd': 2, 'dd': 2})
                        cfgs.append({'layer': 'B', 'callers': 4, 'pool_size': ps4, 'idle_timeout': it, 'faults': False, 'd': 3, 'dd': 0})
                        cfgs.append({'layer': 'H', 'callers': 4, 'pool_size': ps4, 'idle_timeout': it, 'faults': True, 'd': 2, 'dd': 2})
                    cfgs.append({'layer': 'B', 'callers': 3, 'pool_size': ps, 'idle_timeout': it, 'faults': True, 'd': 2, 'dd': 3})
                    cfgs.append({'layer': 'H', 'callers': 3, 'pool_size': ps, 'idle_timeout': it, 'faults': True, 'd': 2, 'dd': 3})
                cfgs.append({'layer': 'H', 'callers': callers, 'pool_size': ps, 'idle_timeout': it, 'faults': True, 'delays': callers == 2, 'd': 1 if q else 2, 'dd': 2})
    return cfgs


def run_one(cfg, ch):
    wcfg = {k: v for k, v in cfg.items() if k not in ('d', 'dd', 'layer')}
    pw = {'A': PoolWorldA, 'B': PoolWorldB, 'H': PoolWorldH, 'M': PoolWorldM}[cfg['layer']](ch, wcfg)
    obs = pw.run()
    return pw, obs


def run_config(cfg, tier, seed):
    res = Result()

    def run(ch):
        pw, obs = run_one(cfg, ch)
        if pw.overlap:
            res.interesting(obs)
            res.count('executions_with_overlapping_requests')
        seen = set()
        for kind, detail in pw.viol:
            if kind in seen:
                continue
            seen.add(kind)
            res.violation({'kind': kind, 'layer': cfg['layer'], 'pool_size': str(cfg['pool_size']), 'idle_timeout': str(cfg['idle_timeout']),
                           'exception': ','.join(sorted(set(e[0] for e in pw.errors))) or 'none'},
                          '%s; callers=%r; errors=%r; trace=%r' % (detail, obs[0], pw.errors[:2], ch.trace()[-12:]),
                          {'cfg': cfg, 'choices': ch.choices})
        return obs
    st = explore(run, d=cfg['d'], dd=cfg['dd'], merge=True, max_exec=60000)
    res.add_stats(st)
    res.sample({'config': cfg, 'executions': st.executions, 'states': len(st.states)})
    return res.as_dict()


def vacuity(counters, tier):
    if counters.get('executions_with_overlapping_requests', 0) < 200:
        return ['fewer than 200 executions with overlapping requests']


def replay(rep):
    pw, obs = run_one(rep['cfg'], Chooser(rep['choices']))
    if pw.viol:
        return True, '%s: %s' % pw.viol[0]
    return False, 'pool invariants hold: %r' % (obs,)
