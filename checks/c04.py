"""C04 -- a crash at any point never loses an acknowledged message (disk queue).

Operation histories over two messages run on the real DiskStorage over an in-memory file system that
logs every mutating effect (temp-file creation, each chunk write, rename, unlink).  A process kill can
leave the disk in exactly the states "first k effects applied", k = 0..len(log): all of them are
enumerated.  For each crash state a fresh DiskStorage over the snapshot must load() without raising,
list every acknowledged and not-yet-removed message, return it intact, and a fresh Queue started over
it must attempt it.  The in-memory FS is bound to reality by replaying histories on the real file
system with the real pyaio and comparing directory contents and return values.
"""
import itertools
import os
import pickle
import shutil

import gevent

from slimta.envelope import Envelope
from slimta.relay import Relay

from engine.core import Chooser, explore, stable_hash, HarnessError
from engine.result import Result
from engine.vloop import World
from engine import memfs
from worlds.queue_world import UUID_MODULES

PROPERTY = 'C04'
LEVEL = 'fault_enumeration'
EXHAUSTIVE = True
T0, T1 = 1000000.0, 1000005.0
HERE = os.path.dirname(os.path.dirname(os.path.abspath(__file__)))

RULE = ('every well-formed history of length <= H over two messages from {write, increment_attempts, set_timestamp, '
        'set_recipients_delivered, remove} on DiskStorage (chunk size 48 so an envelope takes >= 5 chunk writes) x every crash '
        'point = every prefix of the file-system effect log; thorough adds two operations overlapping (aio completions '
        'interleaved); both tiers add histories produced by a real Queue run (enqueue, transient failure, retry bookkeeping, '
        'partial delivery, remove) where the requirement is what the queue still owes at each effect.  A crash state is non-trivial when it lies strictly inside '
        'an operation (a temp file exists or an operation is half applied).')
ASSUMPTIONS = ['process death, not power loss: the kernel keeps completed writes, so crash states are prefixes of the effect log',
               'rename and unlink are atomic; the in-memory FS is validated against the real FS + real pyaio on the same histories']


def BOUNDS(tier):
    return {'history_length': 4 if tier == 'quick' else 5, 'messages': 2, 'chunk_size': 48,
            'overlap': 'none' if tier == 'quick' else 'pairs of ops on different messages, <=2 schedule deviations'}


def make_env(label):
    e = Envelope('s%s@x' % label, ['r%s%d@y' % (label, j) for j in range(4)])
    e.parse(b'Subject: ' + label.encode() + b'\r\n\r\nbody-' + label.encode() * 30 + b'\r\n\xff\r\n')
    e.client = {'ip': '192.0.2.1', 'name': 'c'}
    e.receiver = 'mx'
    e.timestamp = 5.0
    return e


def histories(H):
    """well-formed op sequences: ('write',L) first for a label; no op after ('rm',L); one dlv (and for A one second round dlv2) per label."""
    def rec(prefix, state):
        yield prefix
        if len(prefix) >= H:
            return
        for l in ('A', 'B'):
            s = state.get(l)
            if s is None:
                if l == 'A' or 'A' in state:
                    yield from rec(prefix + [('write', l)], dict(state, **{l: 'live'}))
            elif s in ('live', 'marked', 'marked2'):
                yield from rec(prefix + [('inc', l)], state)
                yield from rec(prefix + [('ts', l)], state)
                if s == 'live':
                    yield from rec(prefix + [('dlv', l)], dict(state, **{l: 'marked'}))
                elif s == 'marked' and l == 'A' and 'B' not in state:
                    # a second marking round (the queue passes indexes into the already reduced list)
                    yield from rec(prefix + [('dlv2', l)], dict(state, **{l: 'marked2'}))
                yield from rec(prefix + [('rm', l)], dict(state, **{l: 'gone'}))
    for h in rec([], {}):
        if h:
            yield h


def do_op(st, op, ids):
    k, l = op
    if k == 'write':
        ids[l] = st.write(make_env(l), T0)
        return ids[l]
    if k == 'inc':
        return st.increment_attempts(ids[l])
    if k == 'ts':
        return st.set_timestamp(ids[l], T1)
    if k == 'dlv':
        return st.set_recipients_delivered(ids[l], [0, 2])
    if k == 'dlv2':
        return st.set_recipients_delivered(ids[l], [0])
    if k == 'rm':
        return st.remove(ids[l])
    if k == 'load':
        return sorted(i for t, i in st.load())        # the start-up scan of a second consumer of the directory


def run_history(hist, overlap=None, ch=None, short=False):
    """Run on DiskStorage over MemFS.  Returns (fs, ids, marks, returns) where marks[i] = (start, end)
    effect-log indexes of op i (end None if it never returned)."""
    import slimta.diskstorage as ds
    ch = ch or Chooser()
    marks, rets, ids = [], [], {}
    with World(ch, uuid_modules=UUID_MODULES, max_steps=50000) as w:
        complete = None
        if overlap:
            def complete(fn, label):
                w.add_event(label, fn)
        fs = memfs.MemFS(complete=complete)
        memfs.bind(w, fs, chunk_size=48)
        if short:
            fs.short_chooser = ch          # aio requests may complete for fewer bytes than asked
        st = ds.DiskStorage('/q/env', '/q/meta', '/q/tmp')

        def one(i, op):
            marks[i][0] = len(fs.log)
            rets[i] = do_op(st, op, ids)
            marks[i][1] = len(fs.log)

        if not overlap:
            def body():
                for i, op in enumerate(hist):
                    marks.append([None, None])
                    rets.append(None)
                    one(i, op)
            gevent.spawn(body)
            w.run_until_quiescent()
        else:
            pre, pa, pb = overlap
            seq = list(pre)

            def body():
                for i, op in enumerate(seq):
                    marks.append([None, None])
                    rets.append(None)
                    one(i, op)
            w.loop.chooser = None
            gevent.spawn(body)
            w.run_until_quiescent()
            w.loop.chooser = ch
            for op in (pa, pb):
                marks.append([None, None])
                rets.append(None)
            n = len(seq)
            gevent.spawn(one, n, pa)
            gevent.spawn(one, n + 1, pb)
            w.run_until_quiescent()
    return fs, ids, marks, rets


def scan_during(hist, res):
    """A second consumer scans the directory (DiskStorage.load(), as every Queue does at start-up) while the history runs: the
    scan is started right after the k-th file-system effect, for every k.  Whatever it sees half-written, the operations
    must still have their effect: at the end every acknowledged message is found intact by a fresh storage."""
    import slimta.diskstorage as ds
    fs0, ids0, marks0, rets0 = run_history(hist)
    n = len(fs0.log)
    for k in range(1, n + 1):
        marks, rets, ids = [], [], {}
        scans = []
        with World(Chooser(), uuid_modules=UUID_MODULES, max_steps=50000) as w:
            fs = memfs.MemFS()
            memfs.bind(w, fs, chunk_size=48)
            st = ds.DiskStorage('/q/env', '/q/meta', '/q/tmp')
            st2 = ds.DiskStorage('/q/env', '/q/meta', '/q/tmp')

            def scan():
                try:
                    scans.append(sorted(i for t, i in st2.load()))
                except BaseException as e:
                    scans.append(('raised', type(e).__name__))

            def on_effect(j, k=k):
                if j == k:
                    gevent.spawn(scan)
            fs.on_effect = on_effect

            def body():
                for i, op in enumerate(hist):
                    marks.append([len(fs.log), None])
                    rets.append(do_op(st, op, ids))
                    marks[i][1] = len(fs.log)
            gevent.spawn(body)
            w.run_until_quiescent()
        res.evaluations += 1
        res.count('scans_during_operations')
        m = len(fs.log)
        rec = recover(fs.snapshot(m))
        viols, inside = judge_crash(hist, ids, marks, m, rec)
        res.outcome(('scan-during', tuple(hist), k, repr(scans)[:80]))
        res.interesting(('scan-during', tuple(hist), k))
        for sig, msg in viols:
            res.violation(dict(sig, during='scan-overlapping-' + '+'.join(sorted(set(o for o, l in hist)))),
                          'history %r with a directory scan (load()) started after effect %d/%d (%s): at the end %s; the scan saw %r'
                          % (hist, k, n, fs0.log[k - 1][0], msg, scans), {'hist': [list(o) for o in hist], 'overlap': None, 'choices': None, 'k': k, 'scan_during': True})
    res.states += n
    res.transitions += n


def recover(files, short_ch=None):
    """Fresh process over the crash snapshot: load(), get() of everything listed, then a fresh Queue."""
    import slimta.diskstorage as ds
    from slimta.queue import Queue
    out = {'load': None, 'get': {}, 'attempted': [], 'errors': []}
    with World(Chooser(), uuid_modules=UUID_MODULES, max_steps=50000) as w:
        fs = memfs.MemFS(files=files)
        memfs.bind(w, fs, chunk_size=48)
        fs.short_chooser = short_ch        # the restarted process may see short aio completions too
        st = ds.DiskStorage('/q/env', '/q/meta', '/q/tmp')

        def body():
            try:
                out['load'] = sorted((t, i) for t, i in st.load())
            except BaseException as e:
                out['load'] = ('raised', type(e).__name__, str(e)[:100])
                return
            for t, i in out['load']:
                try:
                    env, attempts = st.get(i)
                    out['get'][i] = (env.sender, env.flatten(), tuple(env.recipients), attempts)
                except BaseException as e:
                    out['get'][i] = ('raised', type(e).__name__, str(e)[:100])
        gevent.spawn(body)
        w.run_until_quiescent()
        # resumption: a fresh queue over the same disk state
        attempted = out['attempted']

        class R(Relay):
            def attempt(self, envelope, attempts):
                attempted.append((envelope.sender, tuple(envelope.recipients), attempts))
                return None
        st2 = ds.DiskStorage('/q/env', '/q/meta', '/q/tmp')
        q = Queue(st2, R())
        q.start()
        w.run_until_quiescent()
        out['errors'] = [e for e in w.errors()]
    return out


def reference(hist, marks, k):
    """Reference store of acknowledged operations for crash state k.
    -> {label: dict(required(bool), attempts_ok(set), delivered_done(bool), delivered_maybe(bool))}"""
    ref = {}
    for (op, l), (s, e) in zip(hist, marks):
        done = e is not None and e <= k
        started = s is not None and s < k
        if op == 'write':
            if done:
                ref[l] = {'required': True, 'attempts': {0}, 'dlv': {0}, 'ts': {T0}}
            elif started:
                ref[l] = {'required': False, 'attempts': {0}, 'dlv': {0}, 'ts': {T0}}
            continue
        if l not in ref:
            continue
        r = ref[l]
        if op == 'inc':
            if done:
                r['attempts'] = {a + 1 for a in r['attempts']}
            elif started:
                r['attempts'] = r['attempts'] | {a + 1 for a in r['attempts']}
        elif op == 'ts':
            if done:
                r['ts'] = {T1}
            elif started:
                r['ts'] = r['ts'] | {T1}
        elif op in ('dlv', 'dlv2'):
            # the number of marking rounds that took effect
            if done:
                r['dlv'] = {n + 1 for n in r['dlv']}
            elif started:
                r['dlv'] = r['dlv'] | {n + 1 for n in r['dlv']}
        elif op == 'rm':
            if done or started:
                r['required'] = False
                r['maybe_gone'] = True
    return ref


def judge_crash(hist, ids, marks, k, rec):
    out = []
    ref = reference(hist, marks, k)
    inside = any(s is not None and s < k and (e is None or k < e) for s, e in marks)
    if isinstance(rec['load'], tuple):
        return [({'kind': 'load-raised', 'exception': rec['load'][1]}, 'load() raised %s: %s' % rec['load'][1:])], inside
    listed = dict((i, t) for t, i in rec['load'])
    for l, r in sorted(ref.items()):
        i = ids.get(l)
        env = make_env(l)
        if i not in listed:
            if r['required']:
                out.append(({'kind': 'acknowledged-message-not-loaded'}, 'message %s (%s) acknowledged before the crash is not listed by load(): %r' % (l, i, rec['load'])))
            continue
        if not r['required'] and r.get('maybe_gone'):
            # half-removed: may be listed; get() may fail
            continue
        g = rec['get'].get(i)
        if g is None or (isinstance(g, tuple) and g and g[0] == 'raised'):
            if r['required']:
                out.append(({'kind': 'acknowledged-message-unreadable', 'exception': g[1] if g else 'none'}, 'get(%s) after the crash: %r' % (l, g)))
            continue
        sender, content, rcpts, attempts = g
        okr = set()
        for d in r['dlv']:
            left = list(env.recipients)
            if d >= 1:
                left = [x for j, x in enumerate(left) if j not in (0, 2)]
            if d >= 2:
                left = left[1:]
            okr.add(tuple(left))
        if sender != env.sender or content != env.flatten():
            out.append(({'kind': 'content-damaged'}, 'message %s came back with sender %r / different content' % (l, sender)))
        if rcpts not in okr:
            out.append(({'kind': 'recipients-wrong'}, 'message %s recipients after crash %r, acceptable %r' % (l, rcpts, sorted(okr))))
        if attempts not in r['attempts']:
            out.append(({'kind': 'attempt-count-wrong'}, 'message %s attempts after crash %r, acceptable %r' % (l, attempts, sorted(r['attempts']))))
        if listed[i] not in r['ts']:
            out.append(({'kind': 'timestamp-wrong'}, 'message %s timestamp after crash %r, acceptable %r' % (l, listed[i], sorted(r['ts']))))
        if r['required']:
            tried = [a for a in rec['attempted'] if a[0] == env.sender]
            if not tried:
                out.append(({'kind': 'not-resumed'}, 'a fresh queue over the crash state never attempted message %s (attempts made: %r, errors %r)' % (l, rec['attempted'], rec['errors'][:2])))
    return out, inside


def check_history(hist, res, overlap=None, ch=None, short=False):
    fs, ids, marks, rets = run_history(hist, overlap, ch, short)
    full = list(overlap[0]) + [overlap[1], overlap[2]] if overlap else hist
    n = len(fs.log)
    seen_states = set()
    for k in range(0, n + 1):
        files = fs.snapshot(k)
        key = stable_hash(sorted(files.items()))
        rec = recover(files)
        res.evaluations += 1
        viols, inside = judge_crash(full, ids, marks, k, rec)
        res.outcome((key, repr(rec['load'])[:200]))
        if inside:
            res.interesting((tuple(full), k))
            res.count('crash_states_inside_an_operation')
        if any(p.startswith('/q/tmp/') for p in files):
            res.count('crash_states_with_temp_file')
        for sig, msg in viols:
            op_in_progress = [full[i][0] for i, (s, e) in enumerate(marks) if s is not None and s < k and (e is None or k < e)]
            sig = dict(sig, during=','.join(op_in_progress) or 'between-operations')
            res.violation(sig, 'history %r crash after effect %d/%d (%s): %s' % (full, k, n, fs.log[k - 1][0] if k else 'start', msg),
                          {'hist': [list(o) for o in hist] if hist else None, 'overlap': [[list(o) for o in overlap[0]], list(overlap[1]), list(overlap[2])] if overlap else None,
                           'choices': ch.choices if ch else None, 'k': k, 'short': short})
    res.states += n + 1
    res.transitions += n
    return fs, ids, rets


# ---- conformance with the real file system
def conformance(hist, mem_fs, mem_ids, mem_rets):
    import slimta.diskstorage as ds
    import uuid as _uuid
    base = os.path.join(HERE, 'build', 'c04-%d' % os.getpid())
    shutil.rmtree(base, ignore_errors=True)
    for d in ('env', 'meta', 'tmp'):
        os.makedirs(os.path.join(base, d))
    ctr = itertools.count()
    saved = ds.uuid, ds.AioFile.chunk_size
    import types
    ds.uuid = types.SimpleNamespace(uuid4=lambda: types.SimpleNamespace(hex='%032x' % (next(ctr) + 0xa0)))
    ds.AioFile.chunk_size = 48
    try:
        st = ds.DiskStorage(os.path.join(base, 'env'), os.path.join(base, 'meta'), os.path.join(base, 'tmp'))
        ids, rets = {}, []

        def body():
            for op in hist:
                rets.append(do_op(st, op, ids))
        g = gevent.spawn(body)
        g.join(timeout=20)
        if not g.dead:
            return 'real run did not finish'
        if g.exception is not None:
            return 'real run raised %r' % (g.exception,)
        real = {}
        for d in ('env', 'meta'):
            for fn in os.listdir(os.path.join(base, d)):
                with open(os.path.join(base, d, fn), 'rb') as f:
                    real['/q/%s/%s' % (d, fn)] = f.read()
        mem = {p: v for p, v in mem_fs.files.items() if not p.startswith('/q/tmp/')}
        tmp_left = os.listdir(os.path.join(base, 'tmp'))
        mem_tmp = [p for p in mem_fs.files if p.startswith('/q/tmp/')]
        if sorted(real) != sorted(mem):
            return 'directory listing differs: real %r, in-memory %r' % (sorted(real), sorted(mem))
        for p in real:
            a, b = pickle.loads(real[p]), pickle.loads(mem[p])
            if p.endswith('.meta'):
                if a != b:
                    return '%s differs: real %r, in-memory %r' % (p, a, b)
            elif (a.sender, a.recipients, a.flatten()) != (b.sender, b.recipients, b.flatten()):
                return '%s differs' % p
        if len(tmp_left) != len(mem_tmp):
            return 'temp files left: real %r, in-memory %r' % (tmp_left, mem_tmp)
        if [r for r in rets] != [r for r in mem_rets]:
            return 'return values differ: real %r, in-memory %r' % (rets, mem_rets)
        return None
    finally:
        ds.uuid, ds.AioFile.chunk_size = saved
        shutil.rmtree(base, ignore_errors=True)


# ---- histories produced by a real Queue run on the disk backend
QUEUE_RUNS = [['temp', 'ok'], ['map:ot', 'ok'], ['map:tp', 'temp', 'ok'], ['temp', 'temp', 'temp'], ['perm'], ['map:to', 'map:o'],
              ['boom', 'map:ot', 'perm'], ['ok']]


def check_queue_run(outcomes, res, messages=1):
    """Run the real Queue over DiskStorage on the in-memory FS with the given relay outcomes; after every FS effect
    remember which recipients the queue still owes; then crash at every prefix of the effect log and recover."""
    from worlds.queue_world import QueueWorld, outcome_menu
    from conformance.queue_real import DataChooser
    menu = outcome_menu(2, sequences=False)
    idx = {o: i for i, o in enumerate(menu)}
    menu1 = outcome_menu(1, sequences=False)
    data = []
    n_left = 2
    for o in outcomes:
        m = menu if n_left == 2 else menu1
        data.append(m.index(o) if o in m else 0)
        if o.startswith('map:'):
            n_left = sum(1 for c in o[4:] if c == 't') or n_left
    ch = DataChooser(data)
    cfg = dict(backend='disk', backoff='r0x2', n=2, messages=messages, chunk_size=48, menu=dict(sequences=False))
    qw = QueueWorld(ch, cfg)
    owed = {}

    def snap(k):
        # requirement for the disk state after k effects = what the queue owes right now
        owed[k] = {qid: (led['sender'], list(led['outstanding'])) for qid, led in qw.ledger.items()
                   if led['outstanding'] and not led['removed'] and not led['bounce']}
    orig_build = qw.build_backend

    def build(w):
        st = orig_build(w)
        qw.fs.on_effect = snap
        return st
    qw.build_backend = build
    qw.run()
    fs = qw.fs
    n = len(fs.log)
    snap(n)
    for k in range(0, n + 1):
        # the latest requirement known while the disk was in state k is the one recorded at effect k
        req = owed.get(k, {})
        rec = recover(fs.snapshot(k))
        res.evaluations += 1
        res.count('queue_run_crash_states')
        res.interesting(('queue-run', tuple(outcomes), k))
        res.outcome((tuple(outcomes), k, repr(rec['load'])[:120]))
        rep = {'hist': None, 'overlap': None, 'choices': None, 'k': k, 'queue_run': list(outcomes)}
        if isinstance(rec['load'], tuple):
            res.violation({'kind': 'load-raised', 'exception': rec['load'][1], 'during': 'queue-run'},
                          'queue run %r crash after effect %d/%d: load() raised %s' % (outcomes, k, n, rec['load'][1:]), rep)
            continue
        listed = dict((i, t) for t, i in rec['load'])
        for qid, (sender, outstanding) in sorted(req.items()):
            g = rec['get'].get(qid)
            if qid not in listed or g is None or (isinstance(g, tuple) and g and g[0] == 'raised'):
                res.violation({'kind': 'owed-message-not-recovered', 'during': 'queue-run'},
                              'queue run %r crash after effect %d/%d (%s): message %s with outstanding %r is not recovered (load %r, get %r)'
                              % (outcomes, k, n, fs.log[k - 1][0] if k else 'start', qid, outstanding, rec['load'], g), rep)
                continue
            missing = [r for r in outstanding if r not in g[2]]
            if missing:
                res.violation({'kind': 'outstanding-recipient-lost-by-crash', 'during': 'queue-run'},
                              'queue run %r crash after effect %d/%d: message %s recovered with recipients %r, outstanding were %r'
                              % (outcomes, k, n, qid, g[2], outstanding), rep)
            if not any(a[0] == sender for a in rec['attempted']):
                res.violation({'kind': 'not-resumed', 'during': 'queue-run'},
                              'queue run %r crash after effect %d/%d: a fresh queue never attempted %s' % (outcomes, k, n, qid), rep)
    res.states += n + 1
    res.transitions += n
    return n


RESTART_KINDS = ('recipient-stranded', 'known-message-neither-scheduled-nor-in-flight', 'removed-with-outstanding-recipients',
                 'due-but-not-dispatched', 'no-wakeup-before-due')


def restart_cfg(cfg):
    return dict(backend='disk', backoff='r0x2', n=1, messages=cfg.get('messages', 0), prestored=4, prestored_due=0.0, store_pool=cfg['store_pool'], relay_pool=cfg.get('relay_pool'), chunk_size=48,
                slow_ops=cfg['slow'], menu=dict(per_recipient=False, boom=False, reply_ok=False), max_steps=2000)


def check_restart(cfg, ch, res):
    """a real Queue started over a disk directory holding 4 due messages must attempt every one of them (and keep
    retrying the ones that fail transiently) whatever the pool bound and the order of storage completions"""
    from worlds.queue_world import QueueWorld
    wcfg = restart_cfg(cfg)
    qw = QueueWorld(ch, wcfg)
    try:
        obs = qw.run()
    except HarnessError as e:
        if 'prestore failed' not in str(e):
            raise
        # DiskStorage.write() itself raised while the directory was being filled (over the in-memory FS)
        res.evaluations += 1
        res.violation({'kind': 'write-raised', 'during': 'restart'}, 'DiskStorage.write() raised while filling the queue directory: %s' % e,
                      {'restart': {'store_pool': cfg['store_pool'], 'relay_pool': cfg.get('relay_pool'), 'slow': cfg['slow'], 'messages': cfg.get('messages', 0)}, 'choices': ch.choices, 'hist': None, 'overlap': None, 'k': 0})
        return ('write-raised',)
    res.evaluations += 1
    res.outcome(obs)
    if any(a['attempts'] > 0 for a in qw.attempts):
        res.interesting(('restart', obs))
    never = [qid for qid, led in sorted(qw.ledger.items()) if not led['bounce'] and not any(a['qid'] == qid for a in qw.attempts)]
    viols = [(k, d_) for k, d_ in qw.violations if k in RESTART_KINDS]
    if never:
        viols.insert(0, ('never-attempted', 'stored message(s) %r were never attempted by the restarted queue' % (never,)))
    seen = set()
    for kind, detail in viols:
        if kind in seen:
            continue
        seen.add(kind)
        res.violation({'kind': 'not-resumed', 'during': 'restart', 'how': kind, 'store_pool': str(cfg['store_pool']),
                       'blocked_at': getattr(qw, 'pool_blocked_at', '')},
                      'restart with store_pool=%r relay_pool=%r slow=%r: %s; attempts=%r' % (cfg['store_pool'], cfg.get('relay_pool'), cfg['slow'], detail,
                                                                              [(a['qid'][-2:], a['outcome']) for a in qw.attempts]),
                      {'restart': {'store_pool': cfg['store_pool'], 'relay_pool': cfg.get('relay_pool'), 'slow': cfg['slow'], 'messages': cfg.get('messages', 0)}, 'choices': ch.choices, 'hist': None, 'overlap': None, 'k': 0})
    return obs


def configs(tier, seed):
    H = 4 if tier == 'quick' else 5
    hs = list(histories(H))
    k = 32 if tier == 'quick' else 96
    cfgs = [{'mode': 'seq', 'H': H, 'k': i, 'of': k} for i in range(k)]
    cfgs += [{'mode': 'queue', 'run': r, 'messages': 1} for r in QUEUE_RUNS]
    if tier == 'thorough':
        cfgs += [{'mode': 'queue', 'run': r, 'messages': 2} for r in QUEUE_RUNS[:4]]
    if tier == 'thorough':
        opsA = [('inc', 'A'), ('ts', 'A'), ('dlv', 'A'), ('rm', 'A')]
        opsB = [('write', 'B'), ('inc', 'B'), ('dlv', 'B'), ('rm', 'B')]
        for a in opsA:
            for b in opsB:
                cfgs.append({'mode': 'overlap', 'a': list(a), 'b': list(b), 'd': 2})
        cfgs.append({'mode': 'overlap', 'a': ['write', 'A'], 'b': ['write', 'B'], 'd': 2})
        for b in (['write', 'B'], ['inc', 'B'], ['dlv', 'B'], ['rm', 'B']):
            cfgs.append({'mode': 'overlap', 'a': ['load', 'A'], 'b': b, 'd': 2})
    else:
        # two operations on different messages overlapping in time (aio completions interleaved), one deviation
        for a, b in ((('write', 'A'), ('write', 'B')), (('inc', 'A'), ('inc', 'B')), (('ts', 'A'), ('write', 'B')), (('dlv', 'A'), ('rm', 'B')),
                     (('load', 'A'), ('write', 'B')), (('load', 'A'), ('inc', 'B'))):
            cfgs.append({'mode': 'overlap', 'a': list(a), 'b': list(b), 'd': 1})
    # aio requests completing for fewer bytes than asked (legal): every placement of one (thorough: two) short completions
    for h in ([['write', 'A']], [['write', 'A'], ['inc', 'A']], [['write', 'A'], ['dlv', 'A'], ['ts', 'A']], [['write', 'A'], ['write', 'B'], ['rm', 'A']]):
        cfgs.append({'mode': 'short', 'hist': h, 'd': 1 if tier == 'quick' else 2})
    for h in ([['write', 'A'], ['write', 'B']], [['write', 'A'], ['inc', 'A'], ['write', 'B'], ['dlv', 'B']], [['write', 'A'], ['ts', 'A'], ['rm', 'A'], ['write', 'B']]):
        cfgs.append({'mode': 'scan-during', 'hist': h})
    # resumption by a real Queue restarted over 4 due messages: bounded/unbounded store pool, lazy listing, slow reads
    for sp in (None, 1, 2):
        for slow in (['load-step'], ['load-step', 'get'], ['load-step', 'set_timestamp']):
            cfgs.append({'mode': 'restart', 'store_pool': sp, 'slow': slow, 'd': 1 if tier == 'quick' else 3})
    # the restarted process accepts a new message while its start-up scan is still going on
    for sp in (None, 2):
        cfgs.append({'mode': 'restart', 'store_pool': sp, 'messages': 1, 'slow': ['load-step', 'write'], 'd': 2 if tier == 'quick' else 3})
    # both pools bounded: a read holding a storage slot waits for a relay slot while a finishing attempt needs a storage slot
    for sp, rp in ((1, 1), (2, 1), (1, 2)):
        cfgs.append({'mode': 'restart', 'store_pool': sp, 'relay_pool': rp, 'slow': ['load-step', 'get'], 'd': 1 if tier == 'quick' else 2})
    return cfgs


def run_config(cfg, tier, seed):
    res = Result()
    if cfg['mode'] == 'queue':
        n = check_queue_run(cfg['run'], res, cfg.get('messages', 1))
        res.sample({'queue_run_outcomes': cfg['run'], 'fs_effects': n})
        return res.as_dict()
    if cfg['mode'] == 'seq':
        for i, h in enumerate(histories(cfg['H'])):
            if i % cfg['of'] != cfg['k']:
                continue
            fs, ids, rets = check_history(h, res)
            res.count('histories')
            if len(h) == cfg['H'] or i % 7 == 0:
                err = conformance(h, fs, ids, rets)
                res.traces_validated += 1
                res.count('conformance_replays_on_real_fs')
                if err:
                    res.violation({'kind': 'memfs-conformance'}, 'history %r: %s' % (h, err), {'hist': [list(o) for o in h], 'overlap': None, 'choices': None, 'k': -1})
            if i % 97 == cfg['k']:
                res.sample({'history': h, 'effect_log': [e for e, _ in fs.log]})
    elif cfg['mode'] == 'scan-during':
        hist = [tuple(o) for o in cfg['hist']]
        scan_during(hist, res)
        res.sample({'history': hist, 'scan_started_after_every_effect': True})
    elif cfg['mode'] == 'short':
        hist = [tuple(o) for o in cfg['hist']]

        def run(ch):
            check_history(hist, res, ch=ch, short=True)
            return tuple(ch.choices)
        st = explore(run, d=cfg['d'], dd=None, merge=False, max_exec=3000)
        res.count('short_completion_schedules', st.executions)
        # ... and short completions while the restarted process reads the directory the finished history left behind
        fs0, ids0, marks0, rets0 = run_history(hist)
        n0 = len(fs0.log)

        def run2(ch):
            rec = recover(fs0.snapshot(n0), short_ch=ch)
            res.evaluations += 1
            viols, inside = judge_crash(hist, ids0, marks0, n0, rec)
            for sig, msg in viols:
                res.violation(dict(sig, during='recovery-with-short-reads'), 'history %r, all operations finished, restart with short aio reads (choices %r): %s'
                              % (hist, list(ch.choices), msg), {'hist': [list(o) for o in hist], 'overlap': None, 'choices': list(ch.choices), 'k': n0, 'recover_short': True})
            return repr(rec['load'])[:100]
        st2 = explore(run2, d=cfg['d'], dd=None, merge=False, max_exec=3000)
        res.count('short_recovery_schedules', st2.executions)
        if st.cap_hit:
            res.caps.append(st.cap_hit)
        res.sample({'history': hist, 'short_aio_completions': st.executions})
    elif cfg['mode'] == 'restart':
        st = explore(lambda ch: check_restart(cfg, ch, res), d=cfg['d'], dd=1, merge=True, max_exec=20000)
        res.count('restart_schedules', st.executions)
        res.states += len(st.states)
        if st.cap_hit:
            res.caps.append(st.cap_hit)
        res.sample({'restart': {'store_pool': cfg['store_pool'], 'slow': cfg['slow']}, 'schedules': st.executions})
    else:
        a, b = tuple(cfg['a']), tuple(cfg['b'])
        pre = ([('write', 'A')] if a[0] != 'write' else []) + ([('write', 'B')] if b[0] != 'write' else [])

        def run(ch):
            check_history(None, res, overlap=(pre, a, b), ch=ch)
            return tuple(ch.choices)
        st = explore(run, d=cfg.get('d', 2), dd=None, merge=False, max_exec=400)
        res.count('overlap_schedules', st.executions)
        if st.cap_hit:
            res.caps.append(st.cap_hit)
        res.sample({'prefix': pre, 'overlapping': [a, b], 'schedules': st.executions})
    return res.as_dict()


def vacuity(counters, tier):
    p = []
    if counters.get('crash_states_inside_an_operation', 0) < 200:
        p.append('fewer than 200 crash states inside an operation')
    if counters.get('crash_states_with_temp_file', 0) < 100:
        p.append('fewer than 100 crash states with a temp file')
    if counters.get('conformance_replays_on_real_fs', 0) < 10:
        p.append('fewer than 10 conformance replays')
    return p


def replay(rep):
    res = Result()
    if rep.get('restart'):
        check_restart(rep['restart'], Chooser(rep['choices']), res)
        if res.violations:
            return True, res.violations[0]['message']
        return False, 'the restarted queue attempted every stored message'
    if rep.get('queue_run'):
        check_queue_run(rep['queue_run'], res)
        if res.violations:
            return True, res.violations[0]['message']
        return False, 'every crash state of the queue run recovers what the queue owes'
    hist = [tuple(o) for o in rep['hist']] if rep.get('hist') else None
    if rep.get('scan_during'):
        scan_during(hist, res)
        if res.violations:
            return True, res.violations[0]['message']
        return False, 'a directory scan overlapping the operations does not disturb them'
    if rep.get('recover_short'):
        fs0, ids0, marks0, rets0 = run_history(hist)
        rec = recover(fs0.snapshot(rep['k']), short_ch=Chooser(rep['choices']))
        viols, inside = judge_crash(hist, ids0, marks0, rep['k'], rec)
        if viols:
            return True, viols[0][1]
        return False, 'the restarted process finds every message although some aio reads completed short'
    if rep.get('k', 0) == -1:
        fs, ids, marks, rets = run_history(hist)
        err = conformance(hist, fs, ids, rets)
        return (True, err) if err else (False, 'in-memory FS agrees with the real FS')
    ov = rep.get('overlap')
    if ov:
        ov = ([tuple(o) for o in ov[0]], tuple(ov[1]), tuple(ov[2]))
    check_history(hist, res, overlap=ov, ch=Chooser(rep['choices']) if rep.get('choices') else None, short=bool(rep.get('short')))
    if res.violations:
        return True, res.violations[0]['message']
    return False, 'every crash state recovers every acknowledged message'
