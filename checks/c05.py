"""C05 -- message content crosses DATA framing unchanged under any segmentation.

Exhaustive: every message over {'.', CR, LF, 'a'} of length <= L, every split of the message
into DataSender parts at line boundaries, every pipelined suffix from a fixed menu, every
division of the wire stream between IO.recv_buffer and the socket, and ALL segmentations of
the socket part -- the latter through the explicit state graph of the real DataReader: a
state is (bytes consumed, EOD, lines, i); a transition feeds one more recv() result of any
possible length to the real ``DataReader.recv_piece`` over the real ``IO.raw_recv``.
"""
import itertools
import re

from slimta.smtp.datareader import DataReader
from slimta.smtp.datasender import DataSender
from slimta.smtp.io import IO
from slimta.smtp import ConnectionLost

from engine.result import Result, b2s, s2b

PROPERTY = 'C05'
LEVEL = 'exploration'
EXHAUSTIVE = True
ALPHABET = [b'.', b'\r', b'\n', b'a']
SUFFIXES = [b'', b'QUIT\r\n', b'.\r\n', b'a', b'\r\n.\r\n']
NPARTS = 64


def BOUNDS(tier):
    return {'alphabet': ['.', 'CR', 'LF', 'a'] + (['0xE9 variant'] if tier == 'thorough' else []),
            'max_len': 6 if tier == 'quick' else 8,
            'max_sender_parts': 3 if tier == 'quick' else 'all',
            'suffixes': [b2s(s) for s in SUFFIXES], 'segmentations': 'all (explicit state graph)'}


RULE = ('every byte string over the alphabet up to max_len x every split into sender parts at LF '
        'boundaries x every suffix x every recv_buffer/socket division x all segmentations (state '
        'graph of the real DataReader); a case (message, suffix) is non-trivial when the message has a '
        'line-leading dot, a bare CR or LF, no final CRLF, or is empty')
ASSUMPTIONS = ['max_size=None here (the size limit path is C09)',
               'bytes outside the alphabet behave like "a" (thorough adds one 8-bit symbol)']


def ref_stuff(msg):
    """Reference dot-stuffer + end marker (RFC 5321 4.5.2)."""
    out = re.sub(br'(^|\n)\.', br'\1..', msg)
    if msg == b'' or msg.endswith(b'\r\n'):
        return out + b'.\r\n'
    return out + b'\r\n.\r\n'


def expected_data(msg):
    if msg == b'':
        return (b'', b'\r\n')         # property: either reading is acceptable for the empty message
    if msg.endswith(b'\r\n'):
        return (msg,)
    return (msg + b'\r\n',)


class _Sock(object):
    def __init__(self):
        self.piece = b''

    def recv(self, n):
        p, self.piece = self.piece, b''
        return p

    def fileno(self):
        return -1

    def getpeername(self):
        return ('peer', 0)


def reader_outcomes(stream):
    """All terminal observations of DataReader.recv() over every buffer division and every
    segmentation of ``stream``.  Returns (set of observations, n_states, n_transitions)."""
    sock = _Sock()
    io = IO(sock, ('peer', 0))
    n = len(stream)
    outcomes = set()
    seen = set()
    frontier = []
    transitions = 0

    def snapshot(r, pos):
        return (pos, r.EOD, tuple(r.lines), r.i, r.size)

    def finish(r, pos):
        io.recv_buffer = b''
        data = r.return_all()
        return ('ok', data, io.recv_buffer + stream[pos:])

    for b in range(0, n + 1):
        io.recv_buffer = stream[:b]
        r = DataReader(io)
        r.from_recv_buffer()
        transitions += 1
        s = snapshot(r, b)
        if s not in seen:
            seen.add(s)
            frontier.append(s)
    while frontier:
        pos, eod, lines, i, size = frontier.pop()
        if eod is not None:
            r = DataReader(io)
            r.EOD, r.lines, r.i, r.size = eod, list(lines), i, size
            # recv(): ``while self.recv_piece(): pass`` -- recv_piece returns False once EOD is set
            sock.piece = b'\xffSHOULD-NOT-BE-READ'
            if r.recv_piece():
                outcomes.add(('read-after-eod',))
            else:
                outcomes.add(finish(r, pos))
            continue
        if pos >= n:
            outcomes.add(('connection-lost', pos))
            continue
        for take in range(1, n - pos + 1):
            r = DataReader(io)
            r.EOD, r.lines, r.i, r.size = eod, list(lines), i, size
            sock.piece = stream[pos:pos + take]
            transitions += 1
            try:
                r.recv_piece()
            except ConnectionLost:
                outcomes.add(('connection-lost', pos))
                continue
            s = snapshot(r, pos + take)
            if s not in seen:
                seen.add(s)
                frontier.append(s)
    return outcomes, len(seen), transitions


def splits(msg, max_parts):
    """All ways to cut msg into parts after LF bytes."""
    cuts = [i + 1 for i, c in enumerate(msg) if c == 10 and i + 1 < len(msg)]
    for k in range(0, len(cuts) + 1):
        if max_parts is not None and k + 1 > max_parts:
            break
        for comb in itertools.combinations(cuts, k):
            parts, last = [], 0
            for c in comb:
                parts.append(msg[last:c])
                last = c
            parts.append(msg[last:])
            yield parts
    if msg == b'':
        yield []
        yield [b'', b'']


def nontrivial(msg):
    return (msg == b'' or not msg.endswith(b'\r\n') or re.search(br'(^|\n)\.', msg) is not None
            or re.search(br'\r(?!\n)', msg) is not None or re.search(br'(?<!\r)\n', msg) is not None)


def classify(msg):
    if msg == b'':
        return 'empty'
    if re.search(br'(^|\n)\.', msg):
        return 'leading-dot'
    if not msg.endswith(b'\r\n'):
        return 'no-final-crlf'
    return 'plain'


def check_case(msg, suffix, res, max_parts):
    """Returns list of (signature, message, replay)."""
    out = []
    wire_ref = ref_stuff(msg)
    # sender side
    for parts in splits(msg, max_parts):
        res.evaluations += 1
        try:
            wire = b''.join(DataSender(*parts))
        except Exception as e:
            out.append(({'side': 'sender', 'kind': 'exception:' + type(e).__name__, 'msg_class': classify(msg)},
                        'DataSender%r raised %r' % (parts, e), {'msg': b2s(msg), 'suffix': b2s(suffix)}))
            continue
        if wire != wire_ref:
            out.append(({'side': 'sender', 'kind': 'wire-mismatch', 'msg_class': classify(msg)},
                        'DataSender parts=%r emitted %r, reference dot-stuffer gives %r' % (parts, wire, wire_ref),
                        {'msg': b2s(msg), 'suffix': b2s(suffix)}))
    # reader side: all divisions and segmentations
    stream = wire_ref + suffix
    outcomes, nst, ntr = reader_outcomes(stream)
    res.states += nst
    res.transitions += ntr
    res.evaluations += 1
    exp = expected_data(msg)
    good = set(('ok', d, suffix) for d in exp)
    for o in outcomes:
        res.outcome(o[:2] if o[0] == 'ok' else o)
    bad = [o for o in outcomes if o not in good]
    if bad or len(outcomes) != 1:
        o = bad[0] if bad else sorted(outcomes)[0]
        if not bad:
            kind = 'segmentation-dependent'
        elif o[0] != 'ok':
            kind = o[0]
        elif o[1] not in exp:
            kind = 'data-mismatch'
        else:
            kind = 'leftover-mismatch'
        out.append(({'side': 'reader', 'kind': kind, 'msg_class': classify(msg),
                     'suffix_has_dot_line': bool(re.search(br'(^|\n)\.', suffix))},
                    'message %r suffix %r wire %r: reader outcomes %r, expected data in %r and leftover %r'
                    % (msg, suffix, stream, sorted(outcomes)[:4], exp, suffix),
                    {'msg': b2s(msg), 'suffix': b2s(suffix)}))
    return out


def messages(L, alphabet):
    for n in range(0, L + 1):
        for tup in itertools.product(alphabet, repeat=n):
            yield b''.join(tup)


def configs(tier, seed):
    L = 6 if tier == 'quick' else 8
    cfgs = [{'L': L, 'part': k, 'of': NPARTS, 'eight': False} for k in range(NPARTS)]
    if tier == 'thorough':
        cfgs += [{'L': 6, 'part': k, 'of': 16, 'eight': True} for k in range(16)]
    return cfgs


def run_config(cfg, tier, seed):
    res = Result()
    alphabet = list(ALPHABET)
    if cfg['eight']:
        alphabet[3] = b'\xe9'
    max_parts = 3 if tier == 'quick' else None
    for idx, msg in enumerate(messages(cfg['L'], alphabet)):
        if idx % cfg['of'] != cfg['part']:
            continue
        for suffix in SUFFIXES:
            if nontrivial(msg):
                res.interesting((msg, suffix))
            for sig, text, rep in check_case(msg, suffix, res, max_parts):
                res.violation(sig, text, rep)
            res.count('cases')
        if idx % 997 == cfg['part']:
            res.sample({'message': b2s(msg), 'wire': b2s(ref_stuff(msg)), 'suffixes': [b2s(s) for s in SUFFIXES]})
    return res.as_dict()


def replay(rep):
    res = Result()
    vs = check_case(s2b(rep['msg']), s2b(rep['suffix']), res, None)
    if vs:
        return True, vs[0][1]
    return False, 'reader returned the original bytes and left the suffix untouched under every segmentation'
