"""C05 -- message content crosses DATA framing unchanged under any segmentation.

Exhaustive: every message over {'.', CR, LF, 'a'} of length <= L, every split of the message
into DataSender parts at line boundaries, every pipelined suffix from a fixed menu, every
division of the wire stream between IO.recv_buffer and the socket, and ALL segmentations of
the socket part -- the latter through the explicit state graph of the real DataReader: a
state is (bytes consumed, EOD, lines, i); a transition feeds one more recv() result of any
possible length to the real ``DataReader.recv_piece`` over the real ``IO.raw_recv``.
"""
import itertools
import re

from slimta.smtp.datareader import DataReader
from slimta.smtp.datasender import DataSender
from slimta.smtp.io import IO
from slimta.smtp import ConnectionLost

from engine.result import Result, b2s, s2b
from engine.seq import ScriptSocket, AllSegmentations
from slimta.smtp import MessageTooBig

PROPERTY = 'C05'
LEVEL = 'exploration'
EXHAUSTIVE = True
ALPHABET = [b'.', b'\r', b'\n', b'a']
SUFFIXES = [b'', b'QUIT\r\n', b'.\r\n', b'a', b'\r\n.\r\n']
NPARTS = 64


def BOUNDS(tier):
    return {'alphabet': ['.', 'CR', 'LF', 'a'] + (['0xE9 variant'] if tier == 'thorough' else []),
            'max_len': 6 if tier == 'quick' else 8,
            'max_sender_parts': 3 if tier == 'quick' else 'all',
            'suffixes': [b2s(s) for s in SUFFIXES], 'segmentations': 'all (explicit state graph)'}


RULE = ('every byte string over the alphabet up to max_len x every split into sender parts at LF '
        'boundaries (plus one empty part at every position) x every suffix x every recv_buffer/socket division x all segmentations (state '
        'graph of the real DataReader); a case (message, suffix) is non-trivial when the message has a '
        'line-leading dot, a bare CR or LF, no final CRLF, or is empty')
ASSUMPTIONS = ['the state-graph part runs with max_size=None; the reader with a size limit is explored by all segmentations of the real recv() for messages up to length 4 (server-level behaviour with a limit is C09)',
               'bytes outside the alphabet behave like "a" (thorough adds one 8-bit symbol)']


def ref_stuff(msg):
    """Reference dot-stuffer + end marker (RFC 5321 4.5.2)."""
    out = re.sub(br'(^|\n)\.', br'\1..', msg)
    if msg == b'' or msg.endswith(b'\r\n'):
        return out + b'.\r\n'
    return out + b'\r\n.\r\n'


def expected_data(msg):
    if msg == b'':
        return (b'', b'\r\n')         # property: either reading is acceptable for the empty message
    if msg.endswith(b'\r\n'):
        return (msg,)
    return (msg + b'\r\n',)


class _Sock(object):
    def __init__(self):
        self.piece = b''

    def recv(self, n):
        p, self.piece = self.piece, b''
        return p

    def fileno(self):
        return -1

    def getpeername(self):
        return ('peer', 0)


def reader_outcomes(stream):
    """All terminal observations of DataReader.recv() over every buffer division and every
    segmentation of ``stream``.  Returns (set of observations, n_states, n_transitions)."""
    sock = _Sock()
    io = IO(sock, ('peer', 0))
    n = len(stream)
    outcomes = set()
    seen = set()
    frontier = []
    transitions = 0

    def snapshot(r, pos):
        return (pos, r.EOD, tuple(r.lines), r.i, r.size)

    def finish(r, pos):
        io.recv_buffer = b''
        data = r.return_all()
        return ('ok', data, io.recv_buffer + stream[pos:])

    for b in range(0, n + 1):
        io.recv_buffer = stream[:b]
        r = DataReader(io)
        r.from_recv_buffer()
        transitions += 1
        s = snapshot(r, b)
        if s not in seen:
            seen.add(s)
            frontier.append(s)
    while frontier:
        pos, eod, lines, i, size = frontier.pop()
        if eod is not None:
            r = DataReader(io)
            r.EOD, r.lines, r.i, r.size = eod, list(lines), i, size
            # recv(): ``while self.recv_piece(): pass`` -- recv_piece returns False once EOD is set
            sock.piece = b'\xffSHOULD-NOT-BE-READ'
            if r.recv_piece():
                outcomes.add(('read-after-eod',))
            else:
                outcomes.add(finish(r, pos))
            continue
        if pos >= n:
            outcomes.add(('connection-lost', pos))
            continue
        for take in range(1, n - pos + 1):
            r = DataReader(io)
            r.EOD, r.lines, r.i, r.size = eod, list(lines), i, size
            sock.piece = stream[pos:pos + take]
            transitions += 1
            try:
                r.recv_piece()
            except ConnectionLost:
                outcomes.add(('connection-lost', pos))
                continue
            s = snapshot(r, pos + take)
            if s not in seen:
                seen.add(s)
                frontier.append(s)
    return outcomes, len(seen), transitions


def splits(msg, max_parts):
    """All ways to cut msg into parts after LF bytes."""
    cuts = [i + 1 for i, c in enumerate(msg) if c == 10 and i + 1 < len(msg)]
    for k in range(0, len(cuts) + 1):
        if max_parts is not None and k + 1 > max_parts:
            break
        for comb in itertools.combinations(cuts, k):
            parts, last = [], 0
            for c in comb:
                parts.append(msg[last:c])
                last = c
            parts.append(msg[last:])
            yield parts
            # an empty part is legal anywhere (send_data(header_block, b'', body)): one empty part at every position
            if len(parts) <= 3:
                for pos in range(len(parts) + 1):
                    yield parts[:pos] + [b''] + parts[pos:]
    if msg == b'':
        yield []
        yield [b'', b'']


def nontrivial(msg):
    return (msg == b'' or not msg.endswith(b'\r\n') or re.search(br'(^|\n)\.', msg) is not None
            or re.search(br'\r(?!\n)', msg) is not None or re.search(br'(?<!\r)\n', msg) is not None)


def classify(msg):
    if msg == b'':
        return 'empty'
    if re.search(br'(^|\n)\.', msg):
        return 'leading-dot'
    if not msg.endswith(b'\r\n'):
        return 'no-final-crlf'
    return 'plain'


def check_case(msg, suffix, res, max_parts):
    """Returns list of (signature, message, replay)."""
    out = []
    wire_ref = ref_stuff(msg)
    # sender side
    for parts in splits(msg, max_parts):
        res.evaluations += 1
        try:
            sender = DataSender(*parts)
            wire = b''.join(sender)
            again = b''.join(sender)           # the same object emitted a second time (a re-send on another connection)
            if again != wire:
                out.append(({'side': 'sender', 'kind': 'second-emission-differs', 'msg_class': classify(msg)},
                            'DataSender%r emitted %r the first time and %r the second time' % (parts, wire, again),
                            {'msg': b2s(msg), 'suffix': b2s(suffix)}))
        except Exception as e:
            out.append(({'side': 'sender', 'kind': 'exception:' + type(e).__name__, 'msg_class': classify(msg)},
                        'DataSender%r raised %r' % (parts, e), {'msg': b2s(msg), 'suffix': b2s(suffix)}))
            continue
        if wire != wire_ref:
            out.append(({'side': 'sender', 'kind': 'wire-mismatch', 'msg_class': classify(msg)},
                        'DataSender parts=%r emitted %r, reference dot-stuffer gives %r' % (parts, wire, wire_ref),
                        {'msg': b2s(msg), 'suffix': b2s(suffix)}))
    # reader side: all divisions and segmentations
    stream = wire_ref + suffix
    outcomes, nst, ntr = reader_outcomes(stream)
    res.states += nst
    res.transitions += ntr
    res.evaluations += 1
    exp = expected_data(msg)
    good = set(('ok', d, suffix) for d in exp)
    for o in outcomes:
        res.outcome(o[:2] if o[0] == 'ok' else o)
    bad = [o for o in outcomes if o not in good]
    if bad or len(outcomes) != 1:
        o = bad[0] if bad else sorted(outcomes)[0]
        if not bad:
            kind = 'segmentation-dependent'
        elif o[0] != 'ok':
            kind = o[0]
        elif o[1] not in exp:
            kind = 'data-mismatch'
        else:
            kind = 'leftover-mismatch'
        out.append(({'side': 'reader', 'kind': kind, 'msg_class': classify(msg),
                     'suffix_has_dot_line': bool(re.search(br'(^|\n)\.', suffix))},
                    'message %r suffix %r wire %r: reader outcomes %r, expected data in %r and leftover %r'
                    % (msg, suffix, stream, sorted(outcomes)[:4], exp, suffix),
                    {'msg': b2s(msg), 'suffix': b2s(suffix)}))
    return out


# ---- the reader with a size limit: the framing obligations are the same (consume exactly up to the end-of-data line,
# leave the rest, independent of segmentation); too big or not is decided by the data bytes on the wire
def sized_body(max_size, prefix):
    def body(sock):
        io = IO(sock, ('peer', 0))
        io.recv_buffer = prefix
        r = DataReader(io, max_size)
        try:
            data = r.recv()
            verdict = ('ok', data)
        except MessageTooBig:
            verdict = ('too-big',)
        except ConnectionLost:
            verdict = ('connection-lost',)
        return (verdict, io.recv_buffer + sock.unread())
    return body


def check_sized(msg, suffix, max_size, res):
    out = []
    wire = ref_stuff(msg)
    data_wire = wire[:-3]                      # what precedes the end-of-data line
    stream = wire + suffix
    exp = expected_data(msg)
    want = set()
    if len(data_wire) > max_size:
        want.add((('too-big',), suffix))
    else:
        for d in exp:
            want.add((('ok', d), suffix))
    outcomes = set()
    for b in range(0, len(stream) + 1):
        # the first b bytes are already in the IO object's buffer when the reader starts, the rest arrives in any segmentation
        rest = stream[b:]
        ex = AllSegmentations(sized_body(max_size, stream[:b]), rest, make_sock=lambda ctl, rest=rest: ScriptSocket(rest, ctl, eof=True))
        outs = ex.explore()
        outcomes |= outs
        res.evaluations += ex.execs
        res.states += len(ex.memo)
        res.transitions += ex.transitions
        res.traces_validated += ex.validated
    for o in outcomes:
        res.outcome(('sized', o[0][0], o[1] == suffix))
    bad = [o for o in outcomes if o not in want]
    if bad or len(outcomes) != 1:
        o = sorted(bad or outcomes, key=repr)[0]
        kind = 'segmentation-dependent' if not bad else ('leftover-mismatch' if o[1] != suffix else
                                                        ('size-verdict' if (o[0][0] == 'too-big') != (len(data_wire) > max_size) else 'data-mismatch'))
        out.append(({'side': 'reader-with-size-limit', 'kind': kind, 'msg_class': classify(msg), 'over_limit': len(data_wire) > max_size},
                    'message %r suffix %r max_size %d wire %r: outcomes %r, expected %r' % (msg, suffix, max_size, stream, sorted(outcomes, key=repr)[:4], sorted(want, key=repr)),
                    {'msg': b2s(msg), 'suffix': b2s(suffix), 'max_size': max_size}))
    return out


def messages(L, alphabet):
    for n in range(0, L + 1):
        for tup in itertools.product(alphabet, repeat=n):
            yield b''.join(tup)


def configs(tier, seed):
    L = 6 if tier == 'quick' else 8
    cfgs = [{'L': L, 'part': k, 'of': NPARTS, 'eight': False} for k in range(NPARTS)]
    if tier == 'thorough':
        cfgs += [{'L': 6, 'part': k, 'of': 16, 'eight': True} for k in range(16)]
    cfgs += [{'sized': True, 'L': 3 if tier == 'quick' else 4, 'part': k, 'of': 16} for k in range(16)]
    return cfgs


def run_config(cfg, tier, seed):
    res = Result()
    if cfg.get('sized'):
        for idx, msg in enumerate(messages(cfg['L'], ALPHABET)):
            if idx % cfg['of'] != cfg['part']:
                continue
            for suffix in (b'', b'NOOP\r\n', b'.\r\n'):
                for max_size in (2, 4):
                    res.interesting(('sized', msg, suffix, max_size))
                    res.count('sized_cases')
                    for sig, text, rep in check_sized(msg, suffix, max_size, res):
                        res.violation(sig, text, rep)
        res.sample({'reader_with_size_limit': True, 'message_length': cfg['L'], 'max_size': [2, 4]})
        return res.as_dict()
    alphabet = list(ALPHABET)
    if cfg['eight']:
        alphabet[3] = b'\xe9'
    max_parts = 3 if tier == 'quick' else None
    for idx, msg in enumerate(messages(cfg['L'], alphabet)):
        if idx % cfg['of'] != cfg['part']:
            continue
        for suffix in SUFFIXES:
            if nontrivial(msg):
                res.interesting((msg, suffix))
            for sig, text, rep in check_case(msg, suffix, res, max_parts):
                res.violation(sig, text, rep)
            res.count('cases')
        if idx % 997 == cfg['part']:
            res.sample({'message': b2s(msg), 'wire': b2s(ref_stuff(msg)), 'suffixes': [b2s(s) for s in SUFFIXES]})
    return res.as_dict()


def replay(rep):
    res = Result()
    if rep.get('max_size') is not None:
        vs = check_sized(s2b(rep['msg']), s2b(rep['suffix']), rep['max_size'], res)
        if vs:
            return True, vs[0][1]
        return False, 'the reader with a size limit consumed exactly the message and its end-of-data line under every segmentation'
    vs = check_case(s2b(rep['msg']), s2b(rep['suffix']), res, None)
    if vs:
        return True, vs[0][1]
    return False, 'reader returned the original bytes and left the suffix untouched under every segmentation'
