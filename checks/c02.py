"""C02 -- an edge acknowledges a message only after custody of every recipient is taken.

The real SmtpEdge.handle (scripted client over in-memory sockets) and the real WsgiEdge.__call__, in
front of the real Queue (DictStorage behind a fault injector; policy chains that split the message
into several envelopes) or the real ProxyQueue (scripted relay), on the virtual loop.  Fault
enumeration: for the k-th storage write of one enqueue -- succeeds / raises QueueError without or with a
4xx/5xx reply / raises another exception / is slow (completes as an environment event the explorer may
delay) -- every single fault position and kind, every pair in thorough; for the proxy queue every relay
outcome incl. per-recipient mappings.  Oracle evaluated at the instant the edge writes its final reply.
"""
import io
import itertools

import gevent
import gevent.event

import engine.speedups  # noqa
import slimta.edge.smtp as edge_smtp
import slimta.edge.wsgi as edge_wsgi
from slimta.edge.smtp import SmtpEdge
from slimta.edge.wsgi import WsgiEdge
from slimta.queue import Queue, QueueError, QueueStorage
from slimta.queue.dict import DictStorage
from slimta.queue.proxy import ProxyQueue
from slimta.relay import Relay, TransientRelayError, PermanentRelayError
from slimta.policy.split import RecipientSplit, RecipientDomainSplit
from slimta.policy.forward import Forward
from slimta.policy.headers import AddDateHeader
from slimta.smtp.reply import Reply

from engine.core import explore, Chooser
from engine.result import Result
from engine.vloop import World
from fakes.vsock import Net
from worlds.edge_seq import FakePtrLookup
from worlds.queue_world import UUID_MODULES

PROPERTY = 'C02'
LEVEL = 'fault_enumeration'
EXHAUSTIVE = True
KINDS = ['qerr', 'qerr4', 'qerr5', 'exc', 'slow']
CHAINS = ['none', 'split', 'domainsplit', 'forward+split', 'date+domainsplit', 'domainsplit+split', 'split+domainsplit']
RCPTS = ['a@x.test', 'b@x.test', 'c@y.test']

RULE = ('edge {SMTP, WSGI} x queue {Queue+DictStorage behind a fault injector, ProxyQueue+scripted relay} x 7 policy chains x 1..3 '
        'recipients x fault plan: every position k of the writes of one enqueue x kind {QueueError, QueueError+4xx reply, '
        'QueueError+5xx reply, other exception, slow write} (every pair of faults in thorough; slow writes interleaved by the '
        'explorer with <= d deviations); proxy queue: relay outcome {None, Reply, Transient, Permanent, other exception, every '
        'per-recipient mapping over {ok,temp,perm}}.  At the instant of the final reply: 2xx only if every envelope the chain '
        'produced has a completed write (or the relay accepted every recipient) and nothing is pending.  Non-trivial = plan with '
        'a fault or a split.')
ASSUMPTIONS = ['in-memory sockets; WSGI environ built by hand; fake PTR lookup', 'a dropped connection or an exception escaping the edge is "no 2xx"']


def BOUNDS(tier):
    return {'recipients': 3, 'faults_per_plan': 1 if tier == 'quick' else 2, 'd': 1 if tier == 'quick' else 2}


class FaultStore(QueueStorage):
    def __init__(self, world, plan, log):
        self.inner = DictStorage()
        self.w = world
        self.plan = plan
        self.log = log            # dict: started, completed(list of rcpt tuples), failed, pending

    def write(self, envelope, timestamp):
        k = len(self.log['started'])
        self.log['started'].append(tuple(envelope.recipients))
        kind = self.plan.get(k, 'ok')
        self.log['pending'] += 1
        try:
            if kind.startswith('slow'):
                self.w.env_wait('write#%d' % k)
                kind = 'ok' if kind == 'slow' else kind[5:]
            if kind == 'qerr':
                raise QueueError('scripted failure of write %d' % k)
            if kind in ('qerr4', 'qerr5'):
                e = QueueError('scripted failure of write %d' % k)
                e.reply = Reply('451', '4.3.1 storage busy') if kind == 'qerr4' else Reply('554', '5.3.4 storage refuses')
                raise e
            if kind == 'exc':
                raise RuntimeError('scripted crash of write %d' % k)
            i = self.inner.write(envelope, timestamp)
            self.log['completed'].append(tuple(envelope.recipients))
            return i
        except BaseException:
            self.log['failed'].append(tuple(envelope.recipients))
            raise
        finally:
            self.log['pending'] -= 1

    def load(self):
        return []

    def wait(self):
        raise NotImplementedError()


def add_policies(q, chain):
    if chain == 'split':
        q.add_policy(RecipientSplit())
    elif chain == 'domainsplit':
        q.add_policy(RecipientDomainSplit())
    elif chain == 'forward+split':
        f = Forward()
        f.add_mapping(r'^a@x\.test$', 'z@w.test')
        q.add_policy(f)
        q.add_policy(RecipientSplit())
    elif chain == 'date+domainsplit':
        q.add_policy(AddDateHeader())
        q.add_policy(RecipientDomainSplit())
    elif chain == 'domainsplit+split':
        q.add_policy(RecipientDomainSplit())
        q.add_policy(RecipientSplit())
    elif chain == 'split+domainsplit':
        q.add_policy(RecipientSplit())
        q.add_policy(RecipientDomainSplit())


def expected_envelopes(chain, rcpts):
    """recipient groups the chain must produce (reference)."""
    r = list(rcpts)
    if chain == 'forward+split':
        r = ['z@w.test' if x == 'a@x.test' else x for x in r]
    if chain in ('split', 'forward+split', 'domainsplit+split', 'split+domainsplit'):
        return [(x,) for x in r] if len(r) > 1 else [tuple(r)]
    if chain in ('domainsplit', 'date+domainsplit'):
        groups = {}
        for x in r:
            groups.setdefault(x.rsplit('@', 1)[1].lower(), []).append(x)
        return [tuple(v) for v in groups.values()]
    return [tuple(r)]


class ScriptedProxyRelay(Relay):
    def __init__(self, outcome, log):
        super(ScriptedProxyRelay, self).__init__()
        self.outcome = outcome
        self.log = log

    def attempt(self, envelope, attempts):
        o = self.outcome
        rc = list(envelope.recipients)
        self.log['started'].append(tuple(rc))
        if o == 'none':
            self.log['completed'].append(tuple(rc))
            return None
        if o == 'reply':
            self.log['completed'].append(tuple(rc))
            return Reply('250', '2.0.0 relayed')
        if o == 'temp':
            raise TransientRelayError('t', Reply('450', '4.0.0 later'))
        if o == 'perm':
            raise PermanentRelayError('p', Reply('550', '5.0.0 no'))
        if o == 'exc':
            raise RuntimeError('relay crashed')
        assign = o.split(':')[1]
        res = {}
        ok = []
        for r, c in zip(rc, assign):
            if c == 'o':
                res[r] = None
                ok.append(r)
            elif c == 't':
                res[r] = TransientRelayError('t', Reply('450', '4.0.0 later'))
            else:
                res[r] = PermanentRelayError('p', Reply('550', '5.0.0 no'))
        if len(ok) == len(rc):
            self.log['completed'].append(tuple(rc))
        else:
            self.log['failed'].append(tuple(r for r in rc if r not in ok))
        return res


def run_case(case, ch):
    edge_kind, queue_kind, chain, n, plan = case['edge'], case['queue'], case['chain'], case['n'], case['plan']
    rcpts = RCPTS[:n]
    log = {'started': [], 'completed': [], 'failed': [], 'pending': 0}
    obs = {'final': None, 'at_final': None, 'end': None}
    with World(ch, uuid_modules=UUID_MODULES, max_steps=3000) as w:
        if queue_kind == 'queue':
            store = FaultStore(w, {int(k): v for k, v in plan.items()}, log)
            sp = case.get('store_pool')
            if case.get('shared_pool'):
                # one bounded pool object serves the edge's connection handlers and the queue's storage tasks; another
                # connection holds a slot and leaves a moment later
                from gevent.pool import Pool as _Pool
                sp = _Pool(case['shared_pool'])
                obs['spawn'] = sp.spawn
                for k in range(case['shared_pool'] - 1):
                    sp.spawn(lambda k=k: w.env_wait('other-connection-%d-leaves' % k))
            q = Queue(store, relay=None, store_pool=sp)
            add_policies(q, chain)
        elif queue_kind == 'queue-disk':
            # real DiskStorage over the in-memory FS; aio requests may complete for fewer bytes than asked
            import slimta.diskstorage as ds
            from engine import memfs
            fs = memfs.MemFS()
            memfs.bind(w, fs, chunk_size=64)
            fs.short_chooser = ch
            fs.fail_at = plan.get('fail_io')
            q = Queue(ds.DiskStorage('/q/env', '/q/meta', '/q/tmp'), relay=None)
            add_policies(q, chain)
            obs['fs'] = fs
        elif queue_kind == 'proxy-real':
            # ProxyQueue in front of a real relay class (SMTP, LMTP, HTTP) whose next hop is scripted; the truth is what the
            # next hop accepted
            from worlds.queue_world import run_real_relay

            class RealRelay(Relay):
                def attempt(self_, envelope, attempts):
                    rc = list(envelope.recipients)
                    log['started'].append(tuple(rc))
                    behaviour = plan['behaviour']
                    accepted, outcome = run_real_relay(w, plan['relay_kind'], behaviour, envelope, attempts, rc)
                    if set(rc) <= set(accepted):
                        log['completed'].append(tuple(rc))
                    else:
                        log['failed'].append(tuple(r for r in rc if r not in accepted))
                    if outcome[0] == 'raised':
                        raise outcome[1]
                    return outcome[1]
            q = ProxyQueue(RealRelay())
        elif queue_kind == 'proxy-pipe':
            # ProxyQueue in front of the real PipeRelay; the delivery program's fate is scripted
            import slimta.relay.pipe as pipe
            from fakes.fakepopen import FakeSubprocess
            fate = plan['pipe']
            per = bool(plan.get('per_recipient'))

            def script(args, stdin, k):
                f = fate
                if f.startswith('first-ok-rest-'):
                    f = 'ok' if k == 0 else f[len('first-ok-rest-'):]
                # who this invocation delivers to is what its command line says (the recipients it names, else everybody)
                named = tuple(r for r in rcpts if any(r in (a if isinstance(a, str) else a.decode('latin-1')) for a in args))
                who = named or tuple(rcpts)
                log['started'].append(who)
                if f == 'ok':
                    log['completed'].append(who)
                    return (0, b'', b'')
                log['failed'].append(who)
                return {'temp': (75, b'4.2.0 later\n', b''), 'perm': (1, b'5.1.1 no such user\n', b''), 'killed': (-9, b'', b''),
                        'status255': (255, b'', b'')}[f]
            w.patch(pipe, 'subprocess', FakeSubprocess(script))
            if plan.get('pipe_class') == 'dovecot':
                relay = pipe.DovecotLdaRelay()
            elif plan.get('pipe_class') == 'maildrop':
                relay = pipe.MaildropRelay()
            else:
                relay = pipe.PipeRelay(['deliver'] + (['{recipient}'] if per else []))
                relay.per_recipient = per
            q = ProxyQueue(relay)
        else:
            q = ProxyQueue(ScriptedProxyRelay(plan['relay'], log))

        def snapshot():
            snap = {'completed': list(log['completed']), 'failed': list(log['failed']), 'pending': log['pending'],
                    'started': list(log['started'])}
            if queue_kind == 'queue-disk':
                obs['files_at_final'] = dict(obs['fs'].files)
            return snap
        if edge_kind == 'smtp':
            net = Net(w)
            csock, ssock = net.pair()
            state = {'after354': False}

            def on_send(sock, tag, data):
                for line in data.split(b'\r\n'):
                    if len(line) >= 4 and line[:3].isdigit() and line[3:4] == b' ':
                        code = line[:3].decode()
                        if state['after354'] and obs['final'] is None:
                            obs['final'] = code
                            obs['at_final'] = snapshot()
                        if code == '354':
                            state['after354'] = True
            ssock.on_send = on_send
            saved = edge_smtp.PtrLookup
            edge_smtp.PtrLookup = FakePtrLookup
            try:
                edge = SmtpEdge(None, q, hostname='edge.test')

                def serve():
                    try:
                        edge.handle(ssock, ('192.0.2.7', 5555))
                        obs['end'] = 'returned'
                    except gevent.GreenletExit:
                        raise
                    except BaseException as e:
                        obs['end'] = 'raised:' + type(e).__name__
                obs.pop('spawn', gevent.spawn)(serve)
                data = b'EHLO c\r\nMAIL FROM:<s@o.test>\r\n' + b''.join(b'RCPT TO:<%s>\r\n' % r.encode() for r in rcpts) + \
                    b'DATA\r\nSubject: t\r\n\r\nbody\r\n.\r\nQUIT\r\n'
                csock.sendall(data)
                w.run_until_quiescent()
            finally:
                edge_smtp.PtrLookup = saved
        else:
            import base64
            saved = edge_wsgi.PtrLookup
            edge_wsgi.PtrLookup = FakePtrLookup
            try:
                edge = WsgiEdge(q, hostname='edge.test')
                body = b'Subject: t\r\n\r\nbody\r\n'
                environ = {'REQUEST_METHOD': 'POST', 'PATH_INFO': '/', 'CONTENT_TYPE': 'message/rfc822', 'CONTENT_LENGTH': str(len(body)),
                           'REMOTE_ADDR': '192.0.2.7', 'wsgi.input': io.BytesIO(body), 'wsgi.url_scheme': 'http',
                           'HTTP_X_EHLO': 'c', 'HTTP_X_ENVELOPE_SENDER': base64.b64encode(b's@o.test').decode(),
                           'HTTP_X_ENVELOPE_RECIPIENT': ', '.join(base64.b64encode(r.encode()).decode() for r in rcpts)}

                def start_response(status, headers, exc_info=None):
                    if obs['final'] is None:
                        obs['final'] = status.split(' ')[0]
                        obs['at_final'] = snapshot()

                def serve():
                    try:
                        edge(environ, start_response)
                        obs['end'] = 'returned'
                    except gevent.GreenletExit:
                        raise
                    except BaseException as e:
                        obs['end'] = 'raised:' + type(e).__name__
                obs.pop('spawn', gevent.spawn)(serve)
                w.run_until_quiescent()
            finally:
                edge_wsgi.PtrLookup = saved
        obs['errors'] = w.errors()
    obs['log'] = log
    if queue_kind == 'queue-disk':
        obs['io_count'] = obs['fs'].io_count
        obs.pop('fs', None)
        if obs.get('files_at_final') is not None:
            obs['stored_at_final'] = read_back(obs.pop('files_at_final'))
    return obs


def read_back(files):
    """what a fresh DiskStorage finds in the directory as it was when the edge sent its final reply"""
    import slimta.diskstorage as ds
    from engine import memfs
    out = []
    with World(Chooser(), uuid_modules=UUID_MODULES, max_steps=50000) as w:
        fs = memfs.MemFS(files=files)
        memfs.bind(w, fs, chunk_size=64)
        st = ds.DiskStorage('/q/env', '/q/meta', '/q/tmp')

        def body():
            try:
                ids = sorted(i for t, i in st.load())
            except BaseException as e:
                out.append(('load-raised', type(e).__name__))
                return
            for i in ids:
                try:
                    env, attempts = st.get(i)
                    hdr, body_ = env.flatten()
                    out.append((env.sender, tuple(env.recipients), body_))
                except BaseException as e:
                    out.append(('get-raised', type(e).__name__))
        gevent.spawn(body)
        w.run_until_quiescent()
    return out


def judge(case, obs):
    out = []
    base = {'edge': case['edge'], 'queue': case['queue']}
    n = case['n']
    rcpts = RCPTS[:n]
    final = obs['final']
    desc = '%s edge, %s, chain %s, %d recipient(s), plan %r: final reply %r (edge %s); at that instant: %r' % (
        case['edge'], case['queue'], case['chain'], n, case['plan'], final, obs['end'], obs['at_final'])
    if final is None:
        # no reply at all: dropped connection / exception = "no 2xx"; but it must not be a hang with writes still pending for ever
        if obs['end'] is None:
            out.append((dict(base, kind='edge-never-answered'), desc))
        return out
    snap = obs['at_final']
    if final[0] == '2' and case['queue'] == 'queue-disk':
        want = sorted(('s@o.test', g, b'body\r\n') for g in expected_envelopes(case['chain'], rcpts))
        got = sorted(obs.get('stored_at_final') or [], key=repr)
        if got != sorted(want, key=repr):
            out.append((dict(base, kind='acknowledged-but-not-intact-in-storage', chain=case['chain']),
                        desc + '; a fresh DiskStorage over the directory as it was at that instant finds %r, expected %r' % (got, want)))
        return out
    if final[0] == '2':
        if case['queue'] == 'proxy-pipe' and (case['plan'].get('per_recipient') or case['plan'].get('pipe_class') == 'dovecot'):
            want = [(r,) for r in rcpts]
        else:
            want = expected_envelopes(case['chain'], rcpts) if case['queue'] == 'queue' else [tuple(rcpts)]
        done = sorted(snap['completed'])
        if snap['pending']:
            out.append((dict(base, kind='acknowledged-before-write-completed'), desc))
        if snap['failed']:
            fk = 'pipe-relay' if case['queue'] == 'proxy-pipe' else ('real-' + case['plan']['relay_kind']) if case['queue'] == 'proxy-real' else 'per-recipient-result' if case['queue'] == 'proxy' and str(case['plan'].get('relay', '')).startswith('map') else \
                ('failure-not-first' if case['queue'] == 'queue' and min(int(k) for k in case['plan']) > 0 else 'failure')
            out.append((dict(base, kind='acknowledged-although-a-write-failed', which=fk), desc))
        elif sorted(want) != done:
            out.append((dict(base, kind='acknowledged-without-custody-of-all', chain=case['chain']), desc + ' expected writes %r' % (sorted(want),)))
    else:
        pass        # 4xx/5xx (or 421) is always allowed by the property
    if final[0] != '2' and case['queue'] in ('queue', 'queue-disk') and not case['plan']:
        out.append((dict(base, kind='refused-without-fault'), desc))
    return out


def cases(tier):
    for edge in ('smtp', 'wsgi'):
        for chain in CHAINS:
            for n in (1, 2, 3):
                m = len(expected_envelopes(chain, RCPTS[:n]))
                yield {'edge': edge, 'queue': 'queue', 'chain': chain, 'n': n, 'plan': {}}
                for k in range(m):
                    for kind in KINDS:
                        yield {'edge': edge, 'queue': 'queue', 'chain': chain, 'n': n, 'plan': {str(k): kind}}
                if m >= 2:
                    # a slow write combined with a failing one (the reply must wait for the slow one too)
                    for k1, k2 in itertools.permutations(range(m), 2):
                        for kind in ('qerr', 'qerr5', 'exc'):
                            yield {'edge': edge, 'queue': 'queue', 'chain': chain, 'n': n, 'plan': {str(k1): 'slow', str(k2): kind}}
                        yield {'edge': edge, 'queue': 'queue', 'chain': chain, 'n': n, 'plan': {str(k1): 'slow', str(k2): 'slow'}}
                        yield {'edge': edge, 'queue': 'queue', 'chain': chain, 'n': n, 'plan': {str(k1): 'slow', str(k2): 'slow-qerr'}}
                    if tier == 'thorough':
                        for k1, k2 in itertools.combinations(range(m), 2):
                            for a in KINDS:
                                for b in KINDS:
                                    yield {'edge': edge, 'queue': 'queue', 'chain': chain, 'n': n, 'plan': {str(k1): a, str(k2): b}}
                    yield {'edge': edge, 'queue': 'queue', 'chain': chain, 'n': n, 'plan': {'0': 'slow'}, 'store_pool': 1}
                if chain in ('none', 'split') and n <= 2:
                    # the edge's handlers and the queue's storage tasks share one bounded pool, full at the moment of the enqueue
                    for kind in ('qerr', 'exc', 'slow', 'slow-qerr'):
                        yield {'edge': edge, 'queue': 'queue', 'chain': chain, 'n': n, 'plan': {str(m - 1): kind}, 'shared_pool': 2}
                    yield {'edge': edge, 'queue': 'queue', 'chain': chain, 'n': n, 'plan': {}, 'shared_pool': 2}
        for n in (1, 2, 3):
            for o in ['none', 'reply', 'temp', 'perm', 'exc'] + ['map:' + ''.join(a) for a in itertools.product('otp', repeat=n)]:
                yield {'edge': edge, 'queue': 'proxy', 'chain': 'none', 'n': n, 'plan': {'relay': o}}
        for n in (1, 2):
            for per in (False, True):
                for fate in ('ok', 'temp', 'perm', 'killed', 'status255') + (('first-ok-rest-temp', 'first-ok-rest-killed', 'first-ok-rest-perm') if per and n > 1 else ()):
                    yield {'edge': edge, 'queue': 'proxy-pipe', 'chain': 'none', 'n': n, 'plan': {'pipe': fate, 'per_recipient': per}}
        # the ready-made delivery-agent relays (dovecot-lda: one run per recipient; maildrop: one run for the message)
        for pc in ('dovecot', 'maildrop'):
            for n in (1, 2):
                for fate in ('ok', 'temp', 'perm') + (('first-ok-rest-temp',) if pc == 'dovecot' and n > 1 else ()):
                    yield {'edge': edge, 'queue': 'proxy-pipe', 'chain': 'none', 'n': n, 'plan': {'pipe': fate, 'per_recipient': pc == 'dovecot', 'pipe_class': pc}}
        for chain in (('none', 'split', 'date+domainsplit') if tier == 'quick' else CHAINS):
            for n in ((1, 2) if tier == 'quick' else (1, 2, 3)):
                yield {'edge': edge, 'queue': 'queue-disk', 'chain': chain, 'n': n, 'plan': {}}
        from worlds.queue_world import QueueWorld
        for rk in ('smtp', 'lmtp', 'http'):
            for behaviour in QueueWorld.REAL_MENUS[rk]:
                if isinstance(behaviour, dict) and any(v == 'stall' for v in behaviour.values()):
                    continue            # stalls are C14's subject; here every attempt ends
                if behaviour == '301+250':
                    continue            # an origin that contradicts itself (failure status, success reply header): not defined
                yield {'edge': edge, 'queue': 'proxy-real', 'chain': 'none', 'n': 2, 'plan': {'relay_kind': rk, 'behaviour': behaviour}}


def configs(tier, seed):
    return [{'k': k, 'of': 32} for k in range(32)]


def run_config(cfg, tier, seed):
    res = Result()
    d = 1 if tier == 'quick' else 2
    for i, case in enumerate(cases(tier)):
        if i % cfg['of'] != cfg['k']:
            continue
        res.count('plans')
        if case['plan'] or case['chain'] != 'none':
            res.interesting(repr(sorted(case.items())))

        ios = [0]

        def run(ch, case=case):
            obs = run_case(case, ch)
            ios[0] = max(ios[0], obs.get('io_count', 0))
            for sig, msg in judge(case, obs):
                res.violation(sig, msg, {'case': case, 'choices': ch.choices})
            if obs['final'] and obs['final'][0] == '2':
                res.count('acknowledged')
            elif obs['final']:
                res.count('refused')
            return (obs['final'], obs['end'], repr(obs['at_final']))
        st = explore(run, d=d, dd=None, merge=False, max_exec=500 if case['queue'] != 'queue-disk' else 50000)
        res.add_stats(st)
        if case['queue'] == 'queue-disk' and not case['plan']:
            # every single failing request of the write path (temp file creation, each aio write, each rename answers ENOSPC)
            for k in range(ios[0]):
                fcase = dict(case, plan={'fail_io': k})
                res.count('plans')
                res.count('disk_fault_plans')
                res.interesting(repr(sorted(fcase.items())))
                st2 = explore(lambda ch, fcase=fcase: run(ch, fcase), d=1, dd=None, merge=False, max_exec=5000)
                res.add_stats(st2)
        if i % 300 == cfg['k']:
            res.sample({'case': case, 'executions': st.executions})
    return res.as_dict()


def vacuity(counters, tier):
    p = []
    if counters.get('acknowledged', 0) < 100:
        p.append('fewer than 100 acknowledged runs')
    if counters.get('refused', 0) < 100:
        p.append('fewer than 100 refused runs')
    return p


def replay(rep):
    obs = run_case(rep['case'], Chooser(rep['choices']))
    vs = judge(rep['case'], obs)
    if vs:
        return True, vs[0][1]
    return False, 'final reply %r consistent with custody' % (obs['final'],)
