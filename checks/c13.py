"""C13 -- failed mail yields exactly one bounce per distinct failure reply; bounces never loop.

Queue world restricted to failure histories (whole-message permanent failure, per-recipient permanent
failures with equal/different replies, retry exhaustion with grouped transient replies, mixtures,
failing bounces), originals with 8-bit bodies and 1..3 (4 thorough) recipients, empty sender, bounce
factories {default, headers-only, returns None}, bounce queue {self, separate}.  Oracle: for every
failure event the bounces built and enqueued equal the reference grouping, and each bounce is rendered
correctly (sender '', recipient = original sender, names exactly its group, quotes the reply, embeds
the original header block (+ body) unchanged).
"""
import re

from engine.core import explore, Chooser
from engine.result import Result
from worlds.queue_world import QueueWorld

PROPERTY = 'C13'
LEVEL = 'model_checking'
EXHAUSTIVE = True
MENU = dict(per_recipient=True, boom=True, reply_ok=False)
BODY8 = b'Subject: caf\xc3\xa9\r\nX-Bin: \xe9\r\n\r\nline one\r\n.dot line\r\n\xff\xfe 8-bit\r\nbare\nline feed and bare\rcarriage return\r\nlast\r\n'

RULE = ('queue world, failure histories: all relay outcome histories (whole-message ok/temp/perm/exception, every per-recipient '
        'mapping) with <= dd non-default outcomes over <= 3 attempts x schedules with <= d deviations; bounce messages are '
        'delivered through the same relay and may fail themselves.  Per failure event (attempt ordinal x permanent|exhausted) the '
        'set of bounces = reference grouping by (code, message).  Non-trivial = execution with at least one bounce group.')
ASSUMPTIONS = ['fake storage clients as in C01', 'reply texts differ by recipient position parity so that grouping by reply is observable']


def BOUNDS(tier):
    return {'recipients': '1..3' if tier == 'quick' else '1..4', 'attempts': 3, 'd': 1, 'dd': 3 if tier == 'quick' else 4}


def configs(tier, seed):
    q = tier == 'quick'
    cfgs = []
    for b in ('dict', 'disk', 'redis', 'cloud'):
        for bo in ('never', 'r0x2', 'r10'):
            for n in ((2, 3) if q else (1, 2, 3, 4)):
                if n >= 3 and bo != 'r0x2' and q:
                    continue
                cfgs.append(dict(backend=b, backoff=bo, n=n, messages=1, d=0 if n >= 3 else 1, dd=3 if (q or n == 4) else 4, menu=MENU, body8=True))
        cfgs.append(dict(backend=b, backoff='r0x2', n=2, messages=1, d=1, dd=3, menu=MENU, bounce='headers-only', body8=True))
        cfgs.append(dict(backend=b, backoff='r0x2', n=2, messages=1, d=1, dd=3, menu=MENU, bounce='none'))
        cfgs.append(dict(backend=b, backoff='r0x2', n=2, messages=1, d=1, dd=3, menu=MENU, bounce_queue='separate'))
        cfgs.append(dict(backend=b, backoff='r0x2', n=2, messages=1, d=1, dd=3, menu=MENU, senders={'0': ''}))
        cfgs.append(dict(backend=b, backoff='r10', n=2, messages=2, d=1, dd=2, menu=MENU))
        # a real second Queue as bounce queue, built (and possibly not started) before the main queue
        cfgs.append(dict(backend=b, backoff='r0x2', n=2, messages=1, d=1, dd=3, menu=MENU, bounce_queue='separate-real'))
    cfgs.append(dict(backend='dict', backoff='r0x2', n=2, messages=1, d=1, dd=3, menu=MENU, bounce_queue='separate-real-started'))
    # result mappings built in another order than the envelope's recipient list; reply texts and sender outside ASCII
    for b in ('dict', 'disk'):
        cfgs.append(dict(backend=b, backoff='r0x2', n=3, messages=1, d=0, dd=2, menu=dict(MENU, reversed_maps=True, boom=False), body8=True))
        cfgs.append(dict(backend=b, backoff='never', n=2, messages=1, d=0, dd=3, menu=dict(MENU, reversed_maps=True)))
        cfgs.append(dict(backend=b, backoff='r0x2', n=2, messages=1, d=0, dd=3, menu=MENU, unicode_replies=True, senders={'0': 's\u00e9nder@x'}, body8=True))
        cfgs.append(dict(backend=b, backoff='r0x2', n=2, messages=1, d=0, dd=3, menu=MENU, unicode_rcpts=True))
        # the same failure reply written with and without its (default) enhanced status code: it reads the same, so it is one reply
        cfgs.append(dict(backend=b, backoff='r0x2', n=3, messages=1, d=0, dd=2, menu=dict(MENU, boom=False), mixed_spelling=True))
        # bounded store pool: building and enqueueing a bounce needs storage slots of its own
        cfgs.append(dict(backend=b, backoff='r0x2', n=2, messages=1, d=1, dd=3, menu=MENU, store_pool=1))
        cfgs.append(dict(backend=b, backoff='never', n=2, messages=2, d=1, dd=2, menu=MENU, store_pool=2))
    # the storage fails one bookkeeping operation (I/O error) after a bounce has already been issued: still one bounce per failure
    for fo in (['increment_attempts', 'set_timestamp'], ['remove', 'set_recipients_delivered']):
        cfgs.append(dict(backend='dict', backoff='r0x2', n=2, messages=1, d=0, dd=3, menu=MENU, fail_ops=fo))
    # the same id reported twice (start-up load + wait() announcement, as a shared store does after a restart) while
    # the storage read of the first report is still in flight: still one attempt, one bounce
    cfgs.append(dict(backend='dict', backoff='never', n=2, messages=0, prestored=1, harness_wait=True, slow_ops=['get'], d=3, dd=2, menu=MENU,
                     script=[['announce', 0], ['announce', 0]]))
    cfgs.append(dict(backend='redis', backoff='never', n=2, messages=0, prestored=1, redis_yields=['hmget'], d=3, dd=2, menu=MENU))
    cfgs.append(dict(backend='dict', backoff='never', n=2, messages=1, harness_wait=True, slow_ops=['remove'], d=3, dd=2, menu=MENU,
                     script=[['enqueue', 0], ['announce', 0]]))
    # a bounded relay pool that is full while a second message is enqueued and announced by the storage: one attempt, one bounce
    cfgs.append(dict(backend='dict', backoff='never', n=1, harness_wait=True, relay_pool=1, d=2, dd=2, menu=MENU,
                     script=[['enqueue', 0], ['enqueue', 1], ['announce', 1]]))
    cfgs.append(dict(backend='redis', backoff='never', n=1, relay_pool=1, d=2, dd=2, menu=MENU, script=[['enqueue', 0], ['enqueue', 1]]))
    # failure replies produced by the real relay classes (incl. the library's pre-defined replies for lost
    # connections and timeouts), two messages in one process
    for rk in ('smtp', 'lmtp', 'pipe'):
        for bo in ('never', 'r0x2'):
            cfgs.append(dict(backend='dict', backoff=bo, n=2, messages=2, d=0, dd=3 if (q or bo == 'r0x2') else 4, relay_kind=rk, menu={}))
    return cfgs


def expected_groups(led):
    """reference grouping: {(event, code, message): [rcpts in original order]}"""
    groups = {}
    for rcpt in led['original']:
        if rcpt in led['failed']:
            how, k = led['fail_event'][rcpt]
            code, msg = led['failed'][rcpt]
            if how == 'exhausted':
                if msg is None:
                    msg = '4.0.0 Unhandled delivery error: boom'
                msg = msg + ' (Too many retries)'
            groups.setdefault((how, k, code, msg), []).append(rcpt)
    return groups


def check_rendering(b, orig_sender):
    """b: bounce record with a produced Bounce."""
    out = []
    bounce = b['bounce']
    if bounce.sender != '':
        out.append(('bounce-sender-not-null', 'bounce sender is %r' % (bounce.sender,)))
    if list(bounce.recipients) != [orig_sender]:
        out.append(('bounce-recipients', 'bounce addressed to %r, original sender %r' % (bounce.recipients, orig_sender)))
    hdr, body = bounce.flatten()
    m = re.search(br'boundary="([^"]+)"', hdr)
    if not m:
        out.append(('bounce-format', 'no MIME boundary in bounce headers %r' % hdr[:200]))
        return out
    boundary = m.group(1)
    ohdr, obody = b['orig']
    # the CRLF in front of a MIME boundary delimiter belongs to the delimiter, not to the part
    tail = ohdr + (b'' if b['headers_only'] else obody) + b'\r\n--' + boundary + b'--\r\n'
    if not body.endswith(tail):
        out.append(('original-not-embedded-unchanged', 'bounce body does not end with the original header block%s followed by the '
                    'closing boundary; tail of body: %r' % ('' if b['headers_only'] else ' and body', body[-(len(tail) + 40):])))
    # the bounce text is ASCII: non-ASCII addresses are written as XML character references (&#233;)
    names = ('Delivery failed for:\r\n- ' + '\r\n- '.join(b['rcpts']) + '\r\n\r\n').encode('ascii', 'xmlcharrefreplace')
    if names not in body:
        out.append(('failed-recipients-not-named', 'text part does not list exactly %r' % (b['rcpts'],)))
    quoted = ('Destination host responded:\r\n%s %s\r\n' % (b['code'], b['message'])).encode('utf-8')
    if quoted not in body:
        out.append(('reply-not-quoted', 'text part does not quote %r' % quoted))
    ctype = b'text/rfc822-headers' if b['headers_only'] else b'message/rfc822'
    if b'Content-Type: ' + ctype + b'\r\n\r\n' + ohdr[:20] not in body:
        out.append(('embedded-part-type', 'embedded part is not introduced as %r' % ctype))
    return out


def judge(cfg, qw):
    out = []
    bounce_kind = cfg.get('bounce', 'default')
    originals = [k for k, v in qw.ledger.items() if not v['bounce']]
    total_groups = 0
    used = set()
    for qid in sorted(qw.ledger):
        led = qw.ledger[qid]
        groups = expected_groups(led) if led.get('fail_event') else {}
        if not led['sender']:
            # null sender (incl. every bounce): never bounced
            for i, b in enumerate(qw.bounces):
                if b.get('sender') == '' and set(b['rcpts']) & set(led['original']) and not b.get('foreign'):
                    out.append(('bounce-for-null-sender', 'a bounce was built for message %s whose sender is empty (recipients %r)' % (qid, b['rcpts'])))
            continue
        total_groups += len(groups)
        mine = [(i, b) for i, b in enumerate(qw.bounces) if b.get('sender') == led['sender'] and set(b['rcpts']) <= set(led['original'])
                and not b.get('foreign')]
        # the property names the set of recipients of a group, not their order (a relay may answer in any order)
        exp = sorted((tuple(sorted(r)), g[2], g[3]) for g, r in groups.items())
        got = sorted((tuple(sorted(b['rcpts'])), b['code'], b['message']) for i, b in mine)
        if exp != got:
            kind = 'bounce-grouping'
            if len(got) > len(exp):
                kind = 'too-many-bounces'
            elif len(got) < len(exp):
                kind = 'missing-bounce'
            out.append((kind, 'message %s: failure groups %r but bounces were built for %r' % (qid, exp, got)))
        for i, b in mine:
            used.add(i)
            if b.get('raised'):
                out.append(('bounce-could-not-be-built', 'building the bounce for %r raised %s' % (b['rcpts'], b['raised'])))
                continue
            if bounce_kind != 'none':
                if not b['produced'] or not b['enqueued']:
                    out.append(('bounce-not-enqueued', 'bounce for %r was not handed to the bounce queue' % (b['rcpts'],)))
                else:
                    out.extend(check_rendering(b, led['sender']))
    for i, b in enumerate(qw.bounces):
        if b.get('foreign'):
            out.append(('unexpected-bounce-enqueued', 'a bounce not produced by the bounce factory was enqueued'))
    for kind, detail in qw.violations:
        if kind in ('bounce-not-handed-to-configured-queue', 'shared-reply-constant-modified', 'relay-report-depends-on-history'):
            out.append((kind, detail))
    n_orig = len(originals)
    if qw.total_messages > n_orig + total_groups:
        out.append(('bounce-feedback', '%d messages were created from %d originals and %d failure groups' % (qw.total_messages, n_orig, total_groups)))
    return out


def run_one(cfg, ch):
    cfg = dict(cfg)
    if 'script' in cfg:
        cfg['script'] = [tuple(a) for a in cfg['script']]
    if cfg.pop('body8', False):
        cfg['body'] = BODY8
    if 'senders' in cfg:
        cfg['senders'] = {int(k): v for k, v in cfg['senders'].items()}
    qw = QueueWorld(ch, cfg)
    obs = qw.run()
    return qw, obs, judge(cfg, qw)


def run_config(cfg, tier, seed):
    res = Result()
    wcfg = {k: v for k, v in cfg.items() if k not in ('d', 'dd')}

    def run(ch):
        qw, obs, viols = run_one(wcfg, ch)
        if qw.bounces:
            res.interesting(obs)
            res.count('executions_with_bounce')
        if any(len(set(b['message'] for b in qw.bounces if b.get('sender') == s)) > 1 for s in set(b.get('sender') for b in qw.bounces)):
            res.count('executions_with_several_groups')
        seen = set()
        for kind, detail in viols:
            if kind in seen:
                continue
            seen.add(kind)
            errs = sorted(set(e[0] for e in qw.errors))
            marks = {}
            for e in qw.events:
                if e[1] == 'store' and e[2] == 'set_recipients_delivered':
                    marks[e[3]] = marks.get(e[3], 0) + 1
            res.violation({'kind': kind, 'marking_rounds': 'multi' if max(marks.values() or [0]) >= 2 else 'single',
                           'index_model': 'differs' if qw.index_model_differs else 'matches', 'backend': wcfg['backend'], 'factory': wcfg.get('bounce', 'default'),
                           'bounce_queue': wcfg.get('bounce_queue', 'self'), 'exception': ','.join(errs) or 'none',
                           'stranded': any(v[0] == 'recipient-stranded' for v in qw.violations)},
                          '%s; attempts=%r; errors=%r' % (detail, [(a['qid'][-2:] if a['qid'] else None, a['rcpts'], a['outcome']) for a in qw.attempts], qw.errors[:2]),
                          {'cfg': wcfg, 'choices': ch.choices})
        return obs + (tuple(sorted((b['rcpts'], b['code'], b['message']) for b in qw.bounces)),)
    st = explore(run, d=cfg['d'], dd=cfg['dd'], merge=True)
    res.add_stats(st)
    res.sample({'config': cfg, 'executions': st.executions, 'states': len(st.states)})
    return res.as_dict()


def vacuity(counters, tier):
    p = []
    if counters.get('executions_with_bounce', 0) < 500:
        p.append('fewer than 500 executions with a bounce')
    if counters.get('executions_with_several_groups', 0) < 50:
        p.append('fewer than 50 executions with several failure groups')
    return p


def replay(rep):
    ch = Chooser(rep['choices'])
    qw, obs, viols = run_one(rep['cfg'], ch)
    if viols:
        return True, '%s: %s' % viols[0]
    return False, 'bounces match the reference grouping and are rendered correctly'
