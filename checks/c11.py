"""C11 -- a relay reports success only for recipients the next hop accepted.

Fault enumeration over downstream behaviour, each script one deterministic execution of the real relay
classes on the virtual loop:
  A  StaticSmtpRelay / StaticLmtpRelay (real SmtpRelayClient/LmtpRelayClient/Client) against a scripted
     peer: every single and every double deviation over stages x {4xx, 5xx, malformed, bad code,
     disconnect} (+ EHLO 500 -> HELO), PIPELINING on/off, 1..3 recipients, STARTTLS/AUTH variants,
     connection refused, connection reuse;
  B  PipeRelay / MaildropRelay / DovecotLdaRelay over a fake Popen: exit status x output shape x mode;
  C  HttpRelay over scripted HTTP responses;
  D  MxSmtpRelay over a stub resolver.
Oracle: delivered subset of accepted (hard); result or RelayError, never another exception, never a
hang, never a failure object returned as a success (hard); error class per deciding reply.
"""
import itertools
import socket as _socket
import types

import gevent

import engine.speedups  # noqa
from slimta.relay import RelayError, TransientRelayError, PermanentRelayError
from slimta.smtp.reply import Reply

from engine.core import Chooser
from engine.result import Result
from engine.vloop import World
from worlds.relay_world import SmtpRelayWorld, classify, make_envelope

PROPERTY = 'C11'
LEVEL = 'fault_enumeration'
EXHAUSTIVE = True
OUTCOMES = ['4', '5', 'malformed', 'badcode', 'disconnect']
SINGLE_ONLY = ['stall']          # the peer goes silent at that stage: the attempt must still end (single deviations only)

RULE = ('A: per (SMTP|LMTP, PIPELINING on/off, n=1..3): every single and double deviation {stage: outcome} over stages banner, '
        'ehlo(+500), helo, mail, rcpt_i, data, eod / eod_i, rset, quit x outcomes {4xx,5xx,malformed,bad code,disconnect}; '
        'STARTTLS (required or not) and AUTH stages with every single deviation; refused connection; 2 envelopes on a '
        're-used connection with every single deviation in either transaction.  B: 3 pipe relay classes x per-recipient mode x '
        'exit status {0,1,75,255,-9 (killed by a signal)} x 9 output shapes x 1..2 recipients (+ one failing call among two).  C: HTTP status '
        '{200,204,302,400,404,500,503} x X-Smtp-Reply {absent,250,450,550,malformed} + refused, dropped, truncated.  D: resolver '
        'answers {MX list, no MX but A, nothing, error} x attempts 0..3 x recipient shapes.  Every script is non-trivial '
        'except the all-success baselines.')
ASSUMPTIONS = ['in-memory sockets (a sample of the SMTP/LMTP scripts is replayed over real gevent sockets on the real loop and must give the same result), fake TLS, fake Popen, scripted HTTP origin, stub DNS resolver (environment by definition)',
               'where several error replies of different classes decide about one recipient either class is accepted']


def BOUNDS(tier):
    return {'recipients': 3, 'deviations': 2 if tier == 'quick' else '2 (+ triple on n=2)', 'parts': 'A,B,C,D'}


# ------------------------------------------------------------------ part A
def stages(cfg):
    n = cfg['n']
    st = ['banner', 'ehlo', 'mail'] + ['rcpt%d' % i for i in range(n)] + ['data']
    st += ['eod%d' % i for i in range(n)] if cfg.get('lmtp') else ['eod']
    st += ['rset', 'quit']
    if cfg.get('tls') == 'starttls':
        st.insert(2, 'starttls')
    if cfg.get('auth'):
        st.insert(st.index('mail'), 'auth')
    return st


def scripts_for(cfg, max_dev):
    st = stages(cfg)
    yield {}
    singles = []
    for s in st:
        for o in OUTCOMES:
            singles.append((s, o))
        if s == 'ehlo' and not cfg.get('lmtp'):
            singles.append(('ehlo', '500'))
        if s == 'data' or (s.startswith('eod') and s in ('eod', 'eod%d' % (cfg['n'] - 1))):
            # the last reply of the transaction, and the peer hangs up with it
            singles.append((s, '5+close'))
            singles.append((s, '4+close'))
        if s in ('mail', 'rcpt0', 'eod', 'eod0'):
            singles.append((s, '5x'))            # failure replies whose text begins with a status code of no known class
            singles.append((s, '4x'))
        if s == 'auth':
            singles.append((s, '334-bad'))       # a challenge that cannot be decoded
            singles.append((s, '334-extra'))     # an extra challenge, then 235
        if s.startswith('rcpt'):
            singles.append((s, '251'))           # accepted, with a 2xx code other than 250
    stalls = [(s, 'stall') for s in st if s not in ('quit',)]
    for s, o in stalls:
        yield {s: o}
    for s, o in singles:
        yield {s: o}
        if s == 'ehlo' and o == '500':
            for o2 in OUTCOMES:
                yield {'ehlo': '500', 'helo': o2}
    if max_dev >= 2:
        for (s1, o1), (s2, o2) in itertools.combinations(singles, 2):
            if s1 != s2:
                yield {s1: o1, s2: o2}


def judge_smtp(cfg, script, w):
    """-> list of (signature, message)"""
    out = []
    base = {'part': 'smtp', 'lmtp': bool(cfg.get('lmtp')), 'pipelining': bool(cfg.get('pipelining', True))}
    for rec in w.results:
        env = rec['env']
        per, whole = classify(rec['outcome'], env)
        accepted = set()
        deciding = {r: set() for r in env.recipients}
        for p in w.peers:
            for (snd, r) in p.accepted():
                if snd.decode('latin-1').split('>')[0] == env.sender:
                    accepted.add(r.decode('latin-1'))
            # deciding replies for this envelope's transaction(s)
            for t_index, t in enumerate(p.transactions):
                if t['sender'].decode('latin-1') != env.sender:
                    continue
                rc = [r.decode('latin-1') for r, ok in t['rcpts']]
                acc = [r.decode('latin-1') for r, ok in t['rcpts'] if ok]
                for entry in p.log:
                    stage, o, txn = entry
                    if o in ('2', '500', '251', '334-extra'):
                        continue
                    cls = 'perm' if o in ('5', '5+close', '5x') else 'temp'
                    if o in ('malformed', 'badcode', 'disconnect', 'stall', '334-bad') and txn == t_index and stage not in ('quit',):
                        for r in env.recipients:
                            deciding[r].add('temp')
                        continue
                    if stage.startswith('rcpt') and txn == t_index:
                        i = int(stage[4:])
                        if i < len(rc):
                            deciding[rc[i]].add(cls)
                    elif stage.startswith('eod') and stage != 'eod' and txn == t_index:
                        j = int(stage[3:])
                        if j < len(acc):
                            deciding[acc[j]].add(cls)
                    elif stage in ('mail', 'data', 'eod') and txn == t_index:
                        for r in env.recipients:
                            deciding[r].add(cls)
            # connection-level stages decide for every envelope that never got a transaction on this peer
            for stage, o, txn in p.log:
                if o in ('2', '500', '251', '334-extra'):
                    continue
                if stage in ('banner', 'ehlo', 'helo', 'auth', 'tls') or (stage == 'starttls' and cfg.get('tls_required')) or (o == 'stall' and stage == 'starttls'):
                    cls = 'perm' if o in ('5', '5+close', '5x') else 'temp'
                    if not any(t['sender'].decode('latin-1') == env.sender for t in p.transactions):
                        for r in env.recipients:
                            deciding[r].add(cls)
                            if o == '334-bad':
                                deciding[r].add('perm')     # an undecodable challenge: either class, but a relay error
        desc = 'script %r (%s%s n=%d%s): attempt -> %s %r; peer accepted %r' % (
            script, 'LMTP' if cfg.get('lmtp') else 'SMTP', '' if cfg.get('pipelining', True) else ' no-pipelining', cfg['n'],
            ''.join(' %s=%r' % (k, cfg[k]) for k in ('tls', 'tls_required', 'auth', 'cred_form', 'connect', 'envelopes', 'pool_size') if cfg.get(k)),
            whole, per, sorted(accepted))
        if whole == 'blocked':
            out.append((dict(base, kind='attempt-never-returned'), desc))
            continue
        if whole.startswith('raised:other'):
            out.append((dict(base, kind='non-relay-exception', exception=whole.split(':')[-1]), desc))
            continue
        if rec['outcome'][0] == 'returned' and isinstance(rec['outcome'][1], BaseException):
            out.append((dict(base, kind='exception-returned-as-result'), desc))
        for r in env.recipients:
            c = per.get(r, 'missing')
            if c == 'delivered':
                if r not in accepted:
                    out.append((dict(base, kind='delivered-but-not-accepted'), desc))
                    break
            elif c in ('perm', 'temp'):
                if r in accepted and False:
                    pass
                d = deciding[r]
                if d and c not in d:
                    stage_kind = 'all-recipients-rejected-mixed' if whole.startswith('raised') and any(
                        s.startswith('rcpt') for s in script) and len(set(map(repr, script.values()))) > 1 else 'single-decider'
                    out.append((dict(base, kind='wrong-error-class', reported=c, deciding=','.join(sorted(d)), situation=stage_kind), desc))
                    break
            else:
                out.append((dict(base, kind='bad-recipient-result', value=c.split(':')[0]), desc))
                break
    for p in w.peers:
        for v in p.violations:
            out.append((dict(base, kind='protocol-violation-seen-by-peer', what=v), 'script %r: %s' % (script, v)))
    return out


def run_smtp(cfg, script):
    c = dict(cfg)
    c['script'] = script
    return SmtpRelayWorld(Chooser(), c).run()


# ------------------------------------------------------------------ part B (pipe)
PIPE_OUT = [(b'', b''), (b'5.1.1 user unknown\n', b''), (b'', b'5.1.1 user unknown\n'), (b'4.2.0 try later\n', b''),
            (b'no status code here\n', b''), (b'maildrop: quota exceeded\n', b''), (b'', b'\xff\xfe invalid utf-8\n'),
            # nothing but white space on stdout, the verdict on stderr
            (b'\n', b'5.1.1 user unknown\n'), (b' \n', b'4.2.0 try later\n')]


def run_pipe(case):
    cls_name, per_rcpt, status, oi, n, fail_index = case
    import slimta.relay.pipe as pipe
    from fakes.fakepopen import FakeSubprocess
    out, err = PIPE_OUT[oi]

    def script(args, stdin, k):
        if fail_index is None or k == fail_index:
            return (status, out, err)
        return (0, b'', b'')
    sp = FakeSubprocess(script)
    res = {}
    with World(Chooser()) as w:
        w.patch(pipe, 'subprocess', sp)
        if cls_name == 'PipeRelay':
            # a program run once for the whole message is not given a single recipient on its command line
            relay = pipe.PipeRelay(['deliver', '-f', '{sender}'] + ([] if per_rcpt is False else ['{recipient}']), timeout=9.0)
        elif cls_name == 'MaildropRelay':
            relay = pipe.MaildropRelay(timeout=9.0)
        else:
            relay = pipe.DovecotLdaRelay(timeout=9.0)
        if per_rcpt is not None:
            relay.per_recipient = per_rcpt
        env = make_envelope(0, n)

        def go():
            try:
                res['outcome'] = ('returned', relay.attempt(env, 0))
            except gevent.GreenletExit:
                raise
            except BaseException as e:
                res['outcome'] = ('raised', e)
        gevent.spawn(go)
        w.run_until_quiescent()
    return env, res.get('outcome'), sp, relay


def judge_pipe(case):
    cls_name, per_rcpt, status, oi, n, fail_index = case
    env, outcome, sp, relay = run_pipe(case)
    per, whole = classify(outcome, env)
    out = []
    base = {'part': 'pipe', 'relay': cls_name, 'per_recipient': relay.per_recipient}
    # truth: call k delivers to the recipient named in its args (or to the first one) iff exit status 0
    accepted = set()
    for k, (args, stdin) in enumerate(sp.calls):
        st = status if (fail_index is None or k == fail_index) else 0
        if st == 0:
            # who an invocation delivers to is what its command line says: the recipients it names, or (none named) the whole
            # envelope -- not what the relay object believes about itself
            named = [r for r in env.recipients if any(r in (a if isinstance(a, str) else a.decode('latin-1')) for a in args)]
            if named:
                accepted.update(named)
            else:
                accepted.update(env.recipients)
    desc = '%s per_recipient=%r exit=%d stdout=%r stderr=%r n=%d failing_call=%r -> %s %r (calls %d)' % (
        cls_name, relay.per_recipient, status, PIPE_OUT[oi][0], PIPE_OUT[oi][1], n, fail_index, whole, per, len(sp.calls))
    if whole == 'blocked':
        return [(dict(base, kind='attempt-never-returned'), desc)]
    if whole.startswith('raised:other'):
        return [(dict(base, kind='non-relay-exception', exception=whole.split(':')[-1]), desc)]
    if outcome[0] == 'returned' and isinstance(outcome[1], BaseException):
        out.append((dict(base, kind='exception-returned-as-result'), desc))
        return out
    for r in env.recipients:
        c = per.get(r, 'missing')
        if c == 'delivered' and r not in accepted:
            out.append((dict(base, kind='delivered-but-not-accepted'), desc))
            break
        if c not in ('delivered', 'perm', 'temp'):
            out.append((dict(base, kind='bad-recipient-result', value=c.split(':')[0]), desc))
            break
        if c in ('perm', 'temp') and status != 0:
            # documented mapping: 5.x.x prefix (PipeRelay) / EX_TEMPFAIL (maildrop, dovecot)
            if cls_name == 'PipeRelay':
                text = (PIPE_OUT[oi][0].rstrip() or PIPE_OUT[oi][1].rstrip())
                want = 'perm' if text[:2] == b'5.' else 'temp'
            else:
                want = 'temp' if status == 75 else 'perm'
            failing = fail_index is None or (relay.per_recipient and env.recipients.index(r) == fail_index) or not relay.per_recipient
            if failing and c != want and not (PIPE_OUT[oi][1].startswith(b'\xff')):
                out.append((dict(base, kind='wrong-error-class', reported=c, expected=want), desc))
                break
    return out


def pipe_cases():
    for cls_name in ('PipeRelay', 'MaildropRelay', 'DovecotLdaRelay'):
        # per_recipient is a documented switch of PipeRelay; the two sub-classes keep their default
        for per_rcpt in ((None, True, False) if cls_name == 'PipeRelay' else (None,)):
            for status in (0, 1, 75, 255, -9):
                for oi in range(len(PIPE_OUT)):
                    for n in (1, 2):
                        yield (cls_name, per_rcpt, status, oi, n, None)
                        if n == 2 and status != 0:
                            yield (cls_name, per_rcpt, status, oi, n, 1)


# ------------------------------------------------------------------ part C (http)
HTTP_STATUS = [(200, 'OK'), (204, 'No Content'), (302, 'Found'), (400, 'Bad Request'), (404, 'Not Found'), (500, 'Internal Server Error'), (503, 'Service Unavailable')]
HTTP_REPLY = [None, '250; message="2.6.0 accepted"', '450; message="4.2.0 later"', '550; message="5.1.1 nope"', 'garbage',
              # the form the library's own HTTP edge writes when the reply names the command it answers
              '250; message="2.6.0 accepted"; command="DATA"', '450; message="4.2.0 later"; command="RCPT"',
              '550; message="5.1.1 nope"; command="RCPT"']


def run_http(case):
    status, reply_hdr, mode = case
    import slimta.http as shttp
    from slimta.relay.http import HttpRelay
    from fakes.vsock import Net
    from fakes.fakehttp import HttpPeer, response
    res = {}
    peers = []
    with World(Chooser()) as w:
        net = Net(w)

        def create_connection(addr, timeout=None, source_address=None):
            if mode == 'refused':
                raise _socket.error(111, 'Connection refused')
            c, s = net.pair(peername=addr)

            def responder(req, k):
                if mode == 'drop':
                    return 'drop'
                if mode == 'stall':
                    return 'stall'
                if mode == 'late':
                    gevent.sleep(12.0)          # later than the relay's timeout (9 s)
                hs = [('X-Smtp-Reply', reply_hdr)] if reply_hdr else []
                data = response(status[0], status[1], hs)
                if mode == 'truncated':
                    return ('partial', data[:10])      # cut inside the status line
                return data
            p = HttpPeer(s, responder)
            peers.append(p)
            gevent.spawn(p.run)
            return c
        w.patch(shttp, 'socket', types.SimpleNamespace(create_connection=create_connection))
        relay = HttpRelay('http://mx.test:8025/deliver', ehlo_as='relay.test', timeout=9.0)
        env = make_envelope(0, 2)

        def go():
            try:
                res['outcome'] = ('returned', relay.attempt(env, 0))
            except gevent.GreenletExit:
                raise
            except BaseException as e:
                res['outcome'] = ('raised', e)
        gevent.spawn(go)
        w.run_until_quiescent()
        res['errors'] = w.errors()
    return env, res.get('outcome'), peers, res['errors']


def judge_http(case):
    status, reply_hdr, mode = case
    env, outcome, peers, errors = run_http(case)
    per, whole = classify(outcome, env)
    base = {'part': 'http', 'mode': mode}
    desc = 'HTTP %s %r X-Smtp-Reply=%r mode=%s -> %s %r; greenlet errors %r' % (status[0], status[1], reply_hdr, mode, whole, per, errors[:2])
    accepted = mode == 'ok' and 200 <= status[0] < 300
    if mode in ('stall', 'late') and whole == 'raised:temp':
        return []
    hdr_class = reply_hdr[0] if reply_hdr and reply_hdr != 'garbage' else None
    if mode == 'ok' and hdr_class is not None and ((hdr_class == '2') != accepted):
        # the origin contradicts itself (2xx status with an error reply header or vice versa): undefined
        if whole == 'blocked' or whole.startswith('raised:other'):
            return [(dict(base, kind='attempt-never-returned' if whole == 'blocked' else 'non-relay-exception'), desc)]
        return []
    if whole == 'blocked':
        return [(dict(base, kind='attempt-never-returned'), desc)]
    if whole.startswith('raised:other'):
        return [(dict(base, kind='non-relay-exception', exception=whole.split(':')[-1]), desc)]
    out = []
    delivered = all(v == 'delivered' for v in per.values())
    if delivered and not accepted:
        out.append((dict(base, kind='delivered-but-not-accepted'), desc))
    if not delivered and not all(v in ('perm', 'temp') for v in per.values()):
        out.append((dict(base, kind='bad-recipient-result', value=sorted(set(per.values()))[0].split(':')[0]), desc))
    if mode == 'ok' and not accepted and not out:
        c = list(per.values())[0]
        if reply_hdr and reply_hdr[0] in '45' and reply_hdr != 'garbage':
            want = {'perm'} if reply_hdr[0] == '5' else {'temp'}
        else:
            want = {'perm'} if 400 <= status[0] < 500 else {'temp'}       # documented mapping without a reply header
        if c not in want:
            out.append((dict(base, kind='wrong-error-class', reported=c, expected=','.join(want)), desc))
    if mode in ('refused', 'drop', 'truncated', 'stall', 'late') and not out and not all(v == 'temp' for v in per.values()):
        out.append((dict(base, kind='wrong-error-class', reported=sorted(set(per.values()))[0], expected='temp'), desc))
    return out


def http_cases():
    for st in HTTP_STATUS:
        for rh in HTTP_REPLY:
            yield (st, rh, 'ok')
    for mode in ('refused', 'drop', 'truncated', 'stall', 'late'):
        yield (HTTP_STATUS[0], None, mode)


# ------------------------------------------------------------------ part D (mx)
def run_mx(case):
    resolver, attempts, rcpt = case
    import slimta.relay.smtp.mx as mx
    from slimta.util.dns import DNSError
    import pycares.errno as perr
    from gevent.event import AsyncResult
    from fakes.vsock import Net, VContext
    from fakes.downstream import ScriptedPeer
    connected = []
    res = {}

    class Stub(object):
        @classmethod
        def query(cls, name, qtype):
            r = AsyncResult()
            R = types.SimpleNamespace

            def fail(e):
                r.set_exception(DNSError(e))
            if resolver == 'mx3':
                if qtype == 'MX':
                    r.set([R(priority=20, host='mx2.%s' % name, ttl=300), R(priority=10, host='mx1.%s' % name, ttl=300),
                           R(priority=30, host='mx3.%s' % name, ttl=300)])
                else:
                    r.set([R(host='192.0.2.1', ttl=300)])
            elif resolver == 'a-only':
                if qtype == 'MX':
                    fail(perr.ARES_ENODATA)
                else:
                    r.set([R(host='192.0.2.1', ttl=300)])
            elif resolver == 'nothing':
                fail(perr.ARES_ENOTFOUND)
            elif resolver == 'error':
                fail(perr.ARES_ESERVFAIL)
            elif resolver == 'a-error':
                if qtype == 'MX':
                    fail(perr.ARES_ENODATA)
                else:
                    fail(perr.ARES_ETIMEOUT)
            elif resolver == 'a-empty':
                # no MX data, and an A answer that carries no record at all
                if qtype == 'MX':
                    fail(perr.ARES_ENODATA)
                else:
                    r.set([])
            elif resolver == 'mx-empty':
                r.set([])
            return r
    with World(Chooser()) as w:
        net = Net(w)
        w.patch(mx, 'DNSResolver', Stub)

        def creator(address):
            connected.append(address)
            c, s = net.pair(peername=address)
            p = ScriptedPeer(s, {})
            gevent.spawn(p.run)
            return c
        relay = mx.MxSmtpRelay(socket_creator=creator, ehlo_as='relay.test', context=VContext())
        env = make_envelope(0, 1)
        env.recipients = [rcpt]

        def go():
            try:
                res['outcome'] = ('returned', relay.attempt(env, attempts))
            except gevent.GreenletExit:
                raise
            except BaseException as e:
                res['outcome'] = ('raised', e)
        gevent.spawn(go)
        w.run_until_quiescent()
    return env, res.get('outcome'), connected


def judge_mx(case):
    resolver, attempts, rcpt = case
    env, outcome, connected = run_mx(case)
    per, whole = classify(outcome, env)
    base = {'part': 'mx', 'resolver': resolver}
    desc = 'resolver=%s attempts=%d rcpt=%r -> %s %r; connected to %r' % (resolver, attempts, rcpt, whole, per, connected)
    if whole == 'blocked':
        return [(dict(base, kind='attempt-never-returned'), desc)]
    if whole.startswith('raised:other'):
        return [(dict(base, kind='non-relay-exception', exception=whole.split(':')[-1]), desc)]
    c = list(per.values())[0]
    valid_domain = '@' in rcpt and rcpt.rsplit('@', 1)[1] != ''
    out = []
    if not valid_domain:
        if c != 'perm' or connected:
            out.append((dict(base, kind='unroutable-recipient-not-permanent', rcpt_class='no-domain' if '@' not in rcpt else 'empty-domain', reported=c), desc))
        return out
    domain = rcpt.rsplit('@', 1)[1].lower()
    if resolver == 'mx3':
        order = ['mx1.' + domain, 'mx2.' + domain, 'mx3.' + domain]
        want = order[attempts % 3]
        if c != 'delivered' or [h for h, p in connected] != [want]:
            out.append((dict(base, kind='wrong-mx-host', attempts=attempts), desc + ' (expected host %s)' % want))
    elif resolver == 'a-only':
        if c != 'delivered' or [h for h, p in connected] != [domain]:
            out.append((dict(base, kind='a-fallback', attempts=attempts), desc))
    elif resolver in ('nothing', 'a-empty', 'mx-empty'):
        if c != 'perm' or connected:
            out.append((dict(base, kind='no-records-not-permanent', reported=c), desc))
    else:
        if c != 'temp' or connected:
            out.append((dict(base, kind='resolver-error-not-transient', reported=c), desc))
    return out


def run_mx_seq(seq, gap, concurrent=False):
    """several attempts through ONE MxSmtpRelay object (its per-domain record cache lives across attempts): attempt k
    sees resolver behaviour seq[k]; ``gap`` virtual seconds between attempts, or all at once with a slow resolver."""
    import slimta.relay.smtp.mx as mx
    from slimta.util.dns import DNSError
    import pycares.errno as perr
    from gevent.event import AsyncResult
    from fakes.vsock import Net, VContext
    from fakes.downstream import ScriptedPeer
    connected = []
    outcomes = []
    phase = [0]
    with World(Chooser(), max_steps=5000) as w:
        net = Net(w)
        R = types.SimpleNamespace

        class Stub(object):
            @classmethod
            def query(cls, name, qtype):
                r = AsyncResult()
                how = seq[min(phase[0], len(seq) - 1)]

                def answer():
                    if how == 'mx3':
                        if qtype == 'MX':
                            r.set([R(priority=10, host='mx1.%s' % name, ttl=300)])
                        else:
                            r.set([R(host='192.0.2.1', ttl=300)])
                    elif how == 'a-only':
                        if qtype == 'MX':
                            r.set_exception(DNSError(perr.ARES_ENODATA))
                        else:
                            r.set([R(host='192.0.2.1', ttl=300)])
                    elif how == 'error':
                        r.set_exception(DNSError(perr.ARES_ETIMEOUT))
                    elif how == 'a-error':
                        r.set_exception(DNSError(perr.ARES_ENODATA if qtype == 'MX' else perr.ARES_ESERVFAIL))
                if concurrent:
                    gevent.spawn_later(2.0, answer)          # the answer takes two (virtual) seconds
                else:
                    answer()
                return r
        w.patch(mx, 'DNSResolver', Stub)

        def creator(address):
            connected.append(address)
            c, s_ = net.pair(peername=address)
            gevent.spawn(ScriptedPeer(s_, {}).run)
            return c
        relay = mx.MxSmtpRelay(socket_creator=creator, ehlo_as='relay.test', context=VContext())

        def one(k):
            env = make_envelope(k, 1)
            env.recipients = ['u%d@example.com' % k]
            try:
                o = ('returned', relay.attempt(env, 0))
            except gevent.GreenletExit:
                raise
            except BaseException as e:
                o = ('raised', e)
            outcomes.append((k, classify(o, env)))

        def driver():
            for k in range(len(seq)):
                phase[0] = k
                if concurrent:
                    gevent.spawn(one, k)
                else:
                    one(k)
                    gevent.sleep(gap)
        gevent.spawn(driver)
        w.run_until_quiescent()
    return sorted(outcomes), connected


def judge_mx_seq(case):
    seq, gap, concurrent = case
    outcomes, connected = run_mx_seq(list(seq), gap, concurrent)
    base = {'part': 'mx-sequence', 'concurrent': bool(concurrent)}
    desc = 'one MxSmtpRelay, resolver behaviour per attempt %r, %s: outcomes %r' % (
        list(seq), 'all attempts at once, answers after 2 s' if concurrent else '%g s between attempts' % gap, [(k, p) for k, (p, w_) in outcomes])
    out = []
    if len(outcomes) != len(seq):
        return [(dict(base, kind='attempt-never-returned'), desc)]
    cached = False
    for k, (per, whole) in outcomes:
        how = seq[k]
        c = list(per.values())[0]
        if whole.startswith('raised:other'):
            out.append((dict(base, kind='non-relay-exception', exception=whole.split(':')[-1]), desc))
            continue
        if how in ('mx3', 'a-only') or cached:
            if c != 'delivered':
                out.append((dict(base, kind='routable-domain-not-delivered', resolver=how, attempt=k, reported=c), desc))
            cached = True           # records with ttl 300 are good for the later attempts of this case
        elif c != 'temp':
            out.append((dict(base, kind='resolver-error-not-transient', resolver=how, attempt=k, reported=c), desc))
    return out


def mx_seq_cases():
    for seq in (('error', 'error'), ('error', 'mx3'), ('a-error', 'a-only'), ('a-error', 'a-error', 'mx3'), ('error', 'error', 'error'),
                ('mx3', 'error'), ('a-only', 'a-error')):
        for gap in (1.0, 40.0, 400.0):
            if seq[0] in ('mx3', 'a-only') and gap > 100:
                continue            # beyond the ttl the cache has expired; covered by the single-attempt cases
            yield (seq, gap, False)
    for seq in (('mx3', 'mx3'), ('a-only', 'a-only', 'a-only'), ('error', 'error')):
        yield (seq, 0.0, True)


def mx_cases():
    for resolver in ('mx3', 'a-only', 'nothing', 'error', 'a-error', 'a-empty', 'mx-empty'):
        for attempts in (0, 1, 2, 3):
            for rcpt in ('u@Example.com', 'nodomain', 'u@', '"a@b"@example.com'):
                yield (resolver, attempts, rcpt)


# ------------------------------------------------------------------ runner glue
def conformance_diff(wc, script, w):
    """the same script on real gevent sockets (real loop) must give what the in-memory run ``w`` gave"""
    from worlds.relay_world import run_on_real_sockets
    per_r, whole_r, acc_r = run_on_real_sockets(dict(wc, script=script))
    per_v, whole_v = classify(w.results[0]['outcome'], w.results[0]['env'])
    acc_v = set()
    for p in w.peers:
        acc_v |= set((a.decode('latin-1'), b.decode('latin-1')) for a, b in p.accepted())
    if (per_r, whole_r, acc_r) != (per_v, whole_v, acc_v):
        return 'script %r config %r: virtual (%r, %r, %r) real (%r, %r, %r)' % (script, wc, per_v, whole_v, sorted(acc_v), per_r, whole_r, sorted(acc_r))
    return None


def smtp_configs(tier):
    cfgs = []
    for lmtp in (False, True):
        for pl in (True, False):
            for n in (1, 2, 3):
                cfgs.append(dict(lmtp=lmtp, pipelining=pl, n=n, dev=2 if n <= 2 or tier == 'thorough' else 1))
    for lmtp in (False, True):
        cfgs.append(dict(lmtp=lmtp, n=2, tls='starttls', tls_required=True, dev=1 if tier == 'quick' else 2))
        cfgs.append(dict(lmtp=lmtp, n=2, tls='starttls', tls_required=False, dev=1))
        cfgs.append(dict(lmtp=lmtp, n=2, tls='starttls', auth=True, dev=1))
        for form in ('callable', 'authzid', 'mech-login'):
            cfgs.append(dict(lmtp=lmtp, n=1, tls='starttls', auth=True, cred_form=form, ehlo_callable=(form == 'callable'), dev=1))
        # AUTH lines that offer mechanisms the client does not implement, only such mechanisms, or none at all
        for line in ('AUTH GSSAPI PLAIN LOGIN', 'AUTH NTLM GSSAPI', 'AUTH', 'AUTH=PLAIN LOGIN'):
            cfgs.append(dict(lmtp=lmtp, n=1, tls='starttls', auth=line, dev=1 if line.endswith('LOGIN') else 0))
        cfgs.append(dict(lmtp=lmtp, n=1, tls='immediate', dev=1))
        cfgs.append(dict(lmtp=lmtp, n=2, connect='refused', dev=0))
        cfgs.append(dict(lmtp=lmtp, n=2, tls='starttls', tls_required=True, client_tls_fail=True, dev=0))
        cfgs.append(dict(lmtp=lmtp, n=2, envelopes=2, idle_timeout=5.0, dev=1, reuse=True))
        # pool of one: the second envelope waits for the connection while the first transaction is being wound up
        cfgs.append(dict(lmtp=lmtp, n=2, envelopes=2, idle_timeout=5.0, pool_size=1, dev=1, reuse=True))
        cfgs.append(dict(lmtp=lmtp, n=1, envelopes=2, idle_timeout=5.0, pool_size=1, pipelining=False, dev=1, reuse=True))
    return cfgs


def configs(tier, seed):
    cfgs = [{'part': 'A', 'i': i} for i in range(len(smtp_configs(tier)))]
    cfgs += [{'part': 'B', 'k': k, 'of': 4} for k in range(4)]
    cfgs += [{'part': 'C'}, {'part': 'D'}]
    return cfgs


def run_config(cfg, tier, seed):
    res = Result()
    if cfg['part'] == 'A':
        c = smtp_configs(tier)[cfg['i']]
        wc = {k: v for k, v in c.items() if k not in ('dev', 'reuse')}
        scripts = list(scripts_for(c, c['dev']))
        if c.get('reuse'):
            scripts = [{}]
            for s in stages(c):
                if s in ('banner', 'ehlo', 'quit'):
                    continue
                for o in OUTCOMES:
                    scripts.append({'%s@0' % s: o})
                    scripts.append({'%s@1' % s: o})
                if s not in ('rset',):
                    # the first transaction fails and the reply to its RSET arrives after the command timeout,
                    # while the second envelope is already waiting for the connection
                    for o in ('4', '5'):
                        scripts.append({'%s@0' % s: o, 'rset@0': ['delay', 12.0]})
                        scripts.append({'%s@0' % s: o, 'rset@0': ['trickle', 2.0]})
                        for s2 in stages(c):
                            if s2.startswith('eod') or s2 in ('mail', 'data'):
                                scripts.append({'%s@0' % s: o, 'rset@0': ['delay', 12.0], '%s@1' % s2: '5'})
        for i, script in enumerate(scripts):
            w = run_smtp(wc, script)
            res.evaluations += 1
            res.count('smtp_scripts')
            obs = tuple((classify(r['outcome'], r['env'])) for r in w.results)
            res.outcome(repr(obs))
            if script:
                res.interesting((cfg['i'], tuple(sorted(script.items()))))
            for sig, msg in judge_smtp(wc, script, w):
                res.violation(sig, msg, {'part': 'A', 'cfg': wc, 'script': script})
            if i % 400 == 7:
                res.sample({'part': 'A', 'config': wc, 'script': script, 'result': repr(obs)[:300]})
            # conformance of the in-memory sockets: replay on real gevent sockets and compare
            if not wc.get('tls') and not wc.get('envelopes') and not wc.get('auth') and i % (23 if tier == 'quick' else 5) == 3:
                res.traces_validated += 1
                res.count('real_socket_replays')
                diff = conformance_diff(wc, script, w)
                if diff:
                    res.violation({'part': 'conformance', 'kind': 'in-memory-socket-differs-from-real-socket'}, diff,
                                  {'part': 'A', 'cfg': wc, 'script': script, 'conformance': True})
    elif cfg['part'] == 'B':
        for i, case in enumerate(pipe_cases()):
            if i % cfg['of'] != cfg['k']:
                continue
            res.evaluations += 1
            res.count('pipe_cases')
            res.interesting(case)
            vs = judge_pipe(case)
            res.outcome(('pipe', case[0], case[2], repr(vs)[:80]))
            for sig, msg in vs:
                res.violation(sig, msg, {'part': 'B', 'case': list(case)})
        res.sample({'part': 'B', 'case': ['PipeRelay', None, 75, 3, 2, None]})
    elif cfg['part'] == 'C':
        for case in http_cases():
            res.evaluations += 1
            res.count('http_cases')
            res.interesting(case)
            vs = judge_http(case)
            res.outcome(('http', case, repr(vs)[:80]))
            for sig, msg in vs:
                res.violation(sig, msg, {'part': 'C', 'case': [list(case[0]), case[1], case[2]]})
        res.sample({'part': 'C', 'case': [404, None, 'ok']})
    else:
        for case in mx_cases():
            res.evaluations += 1
            res.count('mx_cases')
            res.interesting(case)
            vs = judge_mx(case)
            res.outcome(('mx', case, repr(vs)[:80]))
            for sig, msg in vs:
                res.violation(sig, msg, {'part': 'D', 'case': list(case)})
        res.sample({'part': 'D', 'case': ['mx3', 1, 'u@Example.com']})
        for case in mx_seq_cases():
            res.evaluations += 1
            res.count('mx_sequence_cases')
            res.interesting(('seq',) + case)
            vs = judge_mx_seq(case)
            res.outcome(('mx-seq', case, repr(vs)[:80]))
            for sig, msg in vs:
                res.violation(sig, msg, {'part': 'D', 'seq_case': [list(case[0]), case[1], case[2]]})
    return res.as_dict()


def vacuity(counters, tier):
    p = []
    for k, n in (('smtp_scripts', 3000), ('pipe_cases', 150), ('http_cases', 30), ('mx_cases', 60)):
        if counters.get(k, 0) < n:
            p.append('%s=%d' % (k, counters.get(k, 0)))
    return p


def replay(rep):
    if rep['part'] == 'A' and rep.get('conformance'):
        w = run_smtp(rep['cfg'], rep['script'])
        diff = conformance_diff(rep['cfg'], rep['script'], w)
        return (True, diff) if diff else (False, 'in-memory sockets and real sockets agree')
    if rep['part'] == 'A':
        w = run_smtp(rep['cfg'], rep['script'])
        vs = judge_smtp(rep['cfg'], rep['script'], w)
    elif rep['part'] == 'B':
        c = rep['case']
        vs = judge_pipe((c[0], c[1], c[2], c[3], c[4], c[5]))
    elif rep['part'] == 'C':
        c = rep['case']
        vs = judge_http((tuple(c[0]), c[1], c[2]))
    elif rep.get('seq_case'):
        c = rep['seq_case']
        vs = judge_mx_seq((tuple(c[0]), c[1], c[2]))
    else:
        vs = judge_mx(tuple(rep['case']))
    if vs:
        return True, vs[0][1]
    return False, 'relay result consistent with what the downstream accepted'
