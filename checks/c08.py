"""C08 -- nothing crosses the STARTTLS boundary; AUTH only when permitted.

Part S (server): session prefix x clear-text bytes injected behind the STARTTLS line (same recv()
segment or a later one) x TLS-channel script, on the real SmtpEdge/Server with a fake TLS that
keeps clear and TLS bytes in separate channels.  Metamorphic oracle: the TLS-phase replies and
callbacks equal those of the same run without injection (or there is no TLS phase at all); plus
absolute checks of the post-handshake reset.
Part C (client): real smtp.client.Client.starttls with reply bytes injected behind the 220.
Part A (AUTH): mechanism x argument shape x credentials x TLS mode x position x verdict against a
gating table taken from the property text.
"""
import base64
import email.utils
import hashlib
import hmac
import itertools

from slimta.smtp.client import Client
from slimta.smtp import ConnectionLost, BadReply

from engine.result import Result, b2s, s2b
from engine.seq import ScriptSocket, FixedCtl
from fakes.faketls import FakeContext
from worlds.edge_seq import EdgeRun
from worlds.server_world import reply_codes

PROPERTY = 'C08'
LEVEL = 'exploration'
EXHAUSTIVE = True
RULE = ('S: 4 session prefixes x 14 injected byte strings (thorough: + every ordered pair of 12 tokens) x {same segment, later segment, (thorough) split at every byte between the two} x 5 TLS-channel scripts '
        '(+ immediate TLS); C: 11 injected reply strings behind the 220; A: mechanisms {PLAIN, LOGIN, CRAM-MD5, unknown, '
        'none} x argument shapes {initial response, challenge/response, cancel, bad base64, empty, missing} x Unicode '
        'credentials (3 users x 3 secrets x 2 authzids; 7 x 8 x 2 in thorough) x TLS {off, STARTTLS, immediate} x position {before EHLO, normal, '
        'after success, inside a transaction} x validator verdict {accept, 535}.  Every combination is run on the real '
        'code; all are non-trivial except injection-free baselines.')
ASSUMPTIONS = ['fake TLS: clear and TLS bytes travel in separate channels; a handshake with unread clear-text bytes fails '
               '(as a real TLS handshake fed plaintext does)',
               'an empty authorization identity may be shown to the application as None, "" or the authentication identity',
               'AUTH with an "=" (empty) initial response only has to get a reply and keep the session alive']

EHLO = b'EHLO c\r\n'
PROBE = b'NOOP\r\n'
CONTENT = b'DATA\r\nSubject: s\r\n\r\nb\r\n.\r\n'

PREFIXES = {
    'ehlo': [EHLO],
    'ehlo+mail': [EHLO, b'MAIL FROM:<pre@x>\r\n'],
    'ehlo+mail+rcpt': [EHLO, b'MAIL FROM:<pre@x>\r\n', b'RCPT TO:<prer@y>\r\n'],
    'ehlo+auth': [EHLO, b'AUTH PLAIN ' + base64.b64encode(b'\x00u\x00p') + b'\r\n'],
}
INJECT = {
    'none': b'',
    'mail': b'MAIL FROM:<evil@x>\r\n',
    'half': b'MAIL FR',
    'ehlo+mail': b'EHLO evil\r\nMAIL FROM:<evil@x>\r\n',
    'ehlo': b'EHLO evil\r\n',
    'rcpt': b'RCPT TO:<evil@y>\r\n',
    'noop': b'NOOP\r\n',
}
# more single tokens, and (thorough) every ordered pair of tokens
TOKENS = {'mail': b'MAIL FROM:<evil@x>\r\n', 'ehlo': b'EHLO evil\r\n', 'rcpt': b'RCPT TO:<evil@y>\r\n', 'noop': b'NOOP\r\n',
          'quit': b'QUIT\r\n', 'data': b'DATA\r\n', 'rset': b'RSET\r\n', 'starttls': b'STARTTLS\r\n', 'auth': b'AUTH PLAIN AHUAcA==\r\n',
          'crlf': b'\r\n', '8bit': b'\xff\xfe\x00 junk\r\n', 'half': b'MAIL FR'}
for _k in ('quit', 'data', 'rset', 'starttls', 'auth', 'crlf', '8bit'):
    INJECT[_k] = TOKENS[_k]
INJECT_PAIRS = {}
for _a in TOKENS:
    for _b in TOKENS:
        if _a != 'half' and (_a + '+' + _b) not in INJECT:
            INJECT_PAIRS[_a + '+' + _b] = TOKENS[_a] + TOKENS[_b]


def injections(tier):
    if tier == 'thorough':
        INJECT.update(INJECT_PAIRS)
    return list(INJECT)


TLS_SCRIPTS = {
    'full': [b'EHLO t\r\n', b'MAIL FROM:<t@x>\r\n', b'RCPT TO:<r@y>\r\n', CONTENT, b'QUIT\r\n'],
    'mail-first': [b'MAIL FROM:<t@x>\r\n', b'RCPT TO:<r@y>\r\n', b'QUIT\r\n'],
    'continue': [b'RCPT TO:<r2@y>\r\n', CONTENT, b'QUIT\r\n'],
    'ehlo': [b'EHLO t\r\n', b'QUIT\r\n'],
    'noop': [b'NOOP\r\n', b'QUIT\r\n'],
}


def tls_view(run):
    """(TLS-phase output bytes, callbacks made while encrypted)."""
    out = b''.join(run.sock.out[i] for i in run.sock.tls_marks)
    cbs = tuple(t[1:] for t in run.trace if t[2])
    return out, cbs


def run_s(prefix, inj, place, script, tls='starttls'):
    if tls == 'immediate':
        clear = [INJECT[inj]] if INJECT[inj] else []
        r = EdgeRun(clear, auth=True, tls='immediate', tls_events=TLS_SCRIPTS[script])
        return r.run()
    clear = list(PREFIXES[prefix])
    if place == 'same':
        clear.append(b'STARTTLS\r\n' + INJECT[inj])
    elif place.startswith('split:'):
        k = int(place.split(':')[1])
        clear.append(b'STARTTLS\r\n' + INJECT[inj][:k])
        if INJECT[inj][k:]:
            clear.append(INJECT[inj][k:])
    else:
        clear.append(b'STARTTLS\r\n')
        if INJECT[inj]:
            clear.append(INJECT[inj])
    r = EdgeRun(clear, auth=True, tls='starttls', tls_events=TLS_SCRIPTS[script])
    return r.run()


def check_s(case, res):
    prefix, inj, place, script, tls = case
    viol = []
    a = run_s(prefix, inj, place, script, tls)
    b = run_s(prefix, 'none', place, script, tls)
    res.evaluations += 2
    va, vb = tls_view(a), tls_view(b)
    res.outcome((va, a.end))
    rep = {'part': 'S', 'case': list(case)}
    if va != vb and va != (b'', ()):
        ca, cb = reply_codes(va[0]), reply_codes(vb[0])
        viol.append(({'part': 'starttls-server', 'kind': 'clear-bytes-interpreted-after-handshake',
                      'placement': place, 'tls': tls},
                     'prefix %s, %r injected in clear (%s segment), TLS script %s: TLS-phase replies %r callbacks %r; '
                     'without injection: replies %r callbacks %r' % (prefix, INJECT[inj], place, script, ca, va[1], cb, vb[1]), rep))
    if inj == 'none' and tls == 'starttls':
        # absolute checks on the injection-free run
        codes = reply_codes(vb[0])
        cbs = [c for c in vb[1] if c[0] != 'TLS']
        names = [c[0] for c in cbs]
        if not codes:
            viol.append(({'part': 'starttls-server', 'kind': 'no-tls-phase'}, 'no TLS phase in the baseline run %r' % (case,), rep))
        elif script == 'mail-first':
            if codes[0][0] not in '45' or 'MAIL' in names:
                viol.append(({'part': 'starttls-server', 'kind': 'mail-without-ehlo-accepted-after-handshake'},
                             'prefix %s: MAIL right after the handshake got %r, callbacks %r' % (prefix, codes, cbs), rep))
        elif script == 'continue':
            if codes[0][0] not in '45' or 'RCPT' in names or 'HAVE_DATA' in names or 'HANDOFF' in names:
                viol.append(({'part': 'starttls-server', 'kind': 'transaction-survives-handshake', 'prefix': prefix},
                             'prefix %s: RCPT/DATA right after the handshake got %r, callbacks %r' % (prefix, codes, cbs), rep))
        elif script in ('ehlo', 'full'):
            # first TLS reply is the EHLO reply
            first = vb[0].split(b'\r\n250 ')[0] + b'\r\n250 ' + vb[0].split(b'\r\n250 ')[1].split(b'\r\n')[0] if b'\r\n250 ' in vb[0] else vb[0]
            if b'STARTTLS' in first.upper():
                viol.append(({'part': 'starttls-server', 'kind': 'starttls-still-offered'},
                             'EHLO after the handshake still lists STARTTLS: %r' % first, rep))
            if script == 'full':
                ho = [c for c in cbs if c[0] == 'HANDOFF']
                if len(ho) != 1 or ho[0][2] != 't@x' or ho[0][3] != ('r@y',):
                    viol.append(({'part': 'starttls-server', 'kind': 'handoff-envelope-after-handshake', 'prefix': prefix},
                                 'hand-off after TLS: %r (expected sender t@x, recipients (r@y,))' % (ho,), rep))
    return viol


# ---------------------------------------------------------------- client side
C_INJECT = {'none': b'', 'ehlo-reply': b'250-evil\r\n250 AUTH PLAIN\r\n', 'partial': b'250 o', 'error': b'550 5.0.0 no\r\n',
            'multi': b'250-evil\r\n', 'shutdown': b'421 4.3.2 going down\r\n', 'two': b'250 first\r\n250 second\r\n',
            'blank': b'\r\n', '8bit': b'\xff\xfe junk\r\n', 'challenge': b'334 VXNlcm5hbWU6\r\n', 'one-byte': b'2'}


def run_c(inj):
    lines = [b'220 mx ESMTP\r\n', b'250-mx\r\n', b'250-STARTTLS\r\n', b'250 PIPELINING\r\n', b'220 2.0.0 ready\r\n' + C_INJECT[inj]]
    cuts, p = [], 0
    for l in lines:
        p += len(l)
        cuts.append(p)
    tls_lines = [b'250-mx tls\r\n', b'250 SIZE 100\r\n', b'250 2.1.0 ok\r\n']
    q = p
    for l in tls_lines:
        q += len(l)
        cuts.append(q)
    sock = ScriptSocket(b''.join(lines), FixedCtl(cuts), tls_stream=b''.join(tls_lines))
    c = Client(sock, ('mx', 25))
    obs = []
    try:
        c.get_banner()
        c.ehlo('c')
        r = c.starttls(FakeContext())
        obs.append(('starttls', r.code, bool(c.io.encrypted)))
        e2 = c.ehlo('c')
        obs.append(('ehlo', e2.code, e2.message, tuple(sorted((k, str(v)) for k, v in c.extensions.extensions.items()))))
        m = c.mailfrom('a@x')
        c._flush_pipeline()
        obs.append(('mail', m.code, m.message))
    except (ConnectionLost, BadReply) as e:
        obs.append(('error', type(e).__name__))
    return tuple(obs), sock.sent()


def check_c(inj, res):
    a, b = run_c(inj), run_c('none')
    res.evaluations += 2
    res.outcome(a)
    viol = []
    failed = any(o[0] == 'error' for o in a[0]) or not a[0][0][2]
    if a != b and not failed:
        viol.append(({'part': 'starttls-client', 'kind': 'clear-reply-used-after-handshake'},
                     'server sent %r in clear behind its 220; after the handshake the client saw %r, sent %r; without '
                     'injection %r' % (C_INJECT[inj], a[0], a[1], b[0]), {'part': 'C', 'inj': inj}))
    return viol


# ---------------------------------------------------------------- AUTH gating
USERS = ['user', 'üsér', ' a b']
SECRETS = ['pw', 'pässwörd 密', 'p w\t']
USERS_T = USERS + ['u\u0000x'.replace('\u0000', '.'), 'ǅ\u200d𝕦', 'x' * 64, '"quoted"@d']
SECRETS_T = SECRETS + ['=', '*', ' lead', 'trail ', 'ünï\tcode']
ZIDS = ['', 'zid']
MSGID = '<test@example.com>'


def b64(s):
    return base64.b64encode(s if isinstance(s, bytes) else s.encode('utf-8'))


def auth_lines(mech, shape, user, secret, zid):
    """-> (list of client lines, kind) ; kind in valid|cancel|bad64|empty|missing|unknown"""
    if mech == 'none':
        return [b'AUTH\r\n'], 'missing'
    if mech == 'unknown':
        return ([b'AUTH FOO\r\n'] if shape == 'challenge' else [b'AUTH FOO bar\r\n']), 'unknown'
    if mech == 'PLAIN':
        tok = b64(zid.encode('utf-8') + b'\x00' + user.encode('utf-8') + b'\x00' + secret.encode('utf-8'))
        return {
            'initial': ([b'AUTH PLAIN ' + tok + b'\r\n'], 'valid'),
            'challenge': ([b'AUTH PLAIN\r\n', tok + b'\r\n'], 'valid'),
            'cancel': ([b'AUTH PLAIN\r\n', b'*\r\n'], 'cancel'),
            'bad64-initial': ([b'AUTH PLAIN !!!\r\n'], 'bad64'),
            'bad64': ([b'AUTH PLAIN\r\n', b'!!!\r\n'], 'bad64'),
            'empty-initial': ([b'AUTH PLAIN =\r\n'], 'empty'),
            'empty': ([b'AUTH PLAIN\r\n', b'\r\n'], 'empty'),
            # well-formed base64 whose content is not UTF-8
            'nonutf8-initial': ([b'AUTH PLAIN ' + b64(b'\x00\xff\xfeuser\x00pw') + b'\r\n'], 'nonutf8'),
            'nonutf8': ([b'AUTH PLAIN\r\n', b64(b'\x00user\x00\xc3\x28') + b'\r\n'], 'nonutf8'),
        }[shape]
    if mech == 'LOGIN':
        return {
            'challenge': ([b'AUTH LOGIN\r\n', b64(user) + b'\r\n', b64(secret) + b'\r\n'], 'valid'),
            'initial': ([b'AUTH LOGIN ' + b64(user) + b'\r\n', b64(secret) + b'\r\n'], 'valid'),
            'cancel': ([b'AUTH LOGIN\r\n', b64(user) + b'\r\n', b'*\r\n'], 'cancel'),
            'bad64': ([b'AUTH LOGIN\r\n', b'!!!\r\n'], 'bad64'),
            'bad64-initial': ([b'AUTH LOGIN !!!\r\n'], 'bad64'),
            'empty': ([b'AUTH LOGIN\r\n', b'\r\n', b'\r\n'], 'empty'),
            'empty-initial': ([b'AUTH LOGIN =\r\n'], 'empty'),
            'nonutf8-initial': ([b'AUTH LOGIN ' + b64(b'\xff\xfe') + b'\r\n', b64(secret) + b'\r\n'], 'nonutf8'),
            'nonutf8': ([b'AUTH LOGIN\r\n', b64(user) + b'\r\n', b64(b'p\xe9w') + b'\r\n'], 'nonutf8'),
        }[shape]
    if mech == 'CRAM-MD5':
        digest = hmac.new(secret.encode('utf-8'), MSGID.encode('ascii'), hashlib.md5).hexdigest()
        resp = b64(user.encode('utf-8') + b' ' + digest.encode('ascii'))
        return {
            'challenge': ([b'AUTH CRAM-MD5\r\n', resp + b'\r\n'], 'valid'),
            'cancel': ([b'AUTH CRAM-MD5\r\n', b'*\r\n'], 'cancel'),
            'bad64': ([b'AUTH CRAM-MD5\r\n', b'!!!\r\n'], 'bad64'),
            'empty': ([b'AUTH CRAM-MD5\r\n', b'\r\n'], 'empty'),
            'nonutf8': ([b'AUTH CRAM-MD5\r\n', b64(b'\xff\xfe ' + digest.encode('ascii')) + b'\r\n'], 'nonutf8'),
        }.get(shape, (None, None))
    raise ValueError(mech)


SHAPES = ['initial', 'challenge', 'cancel', 'bad64-initial', 'bad64', 'empty-initial', 'empty', 'nonutf8-initial', 'nonutf8']
# after-aborted-*: an earlier LOGIN exchange of the same session was given up after the user name (cancelled / bad base64)
POSITIONS = ['before-ehlo', 'after-helo', 'after-refused-ehlo', 'normal', 'after-success', 'after-success-ehlo', 'in-transaction', 'after-aborted-cancel', 'after-aborted-bad64', 'after-aborted-plain']


def auth_cases(tier):
    for tlsmode in ('off', 'starttls', 'immediate'):
        for pos in POSITIONS:
            for mech in ('PLAIN', 'LOGIN', 'CRAM-MD5', 'unknown', 'none'):
                for shape in SHAPES:
                    lines, kind = auth_lines(mech, shape, 'user', 'pw', '')
                    if lines is None or (mech in ('unknown',) and shape not in ('initial', 'challenge')) or \
                            (mech == 'none' and shape != 'initial'):
                        continue
                    if pos.startswith('after-aborted') and kind != 'valid':
                        continue
                    if kind == 'valid' and pos == 'normal':
                        big = tier == 'thorough' and mech != 'CRAM-MD5'
                        for u, s, z in itertools.product(USERS_T if big else USERS, SECRETS_T if big else SECRETS, ZIDS):
                            if z and mech != 'PLAIN':
                                continue
                            for verdict in ('accept', '535') + (('454', '534') if (u, s, z) == (USERS[0], SECRETS[0], '') else ()):
                                yield (tlsmode, pos, mech, shape, u, s, z, verdict)
                    else:
                        yield (tlsmode, pos, mech, shape, 'user', 'pw', '', 'accept')
                    if mech in ('PLAIN', 'LOGIN', 'CRAM-MD5') and shape in ('initial', 'challenge') and kind == 'valid':
                        for how in ('lower', 'mixed'):
                            yield (tlsmode, pos, mech, shape, 'user', 'pw', '', 'accept', how)


def recase(lines, how):
    """the AUTH verb and the mechanism name are case-insensitive: 'lower' / 'mixed' spellings of the first line"""
    if how == 'upper' or not lines:
        return lines
    first = lines[0]
    parts = first.rstrip(b'\r\n').split(b' ', 2)
    if how == 'lower':
        parts[:2] = [p.lower() for p in parts[:2]]
    else:
        parts[:2] = [bytes(c ^ 0x20 if (i % 2 and 65 <= c <= 90) else c for i, c in enumerate(p)) for p in parts[:2]]
    return [b' '.join(parts) + b'\r\n'] + list(lines[1:])


def run_a(case):
    tlsmode, pos, mech, shape, user, secret, zid, verdict = case[:8]
    lines, kind = auth_lines(mech, shape, user, secret, zid)
    lines = recase(lines, case[8] if len(case) > 8 else 'upper')
    v_auth = ('AUTH', verdict) if verdict != 'accept' else None
    body, verdicts = [], []

    def add(ev, v=None):
        body.append(ev)
        verdicts.append(v)

    if pos == 'after-refused-ehlo':
        add(EHLO, ('EHLO', '550'))        # the application refuses the greeting: the session is not greeted
    elif pos == 'after-helo':
        add(b'HELO c\r\n')               # a plain SMTP greeting: no extensions, so no AUTH either
    elif pos != 'before-ehlo':
        add(EHLO)
    if pos in ('after-success', 'after-success-ehlo'):
        d = hmac.new(b'pw0', MSGID.encode('ascii'), hashlib.md5).hexdigest()
        add(b'AUTH CRAM-MD5\r\n')
        add(b64(b'first ' + d.encode('ascii')) + b'\r\n')
        if pos == 'after-success-ehlo':
            add(EHLO)                      # a second EHLO resets the transaction, not the authentication
    if pos == 'in-transaction':
        add(b'MAIL FROM:<a@x>\r\n')
    if pos == 'after-aborted-cancel':
        for l in (b'AUTH LOGIN\r\n', b64('mallory') + b'\r\n', b'*\r\n'):
            add(l)
    elif pos == 'after-aborted-bad64':
        for l in (b'AUTH LOGIN\r\n', b64('mallory') + b'\r\n', b'abc\r\n'):        # 'abc': incorrect padding, not decodable
            add(l)
    elif pos == 'after-aborted-plain':
        for l in (b'AUTH PLAIN\r\n', b'*\r\n', b'AUTH CRAM-MD5\r\n', b'*\r\n'):
            add(l)
    first_auth_index = len(body)
    for l in lines:
        add(l, v_auth)
    if pos in ('normal', 'after-success', 'after-success-ehlo') or pos.startswith('after-aborted'):
        add(b'MAIL FROM:<after@x>\r\n')
    add(PROBE)
    probe_index = len(body) - 1
    mechs = [b'PLAIN', b'LOGIN', b'CRAM-MD5']
    if tlsmode == 'off':
        r = EdgeRun(body, verdicts, auth=mechs, tls='none')
        off = 0
    elif tlsmode == 'starttls':
        r = EdgeRun([EHLO, b'STARTTLS\r\n'], [None, None] + verdicts, auth=mechs, tls='starttls', tls_events=body)
        off = 2
    else:
        r = EdgeRun([], verdicts, auth=mechs, tls='immediate', tls_events=body)
        off = 0
    saved = email.utils.make_msgid
    email.utils.make_msgid = lambda *a, **k: MSGID
    try:
        r.run()
    finally:
        email.utils.make_msgid = saved
    return r, off, first_auth_index, probe_index, kind


def check_a(case, res):
    tlsmode, pos, mech, shape, user, secret, zid, verdict = case[:8]
    r, off, ai, pi, kind = run_a(case)
    res.evaluations += 1
    viol = []
    rep = {'part': 'A', 'case': list(case)}
    nlines = len(auth_lines(mech, shape, user, secret, zid)[0])
    first_codes, _ = r.event_view(off + ai)
    all_codes = []
    for k in range(ai, ai + nlines):
        c, _ = r.event_view(off + k)
        all_codes.extend(c or ())
    auth_cbs = [t for t in r.trace if t[1] == 'AUTH' and t[0] >= off + ai and t[0] < off + ai + nlines]
    probe_codes, _ = r.event_view(off + pi)
    alive = bool(probe_codes) and probe_codes[0] == '250'
    encrypted = tlsmode != 'off'
    res.outcome((tuple(all_codes), len(auth_cbs), alive, r.server.authed if r.server else None))

    def sig(k, **kw):
        d = {'part': 'auth', 'kind': k, 'mech': mech, 'position': pos}
        d.update(kw)
        return d

    desc = 'tls=%s position=%s AUTH %s shape=%s creds=%r verdict=%s: replies %r, AUTH callbacks %d, session alive %r' % (
        tlsmode, pos, mech, shape, (user, secret, zid), verdict, all_codes, len(auth_cbs), alive)
    if not first_codes:
        viol.append((sig('no-reply'), desc, rep))
        return viol
    refused = first_codes[0][0] in '45'
    success = '235' in all_codes
    plaintext = mech in ('PLAIN', 'LOGIN')
    must_refuse = None
    if pos in ('before-ehlo', 'after-helo', 'after-refused-ehlo'):
        must_refuse = 'auth-before-ehlo'
    elif pos in ('after-success', 'after-success-ehlo'):
        must_refuse = 'auth-after-success'
    elif pos == 'in-transaction':
        must_refuse = 'auth-inside-transaction'
    elif mech == 'unknown':
        must_refuse = 'unknown-mechanism'
    elif mech == 'none':
        must_refuse = 'missing-argument'
    elif plaintext and not encrypted:
        must_refuse = 'plaintext-mechanism-on-unencrypted-session'
    if must_refuse:
        if not refused or auth_cbs or success:
            viol.append((sig('not-refused', rule=must_refuse), desc, rep))
        if not alive and not (first_codes[0] in ('421',) and False):
            viol.append((sig('refusal-ends-session', rule=must_refuse), desc, rep))
        return viol
    # permitted context, known mechanism
    if kind == 'nonutf8':
        # credentials that are not text: an error reply, nothing shown to the application, and the session goes on
        final = all_codes[-1] if all_codes else None
        if auth_cbs or success or not (final and final[0] in '45'):
            viol.append((sig('malformed-accepted', shape=shape), desc, rep))
        if not alive:
            viol.append((sig('malformed-ends-session', shape=shape), desc, rep))
    elif kind in ('bad64', 'cancel'):
        final = all_codes[-1] if all_codes else None
        # Python's base64 decoder is lenient: '!!!' decodes to b'' and the exchange may simply go on with
        # another 334; the property only demands "an error reply rather than ending the session", so a
        # continued challenge is accepted for bad base64 -- a cancel ('*') must get the error reply.
        ok_final = final and (final[0] in '45' or (kind == 'bad64' and final == '334'))
        if auth_cbs or success or not ok_final:
            viol.append((sig('malformed-accepted', shape=shape), desc, rep))
        if not alive:
            viol.append((sig('malformed-ends-session', shape=shape), desc, rep))
    elif kind == 'empty':
        if not alive:
            viol.append((sig('malformed-ends-session', shape=shape), desc, rep))
        if success and verdict == 'accept' and auth_cbs:
            pass
    elif kind == 'valid':
        if len(auth_cbs) != 1:
            viol.append((sig('callback-count', shape=shape, n=len(auth_cbs)), desc, rep))
        else:
            creds = r.creds[-1]
            from pysasl.identity import ClearIdentity
            ok = creds.authcid == user
            if zid:
                ok = ok and creds.authzid == zid
            else:
                ok = ok and creds.authzid in (None, '', user)
            # PLAIN/LOGIN carry the secret itself: compare it exactly.  (verify() applies SASLprep, which rejects or
            # rewrites some code points -- that is pysasl's matching rule, not an alteration by slimta.)  CRAM-MD5
            # only carries a digest: verify() against the right and a wrong secret.
            raw = getattr(creds, '_secret', None)
            if raw is not None:
                ok = ok and raw == secret
            else:
                try:
                    ok = ok and bool(creds.verify(ClearIdentity(user, secret)))
                    ok = ok and not creds.verify(ClearIdentity(user, secret + 'x'))
                except Exception as e:
                    ok = False
            if not ok:
                viol.append((sig('credentials-altered', shape=shape), desc + ' creds shown: %r/%r' % (creds.authcid, creds.authzid), rep))
            authed = bool(r.server.authed)
            mta = r.mail_time_auth[-1] if r.mail_time_auth else 'no-mail'
            if verdict == 'accept':
                if not success or not authed or not mta or mta[0] != user:
                    viol.append((sig('accepted-but-not-authenticated', shape=shape), desc + ' authed=%r MAIL-time auth=%r' % (authed, mta), rep))
            else:
                if success or authed or mta not in (None,):
                    viol.append((sig('authenticated-without-acceptance', shape=shape), desc + ' authed=%r MAIL-time auth=%r' % (authed, mta), rep))
        if not alive:
            viol.append((sig('session-ended', shape=shape), desc, rep))
    return viol


# ---------------------------------------------------------------- runner glue
def s_cases(tier='quick'):
    injs = injections(tier)
    for prefix in PREFIXES:
        for inj in injs:
            places = ['same', 'later']
            if tier == 'thorough' and inj not in INJECT_PAIRS:
                places += ['split:%d' % k for k in range(1, len(INJECT[inj]))]
            elif tier == 'thorough':
                places += ['split:%d' % len(TOKENS[inj.split('+')[0]])]      # the cut between the two tokens
            for place in places:
                for script in TLS_SCRIPTS:
                    yield (prefix, inj, place, script, 'starttls')
    for inj in injs:
        for script in TLS_SCRIPTS:
            yield ('-', inj, 'same', script, 'immediate')


# ------------------------------------------------------------------ part T: the handshake never happens
def run_t(prefix, inj, place):
    """Virtual time, command timeout 11 s: the client sends STARTTLS (+ clear-text bytes, same or later segment), gets the
    220 and never starts the handshake.  -> (reply lines after the 220 to STARTTLS, callbacks after it, time the handler ended)"""
    import gevent
    import slimta.edge.smtp as edge_smtp
    from slimta.edge.smtp import SmtpEdge
    from slimta.smtp.server import Server
    from engine.core import Chooser
    from engine.vloop import World
    from fakes.vsock import Net, VContext
    from worlds.edge_seq import FakePtrLookup
    from slimta.edge.smtp import SmtpValidators
    rec = {'replies': [], 'cbs': [], 'end': None, 'exc': None}

    class V(SmtpValidators):
        def handle_ehlo(self, reply, ehlo_as):
            rec['cbs'].append(('EHLO', ehlo_as))

        def handle_mail(self, reply, sender, params):
            rec['cbs'].append(('MAIL', sender))

        def handle_rcpt(self, reply, rcpt, params):
            rec['cbs'].append(('RCPT', rcpt))

        def handle_tls(self):
            rec['cbs'].append(('TLS',))

    class NullQueue(object):
        def enqueue(self, envelope):
            return [(envelope, 'id')]
    with World(Chooser(), max_steps=5000) as w:
        net = Net(w)
        csock, ssock = net.pair()
        saved = edge_smtp.PtrLookup
        edge_smtp.PtrLookup = FakePtrLookup
        try:
            edge = SmtpEdge(None, NullQueue(), command_timeout=11.0, data_timeout=17.0, hostname='mx.test', context=VContext(),
                            validator_class=V, auth=True)

            def handler():
                try:
                    edge.handle(ssock, ('192.0.2.1', 4321))
                except gevent.GreenletExit:
                    raise
                except BaseException as e:
                    rec['exc'] = type(e).__name__
                rec['end'] = w.now
            gevent.spawn(handler)
            ssock.on_send = lambda sock, tag, data: rec['replies'].extend(
                (w.now, l.rstrip(b'\r')) for l in data.split(b'\n') if l.strip() and not data.startswith(b'\x16HELLO'))

            def client():
                for line in PREFIXES[prefix]:
                    csock.sendall(line)
                    for _ in range(20):
                        gevent.sleep(0)
                rec['mark'] = (len(rec['replies']), len(rec['cbs']))
                if place == 'same':
                    csock.sendall(b'STARTTLS\r\n' + INJECT[inj])
                else:
                    csock.sendall(b'STARTTLS\r\n')
                    for _ in range(20):
                        gevent.sleep(0)
                    if INJECT[inj]:
                        csock.sendall(INJECT[inj])
                # ... and never says hello
            gevent.spawn(client)
            w.run_until_quiescent()
        finally:
            edge_smtp.PtrLookup = saved
    nr, nc = rec.get('mark', (0, 0))
    return [l for t, l in rec['replies'][nr:]], rec['cbs'][nc:], rec['end'], rec['exc']


def check_t(case, res):
    prefix, inj, place = case
    replies, cbs, end, exc = run_t(prefix, inj, place)
    res.evaluations += 1
    res.outcome((tuple(l[:3] for l in replies), tuple(cbs), end is not None))
    viol = []
    rep = {'part': 'T', 'case': list(case)}
    desc = 'prefix %s, STARTTLS + %r (%s segment), the client never starts the handshake, command timeout 11 s: replies after the STARTTLS line %r, callbacks %r, handler ended at %r (%s)' % (
        prefix, INJECT[inj], place, replies, cbs, end, exc)
    after = replies[1:] if replies and replies[0].startswith(b'220') else replies
    if any(c[0] in ('EHLO', 'MAIL', 'RCPT') for c in cbs) or any(l[:1] in (b'2', b'3', b'5') for l in after):
        viol.append(({'part': 'starttls-server', 'kind': 'clear-bytes-interpreted-without-handshake', 'placement': place}, desc, rep))
    if any(c[0] == 'TLS' for c in cbs):
        viol.append(({'part': 'starttls-server', 'kind': 'session-counted-as-encrypted-without-handshake', 'placement': place}, desc, rep))
    if end is None:
        viol.append(({'part': 'starttls-server', 'kind': 'session-never-ended'}, desc, rep))
    return viol


def t_cases(tier):
    for prefix in PREFIXES:
        for inj in ('none', 'mail', 'ehlo+mail', 'ehlo', 'noop', 'half'):
            for place in ('same', 'later'):
                yield (prefix, inj, place)


def configs(tier, seed):
    cfgs = [{'part': 'T'}]
    cfgs += [{'part': 'S', 'k': k, 'of': 8} for k in range(8)]
    cfgs += [{'part': 'C'}]
    cfgs += [{'part': 'A', 'k': k, 'of': 23} for k in range(23)]
    return cfgs


def run_config(cfg, tier, seed):
    res = Result()
    if cfg['part'] == 'S':
        for i, case in enumerate(s_cases(tier)):
            if i % cfg['of'] != cfg['k']:
                continue
            if case[1] != 'none':
                res.interesting(case)
            for v in check_s(case, res):
                res.violation(*v)
            res.count('starttls_server_cases')
            if i % 50 == cfg['k']:
                res.sample({'part': 'S', 'prefix': case[0], 'injected': b2s(INJECT[case[1]]), 'placement': case[2], 'tls_script': case[3], 'mode': case[4]})
    elif cfg['part'] == 'T':
        for case in t_cases(tier):
            res.interesting(case)
            for v in check_t(case, res):
                res.violation(*v)
            res.count('handshake_never_started_cases')
        res.sample({'part': 'T', 'what': 'STARTTLS answered 220, clear-text bytes behind it, no handshake, command timeout'})
    elif cfg['part'] == 'C':
        for inj in C_INJECT:
            res.interesting(inj)
            for v in check_c(inj, res):
                res.violation(*v)
            res.count('starttls_client_cases')
        res.sample({'part': 'C', 'injected': [b2s(v) for v in C_INJECT.values()]})
    else:
        for i, case in enumerate(auth_cases(tier)):
            if i % cfg['of'] != cfg['k']:
                continue
            res.interesting(case)
            for v in check_a(case, res):
                res.violation(*v)
            res.count('auth_cases')
            if i % 211 == cfg['k']:
                res.sample({'part': 'A', 'case': case})
    return res.as_dict()


def vacuity(counters, tier):
    p = []
    for k, n in (('starttls_server_cases', 200), ('starttls_client_cases', 4), ('auth_cases', 500)):
        if counters.get(k, 0) < n:
            p.append('%s=%d' % (k, counters.get(k, 0)))
    return p


def replay(rep):
    res = Result()
    if rep['part'] == 'T':
        vs = check_t(tuple(rep['case']), res)
        if vs:
            return True, vs[0][1]
        return False, 'nothing sent in clear was interpreted; the session ended'
    if rep['part'] == 'S':
        INJECT.update(INJECT_PAIRS)
        vs = check_s(tuple(rep['case']), res)
    elif rep['part'] == 'C':
        vs = check_c(rep['inj'], res)
    else:
        vs = check_a(tuple(rep['case']), res)
    if vs:
        return True, vs[0][1]
    return False, 'no violation for this case'
