"""C03 -- settled recipients are never attempted again; one attempt in flight per message.

Queue world with a scripted relay answering per-recipient mappings over several retry rounds, on every
storage backend, with double announcements of an id (load() at start-up, storage wait() announcements
before/during/after an attempt, a retry becoming due, flush()).  Monitors: (a) every attempt's
recipient list is disjoint from the recipients already settled for that id and contains every
outstanding one; (b) attempts of one id never overlap.
"""
from engine.core import explore, Chooser
from engine.result import Result
from worlds.queue_world import QueueWorld

PROPERTY = 'C03'
LEVEL = 'model_checking'
EXHAUSTIVE = True
KINDS = ('settled-recipient-attempted-again', 'outstanding-recipient-omitted', 'two-attempts-in-flight')
MENU = dict(per_recipient=True, boom=False, reply_ok=False)

RULE = ('per configuration (backend x backoff 0|10 x recipients 1..3 x pools x announcement script): every per-recipient '
        'outcome history {ok,temp,perm}^n per round with <= dd non-default outcomes over up to 3 rounds x all loop-level '
        'schedules with <= d deviations (relay/storage completions, timers, driver flush/announce, slow get), states '
        'merged at quiescent points; monitors on every Relay.attempt call.  Non-trivial = execution in which an id is '
        'attempted at least twice after a recipient was settled, or an id is announced twice.')
ASSUMPTIONS = ['fake redis client / fake object store / in-memory FS', 'announcements through the storage wait() hook are '
               'injected by the driver for the dict backend; redis announces every write by itself']


def BOUNDS(tier):
    return {'recipients': '1..3' if tier == 'quick' else '1..4', 'rounds': 3, 'd': 2 if tier == 'quick' else 3,
            'dd': 3 if tier == 'quick' else 4}


def configs(tier, seed):
    q = tier == 'quick'
    cfgs = []
    for b in ('dict', 'shelf', 'disk', 'redis', 'cloud'):
        cfgs.append(dict(backend=b, backoff='r0x2', n=2, messages=1, d=1, dd=3 if q else 4, menu=MENU))
        cfgs.append(dict(backend=b, backoff='r10-20', n=2, messages=1, d=1 if q else 2, dd=3 if q else 4, menu=MENU))
        cfgs.append(dict(backend=b, backoff='r0x2', n=3, messages=1, d=0 if q else 1, dd=3, menu=MENU))
        if not q:
            cfgs.append(dict(backend=b, backoff='r10-20', n=4, messages=1, d=0, dd=3, menu=MENU))
            cfgs.append(dict(backend=b, backoff='r0x2', n=1, messages=1, d=2, dd=4, menu=MENU))
        cfgs.append(dict(backend=b, backoff='r0x2', n=2, messages=1, d=2 if q else 3, dd=2, menu=MENU, relay_pool=1, store_pool=None))
        if b in ('dict', 'disk'):
            # bounded store pool (redis/cloud park wait() in a slot of it for ever, a pool of one would accept nothing)
            cfgs.append(dict(backend=b, backoff='r0x2', n=2, messages=2, d=1 if q else 2, dd=2, menu=MENU, relay_pool=1, store_pool=1,
                             slow_ops=['get']))
            cfgs.append(dict(backend=b, backoff='r0x2', n=2, messages=2, d=1 if q else 2, dd=2, menu=MENU, store_pool=2,
                             slow_ops=['get', 'set_recipients_delivered']))
        else:
            cfgs.append(dict(backend=b, backoff='r0x2', n=2, messages=2, d=1, dd=2, menu=MENU, relay_pool=1, store_pool=3))
        # start-up load of a stored message (+ whatever the backend announces by itself)
        cfgs.append(dict(backend=b, backoff='r10', n=2, messages=0, prestored=1, d=2 if q else 3, dd=2, menu=MENU))
        if not q:
            cfgs.append(dict(backend=b, backoff='r10', n=2, messages=0, prestored=1, prestored_due=5.0, d=2, dd=2, menu=MENU))
        # flush while waiting for a retry / during an attempt
        cfgs.append(dict(backend=b, backoff='r10', n=2, messages=1, script=[['enqueue', 0], ['flush']], d=2 if q else 3, dd=2, menu=MENU))
        if not q:
            cfgs.append(dict(backend=b, backoff='r10', n=2, messages=1, script=[['enqueue', 0], ['flush'], ['flush']], d=2, dd=2, menu=MENU))
        cfgs.append(dict(backend=b, backoff='r0x2', n=2, messages=1, d=2 if q else 3, dd=2, menu=MENU, slow_ops=['get', 'set_recipients_delivered']))
    # wait() announcements of an id the queue already knows (driver-injected, dict backend) ...
    cfgs.append(dict(backend='dict', backoff='r10', n=2, messages=1, harness_wait=True, d=2 if q else 3, dd=2, menu=MENU,
                     script=[['enqueue', 0], ['announce', 0], ['announce', 0]]))
    cfgs.append(dict(backend='dict', backoff='r0x2', n=2, messages=0, prestored=1, harness_wait=True, d=2 if q else 3, dd=2, menu=MENU,
                     script=[['announce', 0], ['flush'], ['announce', 0]]))
    cfgs.append(dict(backend='dict', backoff='r10', n=2, messages=0, prestored=1, harness_wait=True, slow_ops=['get'], d=3, dd=1, menu=MENU,
                     script=[['announce', 0], ['announce', 0]]))
    # an announcement for a message whose attempt is running, with a storage read that outlasts the attempt
    for bo in ('r0x2', 'r10'):
        cfgs.append(dict(backend='dict', backoff=bo, n=2, messages=1, harness_wait=True, slow_ops=['get'], d=3, dd=1, menu=MENU,
                         script=[['enqueue', 0], ['announce', 0]]))
    cfgs.append(dict(backend='redis', backoff='r0x2', n=2, messages=1, redis_yields=['hmget'], d=3, dd=1, menu=MENU))
    # the storage announces a new message (redis: the write's own RPUSH) before the writer has got its reply
    cfgs.append(dict(backend='redis', backoff='r0x2', n=2, messages=1, redis_yields=['pipeline-reply'], d=3, dd=1, menu=MENU))
    cfgs.append(dict(backend='redis', backoff='r10', n=2, messages=2, redis_yields=['pipeline-reply'], d=2, dd=1, menu=MENU))
    # an announcement while the retry bookkeeping of a partly delivered message is still being written
    for bo in ('r0x2', 'r10'):
        cfgs.append(dict(backend='dict', backoff=bo, n=2, messages=1, harness_wait=True, slow_ops=['set_timestamp', 'set_recipients_delivered', 'increment_attempts'],
                         d=3, dd=2, menu=MENU, script=[['enqueue', 0], ['announce', 0]]))
    cfgs.append(dict(backend='redis', backoff='r0x2', n=2, messages=1, redis_yields=['hset', 'hincrby'], d=3, dd=2, menu=MENU))
    # a stored message that reaches the restarted queue twice, from the start-up listing and from a pending announcement,
    # with the round trips of either path taking their time
    cfgs.append(dict(backend='redis', backoff='r10', n=2, messages=0, prestored=1, redis_yields=['hget', 'hmget', 'blpop', 'keys'], d=3, dd=1, menu=MENU))
    # a bounded relay pool that is full while a second message is enqueued, and the storage announces that message meanwhile
    cfgs.append(dict(backend='dict', backoff='r0x2', n=2, messages=2, harness_wait=True, relay_pool=1, d=2, dd=2, menu=MENU,
                     script=[['enqueue', 0], ['enqueue', 1], ['announce', 1]]))
    # relays that answer with a sequence (list) instead of a mapping
    for b in ('dict', 'disk', 'shelf'):
        cfgs.append(dict(backend=b, backoff='r0x2', n=2, messages=1, d=0, dd=3, menu=dict(MENU, sequences=True)))
    cfgs.append(dict(backend='redis', backoff='r0x2', n=3, messages=1, d=0, dd=2, menu=dict(MENU, sequences=True)))
    # an announcement arriving while the removal of the settled message is still running
    cfgs.append(dict(backend='dict', backoff='r0x2', n=2, messages=1, harness_wait=True, slow_ops=['remove'], d=3, dd=1, menu=MENU,
                     script=[['enqueue', 0], ['announce', 0]]))
    cfgs.append(dict(backend='shelf', backoff='r10', n=2, messages=0, prestored=1, harness_wait=True, slow_ops=['remove'], d=3, dd=1, menu=MENU,
                     script=[['announce', 0], ['announce', 0]]))
    for b in ('shelf', 'disk'):
        cfgs.append(dict(backend=b, backoff='r0x2', n=2, messages=1, harness_wait=True, slow_ops=['get-late'], d=3, dd=1, menu=MENU,
                         script=[['enqueue', 0], ['announce', 0]]))
        cfgs.append(dict(backend=b, backoff='r10', n=2, messages=0, prestored=1, harness_wait=True, slow_ops=['get-late'], d=3, dd=1, menu=MENU,
                         script=[['announce', 0], ['announce', 0]]))
    for b in ('disk', 'redis'):
        cfgs.append(dict(backend=b, backoff='r0x2', n=3, messages=1, d=0, dd=3, menu=dict(MENU, reversed_maps=True)))
    # ... and by the cloud message queue
    cfgs.append(dict(backend='cloud', cloud_mq=True, backoff='r10', n=2, messages=1, d=2, dd=2, menu=MENU))
    cfgs.append(dict(backend='cloud', cloud_mq=True, backoff='r10', n=2, messages=0, prestored=1, d=2, dd=2, menu=MENU))
    return cfgs


def run_one(cfg, ch):
    cfg = dict(cfg)
    cfg['script'] = [tuple(a) for a in cfg['script']] if 'script' in cfg else None
    if cfg['script'] is None:
        del cfg['script']
    qw = QueueWorld(ch, cfg)
    obs = qw.run()
    return qw, obs


def signature(cfg, qw, kind):
    errs = sorted(set(e[0] for e in qw.errors))
    rounds = max([v['attempts'] for v in qw.ledger.values()] or [0])
    script = ','.join(a[0] for a in cfg.get('script', [])) or ('load' if cfg.get('prestored') else 'enqueue')
    marks = {}
    for e in qw.events:
        if e[1] == 'store' and e[2] == 'set_recipients_delivered':
            marks[e[3]] = marks.get(e[3], 0) + 1
    multi = max(marks.values() or [0]) >= 2
    return {'kind': kind, 'backend': cfg['backend'], 'exception': ','.join(errs) or 'none',
            'index_model': 'differs' if qw.index_model_differs else 'matches',
            'marking_rounds': 'multi' if multi else 'single', 'announce': script,
            'mq': bool(cfg.get('cloud_mq'))}


def run_config(cfg, tier, seed):
    res = Result()
    wcfg = {k: v for k, v in cfg.items() if k not in ('d', 'dd')}

    def run(ch):
        qw, obs = run_one(wcfg, ch)
        multi = [k for k, v in qw.ledger.items() if v['attempts'] >= 2 and (v['delivered'] or v['failed'])]
        if multi:
            res.interesting(obs)
            res.count('executions_with_reattempt_after_settlement')
        ann = [e for e in qw.events if e[1] == 'announce']
        if ann:
            res.count('executions_with_announcement')
        seen = set()
        for kind, detail in qw.violations:
            if kind not in KINDS or kind in seen:
                continue
            seen.add(kind)
            res.violation(signature(wcfg, qw, kind),
                          '%s; attempts=%r; greenlet errors=%r' % (detail, [(a['qid'][-2:] if a['qid'] else None, a['rcpts'], a['outcome']) for a in qw.attempts], qw.errors[:3]),
                          {'cfg': wcfg, 'choices': ch.choices})
        return obs
    st = explore(run, d=cfg['d'], dd=cfg['dd'], merge=True)
    res.add_stats(st)
    res.sample({'config': cfg, 'executions': st.executions, 'states': len(st.states)})
    return res.as_dict()


def vacuity(counters, tier):
    p = []
    if counters.get('executions_with_reattempt_after_settlement', 0) < 100:
        p.append('fewer than 100 executions re-attempting after a settlement')
    if counters.get('executions_with_announcement', 0) < 20:
        p.append('fewer than 20 executions with a wait() announcement')
    return p


def replay(rep):
    ch = Chooser(rep['choices'])
    qw, obs = run_one(rep['cfg'], ch)
    viols = [v for v in qw.violations if v[0] in KINDS]
    if viols:
        return True, '%s: %s' % viols[0]
    return False, 'no settled recipient re-attempted, no overlapping attempts: %r' % (obs[0],)
