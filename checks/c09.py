"""C09 -- server behaviour does not depend on how client bytes are segmented or pipelined.

Session byte streams are generated exhaustively from a small grammar (several transactions, empty
bodies, command-looking and dot-stuffed content, a lone dot behind a message, bodies over the SIZE
limit).  Every stream is fed to the real ``Server.handle`` over a scripted socket:
  quick    : one burst, byte by byte, line by line, every single cut; ALL segmentations
             (continuation-merged) for the single-transaction streams;
  thorough : ALL segmentations for every stream.
Oracle: exactly one observation (reply bytes, callback trace incl. content) per stream, and that
observation agrees with an independent reference parse of the byte stream.
"""
import itertools

from engine.result import Result, b2s, s2b
from engine.seq import ScriptSocket, AllSegmentations, FixedCtl
from refmodels.smtp_session import RefSession
from worlds.server_world import run_server, reply_codes

from fakes.faketls import FakeContext

PROPERTY = 'C09'
LEVEL = 'model_checking'
EXHAUSTIVE = True
SIZE_LIMIT = 30
NPART = 64

RULE = ('streams = EHLO, 1..2 transactions (MAIL, RCPT x1..2, DATA, body in {empty, x, dot-stuffed, '
        'command-looking lines, body + lone dot line behind it, over the SIZE limit}), optional RSET/NOOP '
        'between, QUIT or EOF (single-transaction streams also: bytes behind QUIT, EOF in the middle of a line), SIZE limit off/on; each explored under all segmentations (continuation-merged '
        're-execution of the real Server; a state is one recv() call keyed by bytes consumed, output so far '
        'and the canonicalised Python frames of the continuation).  Non-trivial = the stream pipelines more than '
        'one line per segment in at least one explored segmentation (all do) and contains a DATA phase.')
ASSUMPTIONS = ['continuation canonicaliser validated differentially on every 16th merged hit (not proved)',
               'messages whose content size is within 0..SIZE are expected to be accepted, messages whose content '
               'alone exceeds SIZE (from SIZE+1 on) to be refused with the rest of the message discarded']


def BOUNDS(tier):
    return {'transactions': 2, 'rcpts': 2, 'bodies': 11, 'size_limit': SIZE_LIMIT,
            'segmentations': 'all for single-transaction streams + burst/byte/line/1-cut for the rest' if tier == 'quick' else 'all'}


BODIES = {
    'empty': b'.\r\n',
    'x': b'x\r\n.\r\n',
    'dots': b'..hidden\r\n...\r\n.\r\n',
    'cmds': b'QUIT\r\nMAIL FROM:<evil>\r\n.\r\n',
    'x+dot': b'x\r\n.\r\n.\r\n',
    'big': b'A' * 20 + b'\r\nRCPT TO:<evil>\r\n' + b'B' * 20 + b'\r\n.\r\n',
    'blank-first': b'\r\n\r\nx\r\n \r\n.\r\n',
    'at-limit': b'C' * 28 + b'\r\n.\r\n',
    'limit+1': b'D' * 29 + b'\r\n.\r\n',
    'bare-cr': b'seen\r.\r\na\rb\r\n.\r\n',          # carriage returns inside a line, one directly before a dot
    'big-dot': b'A' * 20 + b'\r\n' + b'B' * 18 + b'.\r\nMAIL FROM:<evil@x>\r\n.end\r\n.\r\n',
}


def transaction(i, nr, body):
    s = b'MAIL FROM:<s%d@x>\r\n' % i
    for j in range(nr):
        s += b'RCPT TO:<r%d%d@y>\r\n' % (i, j)
    return s + b'DATA\r\n' + BODIES[body]


def all_streams():
    out = []
    for size in (None, SIZE_LIMIT):
        for end in (b'QUIT\r\n', b''):
            for b1 in BODIES:
                for n1 in (1, 2):
                    t1 = transaction(1, n1, b1)
                    out.append({'size': size, 'stream': b'EHLO c\r\n' + t1 + end, 'ntx': 1, 'desc': [b1, n1]})
                    if n1 == 1 and end:
                        # bytes behind QUIT, and a stream that ends in the middle of a line (the peer went away)
                        for tail in (b'QUIT\r\nNOOP\r\n', b'NOOP\r\nNOO', b'RSET\r\nQUIT'):
                            out.append({'size': size, 'stream': b'EHLO c\r\n' + t1 + tail, 'ntx': 1, 'desc': [b1, n1, b2s(tail)]})
                    for between in (b'', b'RSET\r\n', b'NOOP\r\n', b'  NOOP  \r\n \r\n'):
                        for b2 in BODIES:
                            t2 = transaction(2, 1, b2)
                            out.append({'size': size, 'stream': b'EHLO c\r\n' + t1 + between + t2 + end, 'ntx': 2,
                                        'desc': [b1, n1, b2s(between), b2]})
    # a STARTTLS that the application declines, commands pipelined behind it
    for size in (None, SIZE_LIMIT):
        for tail in (b'MAIL FROM:<s1@x>\r\nRCPT TO:<r10@y>\r\nDATA\r\nx\r\n.\r\nQUIT\r\n', b'NOOP\r\nQUIT\r\n', b'EHLO again\r\nMAIL FROM:<s1@x>\r\nQUIT\r\n'):
            out.append({'size': size, 'stream': b'EHLO c\r\nSTARTTLS\r\n' + tail, 'ntx': 1, 'desc': ['declined-starttls', b2s(tail)], 'decline': True})
    # a challenge/response authentication with its answer (and more commands) already on the way when the challenge goes out
    for tail in (b'NOOP\r\nQUIT\r\n', b'MAIL FROM:<s1@x>\r\nRCPT TO:<r10@y>\r\nDATA\r\nx\r\n.\r\nQUIT\r\n'):
        for answer in (b'dXNlciAwMDAw\r\n', b'*\r\n'):
            out.append({'size': None, 'stream': b'EHLO c\r\nAUTH CRAM-MD5\r\n' + answer + tail, 'ntx': 1,
                        'desc': ['auth-challenge', b2s(answer), b2s(tail)], 'decline': 'auth'})
    return out


def body_for(size, decline=False):
    def body(sock):
        if decline == 'auth':
            # authentication offered; the challenge is made the same in every run
            import email.utils
            saved = email.utils.make_msgid
            email.utils.make_msgid = lambda *a, **k: '<fixed@challenge.test>'
            try:
                trace, sent, end = run_server(sock, size_limit=size, auth=[b'CRAM-MD5', b'PLAIN'])
            finally:
                email.utils.make_msgid = saved
        elif decline:
            # STARTTLS is offered, the application declines it (454): the session stays in clear text and goes on
            trace, sent, end = run_server(sock, size_limit=size, verdict=lambda name, args: '454' if name == 'STARTTLS' else None,
                                          context=FakeContext(False))
        else:
            trace, sent, end = run_server(sock, size_limit=size)
        return (trace, sent, end)
    return body


def reference(stream, size):
    return RefSession(size_limit=size).run(stream)


def judge(stream, size, outs, decline=False):
    """-> list of (signature, message)."""
    v = []
    if decline:
        # no reference parse for this server configuration: one outcome under every segmentation, and the commands behind the
        # declined STARTTLS are answered
        if len(outs) != 1:
            a, b = sorted(outs, key=repr)[:2]
            v.append(({'kind': 'segmentation-dependent', 'what': 'auth-challenge' if decline == 'auth' else 'declined-starttls', 'size_limit': size is not None, 'toobig_involved': False},
                      '%d different outcomes for one stream; e.g. trace %r codes %r  VS  trace %r codes %r'
                      % (len(outs), a[0], reply_codes(a[1]), b[0], reply_codes(b[1]))))
        for o in sorted(outs, key=repr)[:1]:
            want = stream.count(b'\r\n') + 1 - (1 if b'DATA\r\nx\r\n.\r\n' in stream else 0)     # content line + dot line: one reply
            if len(reply_codes(o[1])) != want:
                v.append(({'kind': 'reference-mismatch', 'what': 'reply-count', 'size_limit': size is not None, 'oversize_body': False},
                          'expected %d replies (banner + one per command / message), got %r' % (want, reply_codes(o[1]))))
        return v
    ref_trace, ref_codes = reference(stream, size)
    big = size is not None and b'AAAA' in stream
    if len(outs) != 1:
        traces = set(o[0] for o in outs)
        kind = 'callbacks-differ' if len(traces) > 1 else 'replies-differ'
        too_big = any(any(e[0] == 'HAVE_DATA' and e[2] == 'MessageTooBig' for e in o[0]) for o in outs)
        a, b = sorted(outs, key=repr)[:2]
        v.append(({'kind': 'segmentation-dependent', 'what': kind, 'size_limit': size is not None,
                   'toobig_involved': too_big},
                  '%d different outcomes for one stream; e.g. trace %r codes %r  VS  trace %r codes %r'
                  % (len(outs), a[0], reply_codes(a[1]), b[0], reply_codes(b[1]))))
    for o in sorted(outs, key=repr)[:2]:
        trace = tuple(e for e in o[0] if e[0] not in ('CLOSE', 'TLSHANDSHAKE'))
        codes = reply_codes(o[1])
        if trace != ref_trace:
            extra = [e for e in trace if e not in ref_trace]
            missing = [e for e in ref_trace if e not in trace]
            kind = 'content-executed-as-command' if any(e[0] in ('MAIL', 'RCPT', 'QUIT') for e in extra) else \
                ('content-wrong' if any(e[0] == 'HAVE_DATA' for e in extra) else 'callbacks-differ')
            v.append(({'kind': 'reference-mismatch', 'what': kind, 'size_limit': size is not None, 'oversize_body': big},
                      'callback trace %r differs from the reference parse %r' % (trace, ref_trace)))
            break
        if tuple(c[0] for c in codes) != tuple(c[0] for c in ref_codes):
            v.append(({'kind': 'reference-mismatch', 'what': 'reply-classes', 'size_limit': size is not None, 'oversize_body': big},
                      'reply codes %r differ in class from the reference %r' % (codes, ref_codes)))
            break
    return v


def explore_stream(item, res, full):
    stream, size = item['stream'], item['size']
    body = body_for(size, item.get('decline', False))
    outs = set()
    n = len(stream)
    if full:
        ex = AllSegmentations(body, stream)
        outs |= ex.explore()
        res.evaluations += ex.execs
        res.states += len(ex.memo)
        res.transitions += ex.transitions
        res.traces_validated += ex.validated
        res.count('streams_all_segmentations')
        if ex.capped:
            res.caps.append('transition cap on a stream')
        if ex.validation_failures:
            res.count('merge_validation_failed')
            full = False
    if not full:
        modes = ['all', 'byte', 'line'] + [[c] for c in range(1, n)]
        for mode in modes:
            outs.add(body(ScriptSocket(stream, FixedCtl(mode))))
            res.evaluations += 1
            res.transitions += 1
        res.states += n
        res.count('streams_cut_bounded')
    for o in outs:
        res.outcome((o[0], reply_codes(o[1])))
    res.interesting(stream)
    return outs


def configs(tier, seed):
    items = all_streams()
    full = [i for i, it in enumerate(items) if tier == 'thorough' or it['ntx'] == 1]
    rest = [i for i, it in enumerate(items) if not (tier == 'thorough' or it['ntx'] == 1)]
    cfgs = [{'idx': [i], 'full': True} for i in full]
    cfgs += [{'idx': rest[k::16], 'full': False} for k in range(16) if rest[k::16]]
    return cfgs


def run_config(cfg, tier, seed):
    res = Result()
    items = all_streams()
    for i in cfg['idx']:
        item = items[i]
        full = cfg['full']
        outs = explore_stream(item, res, full)
        for sig, msg in judge(item['stream'], item['size'], outs, item.get('decline', False)):
            res.violation(sig, 'stream %r SIZE=%r: %s' % (item['stream'], item['size'], msg),
                          {'stream': b2s(item['stream']), 'size': item['size'], 'full': full, 'decline': item.get('decline', False)})
        if i % 101 == 0:
            res.sample({'stream': b2s(item['stream']), 'size_limit': item['size'], 'all_segmentations': full})
    return res.as_dict()


def vacuity(counters, tier):
    if counters.get('streams_all_segmentations', 0) < 10:
        return ['fewer than 10 streams explored under all segmentations']


def replay(rep):
    res = Result()
    item = {'stream': s2b(rep['stream']), 'size': rep['size'], 'decline': rep.get('decline', False)}
    outs = explore_stream(item, res, rep.get('full', True))
    vs = judge(item['stream'], item['size'], outs, item['decline'])
    if vs:
        return True, vs[0][1]
    return False, 'one outcome under every explored segmentation, equal to the reference parse'
