"""C18 -- PROXY protocol headers are parsed exactly and never over-read.

The three real mix-ins (``ProxyProtocolV1``, ``ProxyProtocolV2``, auto-detecting
``ProxyProtocol``) sit in front of a stub ``EdgeServer`` and are driven only through their public
``handle(sock, addr)``.  ``sock`` is a scripted socket: every ``recv_into`` asks the explorer how
many of the requested-and-available bytes to hand out (choice 0 = all, any other choice = a short
read, kind 'sched').  The stub handler records the address it is given and how many bytes of the
stream had been consumed at that moment, then reads the rest as payload.

Oracle: ``refmodels/proxyproto.py`` -- a strict three-valued parser written from the PROXY spec
(well-formed -> exact address and exact consumption; malformed -> "invalid" address, or dropped
for LOCAL, within 107 / 16+declared bytes; lenient spellings -> don't care, bound only).

Short-read patterns: mode 'all' explores ALL segmentations (the size of every read is a 'data'
choice, enumerated without a budget).  It is made finite by merging on the canonicalised
continuation: the key of a choice point is (bytes consumed, request size, and every *live*
bytes/int/bytearray/str/None local of every frame between ``handle`` and ``recv_into`` plus the
bytecode offsets) -- whatever the parser can still do depends on nothing else, and the key is
computed from the running frames (liveness by a data-flow pass over the bytecode, exception edges
included), not assumed.  Mode 'bounded' (a read larger than 48 bytes is expected: UNIX blocks, large
declared lengths) bounds the number of short reads (d, 'sched' deviations) and, for requests above
16 bytes, offers the sizes {1..4, half, n-4..n-1}; it adds the one-byte-at-a-time pattern.

Findings on the unmodified library are reported under three signatures (see message texts):
exception:ValueError / v1-bad-ip (a NUL byte inside a v1 address reaches inet_pton), and
accepted-malformed / v2-bad-command, v2-bad-protocol (unassigned command or transport nibbles,
which the spec tells receivers to reject, yield the decoded address instead of the invalid one).
"""
import itertools
import struct
import sys

from slimta.edge import EdgeServer
from slimta.util import proxyproto as pp

from engine.core import explore, Chooser, Prune, Horizon, HarnessError
from engine.result import Result, b2s, s2b
from refmodels import proxyproto as ref

PROPERTY = 'C18'
LEVEL = 'exploration'
EXHAUSTIVE = True

ALL = 10 ** 6                      # deviation bound standing for "unbounded"
NOLIMIT = 10 ** 9
CORRUPT = [0x00, 0x20, 0x0d, 0x0a, 0x30, 0x39, 0x58, 0xff]
GARBAGE = [b'P', b'R', b' ', b'\r', b'\n', b'\x00']
PAY_EHLO = b'EHLO x\r\n'
PAY_PROXY = b'PROXY TCP4 9.9.9.9 8.8.8.8 9 8\r\nMAIL\r\n'
PAY_CRLF = b'\r\nQUIT\r\n'
PAY_V2 = ref.V2SIG + b'\x21\x11\x00\x0c' + b'\x09' * 12 + b'X\r\n'
PAYLOADS = [PAY_EHLO, PAY_PROXY, PAY_CRLF, b'', PAY_V2]

RULE = ('base headers: v1 TCP4/TCP6 with every address of a boundary list x every port of a boundary '
        'list (source side and destination side), UNKNOWN with/without text up to the 107 byte maximum '
        'and beyond; v2 {PROXY,LOCAL} x {INET,INET6,UNIX,UNSPEC} x {STREAM,DGRAM,(UNSPEC)} x declared '
        'length {exact, exact+1..8 TLV bytes, 0, exact-1} plus boundary addresses; each x every payload of '
        'the payload list x the mix-ins that apply (v1/auto, v2/auto; cross-fed to the wrong fixed-version '
        'mix-in as malformed input); v1 lines with ports/addresses just outside the field ranges and small '
        'deviations from the grammar.  Derived inputs: every single-byte corruption (every position x 8 '
        'values) and every truncation of the corruption bases; every value 0..255 of v2 bytes 12..15; '
        'every declared length (quick 0..320 + boundaries, thorough 0..65535) per family, complete and cut '
        'one byte short; every string of length <= 4 over {P,R,SP,CR,LF,NUL} x tails {EOF, payload, 130 '
        'bytes without CRLF, completions to a valid v1 / v2 header}; thorough: every double corruption in '
        'the signature region.  Each input x short-read patterns: ALL segmentations (continuation-merged) '
        'unless a read exceeds 48 bytes, then <= d short reads + one-byte-at-a-time.  A case is non-trivial '
        'when it is corrupted, truncated, garbage, a boundary value or has a non-default length field.')
ASSUMPTIONS = [
    'recv_into/recv on the scripted socket return between 1 and min(requested, available) bytes, 0 at EOF, '
    'and never fail (socket errors and timeouts are C14)',
    'the wrapped handler is observed through EdgeServer.handle(sock, addr) of a stub edge built as '
    'class V1Edge(ProxyProtocolV1, StubEdge); listener=None',
    'the module attributes unknown_pp_source_address / invalid_pp_source_address (both (None, None) by default) are set to two '
    'different values for the run, as an operator may do',
    'merging of read patterns relies on the canonical key of all bytes/int locals and bytecode offsets of '
    'the parser frames at each recv_into; state kept elsewhere (there is none in the module) would not be seen',
    'spellings that the spec forbids but int()/inet_pton accept, family/protocol pairs outside the spec\'s '
    'list of valid combinations, unparseable TLV areas and LOCAL headers with an unfitting address block '
    'are don\'t-care (only the consumption bound and "no exception" are required)',
    'for reads larger than 16 bytes in bounded mode the short-read sizes are {1..4, n//2, n-4..n-1}',
]


def BOUNDS(tier):
    q = tier == 'quick'
    return {'corruption_values': ['0x%02x' % c for c in CORRUPT],
            'corruption_bases': {'v1': len(corr1_bases()), 'v2': len(corr2_bases())},
            'base_headers': {'v1': len(v1_bases()), 'v2': len(v2_bases())},
            'payloads': [b2s(p) for p in PAYLOADS],
            'payloads_for_corrupted_headers': 'one of 2, alternating' if q else 'all %d' % len(PAYLOADS),
            'v2_corruption_bases_used': len(QUICK_CORR2) if q else len(corr2_bases()),
            'truncations': 'every prefix of every base header' + (' (UNIX: of the corruption bases)' if q else ''),
            'all_256_values': 'v2 bytes 12,13 of %d bases' % (4 if q else 6) + (' and 14,15 of one' if q else ' and 14,15'),
            'near_boundary_v1_lines': len(near1_lines()),
            'short_reads': {'small reads (<=48 bytes)': 'all segmentations',
                            'large reads, derived inputs': 'd=%d, sizes {1..4,half,n-4..n-1} above 16 bytes, + one '
                                                           'byte at a time' % (1 if q else 3),
                            'large reads, base headers': 'd=2, same sizes, + one byte at a time' if q
                                                         else 'all segmentations'},
            'declared_lengths': '0..320 + boundaries' if q else '0..65535',
            'garbage': 'all strings len<=4 over {P,R,SP,CR,LF,NUL} x 5 tails x 3 mix-ins',
            'double_corruptions': 'none' if q else 'first 8 bytes (v1/auto) and first 12 bytes (v2/auto), 8x8 values'}


# ---------------------------------------------------------------------------- system under test

class StubEdge(EdgeServer):
    def __init__(self):
        super(StubEdge, self).__init__(None, None, hostname='c18.stub')

    def handle(self, sock, addr):
        sock.enter_handler(addr)


class V1Edge(pp.ProxyProtocolV1, StubEdge):
    pass


class V2Edge(pp.ProxyProtocolV2, StubEdge):
    pass


class AutoEdge(pp.ProxyProtocol, StubEdge):
    pass


_EDGE_CLASSES = {'v1': V1Edge, 'v2': V2Edge, 'auto': AutoEdge}
_EDGES = {}
# The two fall-back addresses are documented module attributes for the operator to set; by default both are (None, None) and
# could not be told apart at the handler.  The check gives them different values so that "malformed header -> the invalid
# address" and "well-formed PROXY UNKNOWN / LOCAL / UNSPEC -> the unknown address" are two observable things.
pp.invalid_pp_source_address = ('invalid.pp.test', 0)
pp.unknown_pp_source_address = ('unknown.pp.test', 0)
INVALID = pp.invalid_pp_source_address
UNKNOWN_ADDR = pp.unknown_pp_source_address


def get_edge(mixin):
    e = _EDGES.get(mixin)
    if e is None:
        e = _EDGES[mixin] = _EDGE_CLASSES[mixin]()
    return e


_OPTS = {}


def options(m, wide):
    """sizes a read of at most m (>= 2) bytes may return; index 0 = everything, then descending
    (the depth-first explorer then reaches every position by a short prefix)."""
    k = (m, wide >= m)
    o = _OPTS.get(k)
    if o is None:
        if wide >= m:
            o = list(range(m, 0, -1))
        else:
            o = [m] + sorted(set(x for x in (1, 2, 3, 4, m // 2, m - 4, m - 3, m - 2, m - 1) if 1 <= x < m), reverse=True)
        _OPTS[k] = o
    return o


def _canon(v):
    t = type(v)
    if t is bytes or t is int or t is str or t is bool or v is None:
        return v
    if t is bytearray:
        return bytes(v)
    if t is memoryview:
        return ('mv', len(v))
    if t is tuple:
        return tuple(_canon(x) for x in v)
    return None


_LIVE = {}
_USES = ('LOAD_FAST', 'LOAD_FAST_CHECK', 'LOAD_FAST_AND_CLEAR', 'DELETE_FAST')
_DEFS = ('STORE_FAST',)
_STOPS = ('RETURN_VALUE', 'RETURN_CONST', 'RAISE_VARARGS', 'RERAISE')
_GOTOS = ('JUMP_FORWARD', 'JUMP_BACKWARD', 'JUMP_BACKWARD_NO_INTERRUPT', 'JUMP_ABSOLUTE', 'JUMP')


def live_after(code, lasti):
    """Names of the local variables that may still be read after the call executing at bytecode
    offset ``lasti`` returns or raises (classic backward liveness over the control-flow graph,
    exception-table edges included).  Locals that are dead (written before any further read, as
    the scratch variables of the previous loop iteration are) cannot influence the continuation
    and are left out of the merge key.  Unknown situations fall back to "everything is live"."""
    k = (code, lasti)
    if k in _LIVE:
        return _LIVE[k]
    import dis
    try:
        ins = list(dis.get_instructions(code))
        index = {i.offset: n for n, i in enumerate(ins)}
        handlers = [(e.start, e.end, e.target) for e in dis._parse_exception_table(code)]
        succ = []
        for n, i in enumerate(ins):
            s = []
            if i.opcode in dis.hasjrel or i.opcode in dis.hasjabs:
                s.append(index[i.argval])
                if i.opname not in _GOTOS and n + 1 < len(ins):
                    s.append(n + 1)
            elif i.opname not in _STOPS and n + 1 < len(ins):
                s.append(n + 1)
            for a, b, t in handlers:
                if a <= i.offset < b:
                    s.append(index[t])
            succ.append(s)
        live_in = [frozenset()] * len(ins)
        changed = True
        while changed:
            changed = False
            for n in range(len(ins) - 1, -1, -1):
                i = ins[n]
                out = frozenset().union(*[live_in[m] for m in succ[n]]) if succ[n] else frozenset()
                if i.opname in _DEFS:
                    new = out - {i.argval}
                elif i.opname in _USES:
                    new = out | {i.argval}
                else:
                    new = out
                if new != live_in[n]:
                    live_in[n] = new
                    changed = True
        at = max(n for n, i in enumerate(ins) if i.offset <= lasti)
        out = frozenset().union(*[live_in[m] for m in succ[at]]) if succ[at] else frozenset()
        # cell / free variables are never analysed: always live
        res = frozenset(out) | frozenset(code.co_cellvars) | frozenset(code.co_freevars)
    except Exception:
        res = None
    _LIVE[k] = res
    return res


def frame_key(pos, nbytes, vlen):
    """Canonical continuation: every simple *live* local of every frame from the caller of
    recv_into up to (not including) execute(), with the bytecode offsets."""
    parts = [pos, nbytes, vlen]
    f = sys._getframe(3)
    while f is not None and f.f_code is not _EXECUTE_CODE:
        live = live_after(f.f_code, f.f_lasti)
        items = []
        for k, v in f.f_locals.items():
            if live is not None and k not in live:
                continue
            c = _canon(v)
            if c is not None or v is None:
                items.append((k, c))
        parts.append((f.f_code.co_name, f.f_lasti, tuple(items)))
        f = f.f_back
    return tuple(parts)


class ScriptSock(object):
    def __init__(self, stream, ch, wide, onebyte=False, keyed=True, kind='sched'):
        self.kind = kind
        self.stream = stream
        self.pos = 0
        self.ch = ch
        self.wide = wide
        self.onebyte = onebyte
        self.keyed = keyed
        self.reads = []
        self.short = 0
        self.in_handler = False
        self.calls = 0
        self.addr = None
        self.at_call = None
        self.payload = None

    def fileno(self):
        return -1

    def getpeername(self):
        return ('192.0.2.1', 4321)

    def _pick(self, m, nbytes, vlen):
        if m == 1 or self.in_handler:
            return m
        if self.onebyte:
            self.short += 1
            return 1
        opts = options(m, self.wide)
        ch = self.ch
        key = None
        if self.keyed and len(ch.points) >= len(ch.prefix):
            key = frame_key(self.pos, nbytes, vlen)
        k = opts[ch.choose(len(opts), 'recv', self.kind, key)]
        if k != m:
            self.short += 1
        return k

    def recv_into(self, view, nbytes=0, flags=0):
        vlen = len(view)
        if not nbytes:
            nbytes = vlen
        if nbytes > vlen:
            raise ValueError('buffer too small for requested bytes')
        m = min(nbytes, len(self.stream) - self.pos)
        if m <= 0:
            self.reads.append(0)
            return 0
        k = self._pick(m, nbytes, vlen)
        view[0:k] = self.stream[self.pos:self.pos + k]
        self.pos += k
        self.reads.append(k)
        return k

    def recv(self, n, flags=0):
        m = min(n, len(self.stream) - self.pos)
        if m <= 0:
            self.reads.append(0)
            return b''
        k = self._pick(m, n, n)
        out = self.stream[self.pos:self.pos + k]
        self.pos += k
        self.reads.append(k)
        return out

    def close(self):
        pass

    def enter_handler(self, addr):
        self.calls += 1
        if self.calls == 1:
            self.addr = addr
            self.at_call = self.pos
            self.in_handler = True
            chunks = []
            while True:
                c = self.recv(65536)
                if not c:
                    break
                chunks.append(c)
            self.payload = b''.join(chunks)


def execute(mixin, stream, ch, wide, onebyte=False, keyed=True, kind='sched'):
    """One execution of the real handle().  Returns (observation, sock)."""
    sock = ScriptSock(stream, ch, wide, onebyte, keyed, kind)
    try:
        get_edge(mixin).handle(sock, ('192.0.2.1', 4321))
    except (Prune, Horizon, HarnessError, KeyboardInterrupt, MemoryError):
        raise
    except BaseException as e:
        return ('exc', type(e).__name__, str(e)[:120], sock.pos, sock.calls), sock
    if sock.calls:
        return ('called', sock.addr, sock.at_call, sock.payload, sock.calls), sock
    return ('dropped', sock.pos), sock


_EXECUTE_CODE = execute.__code__


# ---------------------------------------------------------------------------- oracle

def same(a, b):
    if type(a) is not type(b):
        return False
    if type(a) is tuple:
        return len(a) == len(b) and all(same(x, y) for x, y in zip(a, b))
    return a == b


def judge(v, obs, stream):
    """None, or (kind, text): the first way in which the observation breaks the property."""
    tag = obs[0]
    if tag == 'exc':
        return ('exception:' + obs[1], '%s(%r) escaped handle() after %d bytes (handler called %d time(s)); '
                'only the invalid address / LOCAL drop are documented outcomes' % (obs[1], obs[2], obs[3], obs[4]))
    consumed = obs[2] if tag == 'called' else obs[1]
    if tag == 'called' and obs[4] != 1:
        return ('handler-called-repeatedly', 'wrapped handler called %d times' % obs[4])
    if v.status == 'wellformed':
        if consumed > v.hlen:
            return ('over-read', 'well-formed %d byte header, but %d bytes were consumed when the handler '
                    'was %s' % (v.hlen, consumed, 'called' if tag == 'called' else 'skipped'))
        if consumed < v.hlen:
            return ('under-read', 'well-formed %d byte header, but only %d bytes were consumed' % (v.hlen, consumed))
        if v.local:
            if tag != 'dropped':
                return ('local-not-dropped', 'well-formed LOCAL header: handler called with %r' % (obs[1],))
            return None
        if tag != 'called':
            return ('dropped-not-local', 'well-formed non-LOCAL header but the handler was never called')
        want = [UNKNOWN_ADDR if a == ref.UNKNOWN else a for a in v.src]
        if not any(same(obs[1], w) for w in want):
            return ('wrong-address', 'handler got %r, header encodes source %r' % (obs[1], want))
        if obs[3] != stream[v.hlen:]:
            return ('payload-damaged', 'payload seen by handler %r != %r' % (obs[3][:40], stream[v.hlen:][:40]))
        return None
    if consumed > v.limit:
        return ('over-read', '%s input: %d bytes consumed, limit is %d' % (v.status, consumed, v.limit))
    if tag == 'dropped':
        if not v.local:
            return ('dropped-not-local', '%s input without LOCAL command: handler never called' % v.status)
        return None
    if v.status == 'malformed' and not same(obs[1], INVALID):
        return ('accepted-malformed', 'malformed header (%s) but handler got %r instead of the invalid '
                'address %r' % (v.cls, obs[1], INVALID))
    return None


def core_outcome(obs):
    if obs[0] == 'called':
        return ('called', obs[1])
    if obs[0] == 'exc':
        return obs[:2]
    return ('dropped',)


def make_replay(mixin, stream, choices, wide, onebyte, reads):
    return {'mixin': mixin, 'stream': b2s(stream), 'choices': list(choices), 'wide': wide,
            'onebyte': bool(onebyte), 'reads': list(reads)}


def check_input(res, mixin, stream, mode, interesting=True, sample_tag=None):
    """Explore every read pattern of ``mode`` = (d, wide, onebyte) for one input."""
    d, wide, onebyte = mode
    v = ref.PARSERS[mixin](stream)
    res.count('inputs')
    res.count('inputs_' + v.status)
    if interesting:
        res.interesting((mixin, stream) if interesting is True else interesting)
    cores = {}
    keyed = d > 0

    def tally(obs, sock):
        if sock.short:
            res.count('execs_with_short_read')
        if obs[0] == 'dropped':
            res.count('obs_dropped')
        elif obs[0] == 'called':
            if v.status == 'wellformed':
                res.count('obs_exact_address' if v.src != [ref.UNKNOWN] else 'obs_unknown_address')
            elif same(obs[1], INVALID):
                res.count('obs_invalid_address')
            else:
                res.count('obs_lenient_accepted')
        bad = judge(v, obs, stream)
        if bad is not None:
            sig = {'mixin': mixin, 'kind': bad[0], 'input_class': v.cls}
            res.violation(sig, 'mixin=%s stream=%r reads=%r: %s [reference: %r]'
                          % (mixin, stream[:160], sock.reads[:40], bad[1], v),
                          make_replay(mixin, stream, sock.ch.choices, wide, sock.onebyte, sock.reads))
        cores.setdefault(core_outcome(obs), (list(sock.ch.choices), sock.onebyte, list(sock.reads)))

    # all segmentations: the read size is enumerated exhaustively as 'data' (not counted against a
    # deviation budget, so a state is expanded once); bounded: a short read is a 'sched' deviation
    kind = 'data' if d == ALL else 'sched'

    def run(ch):
        obs, sock = execute(mixin, stream, ch, wide, False, keyed, kind)
        ch.sock = sock
        return obs

    # the unchanged parser needs < 1000 executions per input; a parser whose outcome depends on the read pattern
    # stops merging and would explode -- cap it (the divergence is reported long before the cap)
    st = explore(run, d=0 if d == ALL else d, dd=None, merge=keyed, on_result=lambda ch, obs: tally(obs, ch.sock), max_exec=6000)
    res.add_stats(st)
    if onebyte:
        ch = Chooser()
        obs, sock = execute(mixin, stream, ch, wide, True, False)
        res.evaluations += 1
        res.outcome(obs)
        tally(obs, sock)
    if len(cores) > 1 and v.status != 'dontcare':
        (c1, p1), (c2, p2) = sorted(cores.items(), key=repr)[:2]
        rep = make_replay(mixin, stream, p1[0], wide, p1[1], p1[2])
        rep['other'] = {'choices': p2[0], 'onebyte': p2[1], 'reads': p2[2]}
        res.violation({'mixin': mixin, 'kind': 'read-pattern-dependent', 'input_class': v.cls},
                      'mixin=%s stream=%r: outcome %r with reads %r but %r with reads %r'
                      % (mixin, stream[:160], c1, p1[2][:40], c2, p2[2][:40]), rep)
    if sample_tag is not None:
        res.sample({'case': sample_tag, 'mixin': mixin, 'stream': b2s(stream[:200]), 'reference': repr(v),
                    'executions': st.executions, 'states': len(st.states),
                    'outcomes': [repr(c)[:120] for c in cores]})
    return v, st


# ---------------------------------------------------------------------------- input families

A4 = ['0.0.0.0', '255.255.255.255', '1.2.3.4', '10.0.0.1', '192.168.100.200', '127.0.0.1']
A6 = ['::', '::1', '1::', 'ffff:ffff:ffff:ffff:ffff:ffff:ffff:ffff', '2001:db8::1', 'FE80::ABCD',
      '1:2:3:4:5:6:7:8', '0:0:0:0:0:0:0:1', '2001:0db8:0000:0000:0000:0000:0000:0001', '::ffff:0:1']
PORTS = [0, 1, 9, 10, 80, 255, 256, 9999, 10000, 65534, 65535]
PORTS6 = [0, 1, 65535]
FULL6 = 'ffff:ffff:ffff:ffff:ffff:ffff:ffff:ffff'

_CACHE = {}


def _cached(fn):
    def wrapper():
        if fn.__name__ not in _CACHE:
            _CACHE[fn.__name__] = fn()
        return _CACHE[fn.__name__]
    wrapper.__name__ = fn.__name__
    return wrapper


@_cached
def v1_bases():
    out = []
    for a in A4:
        for p in PORTS:
            out.append(('tcp4-src', ref.build_v1('TCP4', a, '10.0.0.1', p, 25)))
            out.append(('tcp4-dst', ref.build_v1('TCP4', '1.2.3.4', a, 1025, p)))
    for a in A6:
        for p in PORTS6:
            out.append(('tcp6-src', ref.build_v1('TCP6', a, '::1', p, 25)))
            out.append(('tcp6-dst', ref.build_v1('TCP6', '2001:db8::2', a, 1025, p)))
    out.append(('tcp6-max', ref.build_v1('TCP6', FULL6, FULL6, 65535, 65535)))
    tail107 = (' %s %s 65535 65535' % (FULL6, FULL6)).encode('ascii')
    unknown_tails = [b'', b' ', b' foo', b' foo bar baz 1 2', tail107, b' a\rb\nc \r', b' \xff\xfe\x00', b' \r',
                     b' ' + b'u' * 91,      # 107 bytes in all
                     b' ' + b'u' * 90,      # 106
                     b' ' + b'u' * 92]      # 108: CRLF ends at 108 -> over-long, malformed
    for t in unknown_tails:
        out.append(('unknown', ref.build_v1('UNKNOWN', tail=t)))
    assert len(ref.build_v1('UNKNOWN', tail=tail107)) == 107
    seen, uniq = set(), []
    for tag, h in out:
        if h not in seen:
            seen.add(h)
            uniq.append((tag, h))
    return uniq


@_cached
def corr1_bases():
    tail107 = (' %s %s 65535 65535' % (FULL6, FULL6)).encode('ascii')
    return [ref.build_v1('TCP4', '0.0.0.0', '0.0.0.0', 0, 0),
            ref.build_v1('TCP4', '255.255.255.255', '255.255.255.255', 65535, 65535),
            ref.build_v1('TCP4', '10.0.0.1', '192.168.100.200', 1, 65534),
            ref.build_v1('TCP4', '1.2.3.4', '5.6.7.8', 99, 9),
            ref.build_v1('TCP6', '::', '::1', 0, 1),
            ref.build_v1('TCP6', FULL6, FULL6, 65535, 65535),
            ref.build_v1('TCP6', '2001:db8::1', 'FE80::ABCD', 1025, 25),
            ref.build_v1('UNKNOWN'),
            ref.build_v1('UNKNOWN', tail=tail107),
            ref.build_v1('UNKNOWN', tail=b' foo bar')]


@_cached
def near1_lines():
    """v1 lines with values just outside (and, for contrast, just inside) the field boundaries and
    the small syntactic deviations around the grammar."""
    out = []
    ports = ['65535', '65536', '65537', '70000', '99999', '100000', '655350', '-1', '-0', '+1', '00', '01', '065535',
             '1_0', '', '0x10', '1e3', '1.0', '٣', ' 1']
    for p in ports:
        out.append(('PROXY TCP4 1.2.3.4 5.6.7.8 %s 25\r\n' % p).encode('utf-8'))
        out.append(('PROXY TCP6 ::1 ::2 1025 %s\r\n' % p).encode('utf-8'))
    ip4 = ['255.255.255.255', '256.0.0.0', '0.0.0.256', '1.2.3', '1.2.3.4.5', '1..2.3', '1.2.3.4.', '.1.2.3.4', '01.2.3.4',
           '1.2.3.04', '0x1.2.3.4', '1.2.3.4a', '', '::1', '1.2.3.-4', '999.1.1.1', '1.2.3.1000']
    for a in ip4:
        out.append(('PROXY TCP4 %s 5.6.7.8 1 2\r\n' % a).encode('ascii'))
        out.append(('PROXY TCP4 1.2.3.4 %s 1 2\r\n' % a).encode('ascii'))
    ip6 = [':::', '1:2:3:4:5:6:7', '1:2:3:4:5:6:7:8:9', '12345::', 'g::', '::ffff:1.2.3.4', '1:2:3:4:5:6:7::',
           '::1:2:3:4:5:6:7', '1:2:3:4::5:6:7:8', '1::2::3', ':1', '1:', '1.2.3.4', '', '::ffff', 'FFFF::', '0::0',
           '1:2:3:4:5:6:7:8::', '::1:2:3:4:5:6:7:8', '00001::']
    for a in ip6:
        out.append(('PROXY TCP6 %s ::1 1 2\r\n' % a).encode('ascii'))
        out.append(('PROXY TCP6 ::1 %s 1 2\r\n' % a).encode('ascii'))
    good = b'TCP4 1.2.3.4 5.6.7.8 1 2'
    out += [b'PROXY TCP5 1.2.3.4 5.6.7.8 1 2\r\n', b'PROXY tcp4 1.2.3.4 5.6.7.8 1 2\r\n', b'PROXY TCP 1.2.3.4 5.6.7.8 1 2\r\n',
            b'PROXY TCP44 1.2.3.4 5.6.7.8 1 2\r\n', b'PROXY UNKNOW\r\n', b'PROXY UNKNOWNS\r\n', b'PROXY unknown\r\n',
            b'PROXY TCP4 1.2.3.4 5.6.7.8 1\r\n', b'PROXY TCP4 1.2.3.4 5.6.7.8\r\n', b'PROXY TCP4\r\n', b'PROXY \r\n',
            b'PROXY\r\n', b'PROXY TCP4 1.2.3.4 5.6.7.8 1 2 3\r\n', b'PROXY TCP4 1.2.3.4 5.6.7.8 1 2 \r\n',
            b'PROXY  ' + good + b'\r\n', b'PROXY\t' + good + b'\r\n', b'proxy ' + good + b'\r\n', b' PROXY ' + good + b'\r\n',
            b'PROXY ' + good + b'\n', b'PROXY ' + good + b'\r', b'PROXY ' + good + b'\n\r', b'PROXY ' + good + b'\r\r\n',
            b'PROXY ' + good + b' \r\n', b'PROXY TCP4  1.2.3.4 5.6.7.8 1 2\r\n', b'PROXY TCP4 1.2.3.4\t5.6.7.8 1 2\r\n',
            b'PROXY TCP6 1.2.3.4 5.6.7.8 1 2\r\n', b'PROXY TCP4 ::1 ::2 1 2\r\n', b'PROXY TCP4 1.2.3.4 ::2 1 2\r\n',
            b'PROXZ ' + good + b'\r\n', b'\r\nPROXY ' + good + b'\r\n', b'PROXY ' + good + b'\x00\r\n']
    return out


INET_VARIANTS = [('1.2.3.4', 258, '5.6.7.8', 25), ('0.0.0.0', 0, '0.0.0.0', 0),
                 ('255.255.255.255', 65535, '255.255.255.255', 65535), ('10.0.0.1', 1, '127.0.0.1', 65534)]
INET6_VARIANTS = [('2001:db8::1', 258, '2001:db8::2', 25), ('::', 0, '::', 0),
                  (FULL6, 65535, FULL6, 65535), ('::1', 1, '1::', 65534)]
UNIX_VARIANTS = [(b'/tmp/src.sock', b'/tmp/dst.sock'), (b'', b''), (b'S' * 108, b'D' * 108), (b'a\x00b', b'c')]


def _block(fam, variant=0):
    if fam == 1:
        return ref.inet_block(*INET_VARIANTS[variant])
    if fam == 2:
        return ref.inet6_block(*INET6_VARIANTS[variant])
    if fam == 3:
        return ref.unix_block(*UNIX_VARIANTS[variant])
    return b''


def v2_header(cmd, fam, proto, lenmode, variant=0):
    """lenmode: 'exact' | ('tlv', k) | 'zero' | 'short1' | ('junk', n)"""
    blk = _block(fam, variant)
    if lenmode == 'exact':
        return ref.build_v2(cmd, fam, proto, blk)
    if lenmode == 'zero':
        return ref.build_v2(cmd, fam, proto, b'')
    if lenmode == 'short1':
        return ref.build_v2(cmd, fam, proto, blk[:-1])
    if lenmode[0] == 'tlv':
        return ref.build_v2(cmd, fam, proto, blk + ref.tlv_bytes(lenmode[1]))
    if lenmode[0] == 'junk':
        return ref.build_v2(cmd, fam, proto, blk + b'\x5a' * lenmode[1])
    raise ValueError(lenmode)


@_cached
def v2_bases():
    out = []
    lenmodes = ['exact'] + [('tlv', k) for k in range(1, 9)] + ['zero', 'short1']
    for cmd in (1, 0):
        for fam in (1, 2, 3, 0):
            for proto in ((1, 2) if fam else (0, 1, 2)):
                for lm in lenmodes:
                    if fam == 0 and lm in ('zero', 'short1'):
                        continue
                    out.append(('%s-%s-%d-%s' % ('proxy' if cmd else 'local', ref.FAM_NAME[fam], proto, lm),
                                v2_header(cmd, fam, proto, lm)))
    for fam in (1, 2, 3):
        for var in (1, 2, 3):
            out.append(('proxy-%s-1-variant%d' % (ref.FAM_NAME[fam], var), v2_header(1, fam, 1, 'exact', var)))
    out.append(('proxy-unspec-0-junk12', v2_header(1, 0, 0, ('junk', 12))))
    seen, uniq = set(), []
    for tag, h in out:
        if h not in seen:
            seen.add(h)
            uniq.append((tag, h))
    return uniq


# quick: INET x4, INET6 {exact, LOCAL}, UNIX {exact, +3 TLV}, UNSPEC x5
QUICK_CORR2 = (0, 1, 2, 3, 4, 7, 8, 9, 12, 13, 14, 15, 16)


@_cached
def corr2_bases():
    out = []
    for fam in (1, 2, 3, 0):
        out.append(v2_header(1, fam, 1 if fam else 0, 'exact'))
        out.append(v2_header(1, fam, 1 if fam else 0, ('tlv', 3)))
        out.append(v2_header(1, fam, 2 if fam else 0, ('tlv', 8)))
        out.append(v2_header(0, fam, 1 if fam else 0, 'exact'))
    out.append(v2_header(1, 0, 0, ('junk', 12)))
    return out


def is_big(mixin, stream):
    """cost heuristic only: will a single read of more than 48 bytes be requested?"""
    if mixin == 'v1' or len(stream) < 16 or stream[:4] != b'\r\n\r\n':
        return False
    return struct.unpack('!H', stream[14:16])[0] > 48


def derived_payloads(tier):
    return [PAY_EHLO, PAY_PROXY] if tier == 'quick' else PAYLOADS


def len_values(tier):
    if tier != 'quick':
        return range(0, 65536)
    s = set(range(0, 321))
    for b in (511, 512, 513, 1023, 1024, 4095, 4096, 4097, 32767, 32768, 65279, 65280, 65534, 65535):
        s.add(b)
    return sorted(s)


def len_block(fam, n):
    blk = _block(fam, 0)
    if n <= len(blk):
        return blk[:n]
    return blk + ref.tlv_bytes(n - len(blk))


def gen(family, tier):
    """yield (mixin, stream, hint, interesting) ; hint in {'', 'base', 'len'}"""
    if family == 'base1':
        for tag, h in v1_bases():
            for pay in PAYLOADS:
                for mx in ('v1', 'auto'):
                    yield mx, h + pay, 'base', not (tag == 'tcp4-src' and b' 80 ' in h and pay == PAY_EHLO)
    elif family == 'base2':
        for tag, h in v2_bases():
            for pay in PAYLOADS:
                for mx in ('v2', 'auto'):
                    yield mx, h + pay, 'base', not (tag == 'proxy-inet-1-exact' and pay == PAY_EHLO)
    elif family == 'near1':
        for h in near1_lines():
            for mx in ('v1', 'auto'):
                yield mx, h + PAY_EHLO, '', True
    elif family == 'cross':
        for tag, h in v1_bases()[::7]:
            yield 'v2', h + PAY_EHLO, '', True
            yield 'v2', h, '', True
        for tag, h in v2_bases()[::5]:
            yield 'v1', h + PAY_EHLO, '', True
            yield 'v1', h + b'Z' * 130, '', True
            yield 'v1', h, '', True
    elif family in ('corrupt1', 'corrupt2'):
        if family == 'corrupt1':
            bases, mixins = corr1_bases(), ('v1', 'auto')
        else:
            bases, mixins = corr2_bases(), ('v2', 'auto')
            if tier == 'quick':
                bases = [h for n, h in enumerate(bases) if n in QUICK_CORR2]
        pays = derived_payloads(tier)
        for h in bases:
            for i in range(len(h)):
                for n, c in enumerate(CORRUPT):
                    if h[i] == c:
                        continue
                    hh = h[:i] + bytes([c]) + h[i + 1:]
                    # quick: one payload per corrupted header, alternating; thorough: every payload
                    for pay in ([pays[(i + n) % len(pays)]] if tier == 'quick' else pays):
                        for mx in mixins:
                            yield mx, hh + pay, '', True
    elif family in ('trunc1', 'trunc2'):
        bases, mixins = (v1_bases(), ('v1', 'auto')) if family == 'trunc1' else (v2_bases(), ('v2', 'auto'))
        seen = set()
        full = set(corr2_bases())
        for tag, h in bases:
            if tier == 'quick' and len(h) > 100 and h not in full:
                continue                  # quick: UNIX headers are truncated for the corruption bases only
            for n in range(0, len(h)):
                p = h[:n]
                if p in seen:
                    continue
                seen.add(p)
                for mx in mixins:
                    yield mx, p, '', True
    elif family == 'garbage':
        inet = v2_header(1, 1, 1, 'exact')
        tails = [b'', PAY_EHLO, b'Z' * 130, b'OXY UNKNOWN\r\n' + PAY_EHLO, inet[4:] + PAY_EHLO]
        for n in range(0, 5):
            for tup in itertools.product(GARBAGE, repeat=n):
                g = b''.join(tup)
                for t in tails:
                    if tier == 'quick' and n == 4 and len(t) == 130:
                        continue
                    for mx in ('v1', 'v2', 'auto'):
                        yield mx, g + t, '', True
    elif family == 'bytes2':
        for fam, lm in (((1, 'exact'), (2, 'exact'), (3, 'exact'), (0, 'exact')) if tier == 'quick' else
                        ((1, 'exact'), (2, 'exact'), (3, 'exact'), (0, 'exact'), (1, ('tlv', 3)), (0, ('junk', 12)))):
            h = v2_header(1, fam, 1 if fam else 0, lm)
            for i in ((12, 13, 14, 15) if (tier != 'quick' or (fam, lm) == (1, 'exact')) else (12, 13)):
                for c in range(256):
                    if h[i] == c:
                        continue
                    hh = h[:i] + bytes([c]) + h[i + 1:]
                    for mx in ('v2', 'auto'):
                        yield mx, hh + PAY_EHLO, '', True
    elif family == 'len2':
        for cmd, fam in ((1, 1), (1, 2), (1, 3), (1, 0), (0, 0), (0, 1)):
            for n in len_values(tier):
                h = ref.build_v2(cmd, fam, 1 if fam else 0, len_block(fam, n))
                mx = 'v2' if (n + fam) % 2 == 0 else 'auto'
                yield mx, h + PAY_EHLO, 'len', ('len2', mx, cmd, fam, n, 'complete')
                if n > 0:
                    yield mx, h[:-1], 'len', ('len2', mx, cmd, fam, n, 'cut')
    elif family in ('double1', 'double2'):
        if family == 'double1':
            bases, mixins, region = [corr1_bases()[2], corr1_bases()[7]], ('v1', 'auto'), 8
        else:
            bases, mixins, region = [v2_header(1, 1, 1, 'exact'), v2_header(0, 0, 0, 'exact')], ('v2', 'auto'), 12
        for h in bases:
            for i, j in itertools.combinations(range(region), 2):
                for ci in CORRUPT:
                    if h[i] == ci:
                        continue
                    for cj in CORRUPT:
                        if h[j] == cj:
                            continue
                        hh = bytearray(h)
                        hh[i], hh[j] = ci, cj
                        for mx in mixins:
                            yield mx, bytes(hh) + PAY_EHLO, '', True
    else:
        raise ValueError(family)


def mode_for(mixin, stream, hint, tier):
    """(d, wide, onebyte)"""
    quick = tier == 'quick'
    if hint == 'len':
        n = struct.unpack('!H', stream[14:16])[0]
        if n <= 48:
            return (ALL, NOLIMIT, False)
        if n <= 640:
            return (1, 16, False)
        return (0, 16, False)
    if not is_big(mixin, stream):
        return (ALL, NOLIMIT, False)
    if hint == 'base' and not quick:
        return (ALL, NOLIMIT, False)
    if quick and hint != 'base':
        return (1, 16, True)
    return (2 if quick else 3, 16, True)


FAMILIES_QUICK = [('base1', 12), ('near1', 2), ('base2', 24), ('cross', 2), ('corrupt1', 24), ('corrupt2', 40), ('trunc1', 6),
                  ('trunc2', 6), ('garbage', 8), ('bytes2', 8), ('len2', 6)]
FAMILIES_THOROUGH = [('base1', 16), ('near1', 2), ('base2', 64), ('cross', 2), ('corrupt1', 48), ('corrupt2', 128), ('trunc1', 8),
                     ('trunc2', 8), ('garbage', 8), ('bytes2', 16), ('len2', 64), ('double1', 8), ('double2', 24)]


# ---------------------------------------------------------------------------- two connections at once

class GSock(object):
    """A connection whose bytes arrive in two segments; recv_into() blocks (yields to the hub) while nothing is buffered."""

    def __init__(self, name):
        import gevent.event
        self.name = name
        self.buf = bytearray()
        self.eof = False
        self.ev = gevent.event.Event()
        self.pos = 0
        self.calls = 0
        self.addr = None
        self.at_call = None
        self.payload = None

    def deliver(self, data, last):
        self.buf += data
        self.eof = last
        self.ev.set()

    def fileno(self):
        return -1

    def getpeername(self):
        return ('192.0.2.1', 4321)

    def _wait(self):
        while not self.buf and not self.eof:
            self.ev.clear()
            self.ev.wait()

    def recv_into(self, view, nbytes=0, flags=0):
        if not nbytes:
            nbytes = len(view)
        self._wait()
        k = min(nbytes, len(self.buf))
        view[0:k] = self.buf[:k]
        del self.buf[:k]
        self.pos += k
        return k

    def recv(self, n, flags=0):
        self._wait()
        k = min(n, len(self.buf))
        out = bytes(self.buf[:k])
        del self.buf[:k]
        self.pos += k
        return out

    def close(self):
        pass

    def enter_handler(self, addr):
        self.calls += 1
        if self.calls == 1:
            self.addr = addr
            self.at_call = self.pos
            chunks = []
            while True:
                c = self.recv(65536)
                if not c:
                    break
                chunks.append(c)
            self.payload = b''.join(chunks)


PAIR_STREAMS = [
    b'PROXY TCP4 10.1.2.3 10.4.5.6 1111 25\r\nEHLO a\r\n',
    b'PROXY TCP6 ::1 fe80::2 65535 1\r\nQUIT\r\n',
    b'\r\n\r\n\x00\r\nQUIT\n' + b'\x21\x11\x00\x0c' + bytes([192, 0, 2, 7, 198, 51, 100, 9, 0x30, 0x39, 0, 25]) + b'MAIL',
    b'PROXY UNKNOWN\r\nDATA\r\n',
]


def run_pair(mixin, sa, ca, sb, cb, ch):
    """both connections handled by the same edge object; the order in which the four segments arrive is explored"""
    import gevent
    from engine.vloop import World
    obs = {}
    with World(ch, max_steps=2000) as w:
        edge = get_edge(mixin)
        socks = {'A': GSock('A'), 'B': GSock('B')}
        segs = {'A': [sa[:ca], sa[ca:]], 'B': [sb[:cb], sb[cb:]]}

        def serve(name):
            sock = socks[name]
            try:
                edge.handle(sock, ('192.0.2.1', 4321))
            except gevent.GreenletExit:
                raise
            except BaseException as e:
                obs[name] = ('exc', type(e).__name__, str(e)[:120])
                return
            obs[name] = ('called', sock.addr, sock.at_call, sock.payload, sock.calls) if sock.calls else ('dropped', sock.pos)
        for name in ('A', 'B'):
            gevent.spawn(serve, name)

        def deliver(name, i):
            def fire():
                socks[name].deliver(segs[name][i], i == 1)
                if i == 0:
                    w.add_event('%s2' % name, deliver(name, 1))
            return fire
        w.add_event('A1', deliver('A', 0))
        w.add_event('B1', deliver('B', 0))
        w.run_until_quiescent()
    return obs.get('A', ('blocked',)), obs.get('B', ('blocked',))


def check_pairs(res, mixin, ia, ib, cuts):
    sa, sb = PAIR_STREAMS[ia], PAIR_STREAMS[ib]
    solo = {}
    for name, st in (('A', sa), ('B', sb)):
        o, _ = execute(mixin, st, Chooser(), NOLIMIT, False, False)
        solo[name] = o[:5]
    for ca in cuts:
        for cb in cuts:
            if ca >= len(sa) or cb >= len(sb):
                continue
            seen = []

            def run(ch):
                oa, ob = run_pair(mixin, sa, ca, sb, cb, ch)
                seen.append((tuple(ch.choices), oa, ob))
                return (oa, ob)
            st = explore(run, d=8, dd=None, merge=False, max_exec=50)
            res.evaluations += st.executions
            res.count('concurrent_pair_executions', st.executions)
            res.interesting(('pair', mixin, ia, ib, ca, cb))
            for choices, oa, ob in seen:
                res.outcome(('pair', mixin, oa[:2], ob[:2]))
                for name, o in (('A', oa), ('B', ob)):
                    if tuple(o[:5]) != tuple(solo[name]):
                        res.violation({'kind': 'connection-disturbed-by-another', 'mixin': mixin},
                                      'mixin=%s: connection %s (%r, first segment %d bytes) handled while another connection (%r, first segment %d bytes) '
                                      'was being read: got %r, alone it gives %r; delivery order choices %r'
                                      % (mixin, name, (sa if name == 'A' else sb)[:60], ca if name == 'A' else cb, (sb if name == 'A' else sa)[:60],
                                         cb if name == 'A' else ca, o, solo[name], list(choices)),
                                      {'pair': [mixin, ia, ib, ca, cb], 'choices': list(choices)})
                        return


def configs(tier, seed):
    fams = FAMILIES_QUICK if tier == 'quick' else FAMILIES_THOROUGH
    cfgs = [{'family': f, 'part': k, 'of': n} for f, n in fams for k in range(n)]
    for mx in ('auto', 'v1', 'v2'):
        for ia in range(len(PAIR_STREAMS)):
            cfgs.append({'pairs': mx, 'ia': ia})
    return cfgs


def run_config(cfg, tier, seed):
    res = Result(max_samples=2)
    if 'pairs' in cfg:
        cuts = (1, 3, 5, 7, 8, 11) if tier == 'quick' else tuple(range(1, 17))
        for ib in range(len(PAIR_STREAMS)):
            check_pairs(res, cfg['pairs'], cfg['ia'], ib, cuts)
        res.sample({'concurrent_pairs': cfg['pairs'], 'stream_a': b2s(PAIR_STREAMS[cfg['ia']]), 'first_segment_sizes': list(cuts)})
        return res.as_dict()
    fam, part, of = cfg['family'], cfg['part'], cfg['of']
    for idx, (mx, stream, hint, interesting) in enumerate(gen(fam, tier)):
        if idx % of != part:
            continue
        mode = mode_for(mx, stream, hint, tier)
        tag = None
        if part == 0 and idx % 211 == 0 and len(res.samples) < 2:
            tag = '%s #%d mode d=%s wide=%s onebyte=%s' % (fam, idx, 'all' if mode[0] == ALL else mode[0],
                                                           'all' if mode[1] == NOLIMIT else mode[1], mode[2])
        check_input(res, mx, stream, mode, interesting, tag)
        if res.counters.get('violating_cases', 0) > 200:
            # a broken parser makes every input expensive (states stop merging); the violations are already recorded
            res.caps.append('family %s part %d stopped after 200 violating cases' % (fam, part))
            break
        res.count('inputs_' + fam)
        res.count('mode_all_segmentations' if mode[0] == ALL else 'mode_bounded_d%d' % mode[0])
    return res.as_dict()


def vacuity(counters, tier):
    need = ['inputs_wellformed', 'inputs_malformed', 'inputs_dontcare', 'execs_with_short_read', 'obs_dropped',
            'obs_exact_address', 'obs_unknown_address', 'obs_invalid_address', 'mode_all_segmentations']
    return ['counter %s is 0' % k for k in need if not counters.get(k)]


# ---------------------------------------------------------------------------- replay

def _one(mixin, stream, choices, wide, onebyte):
    ch = Chooser(prefix=choices)
    obs, sock = execute(mixin, stream, ch, wide, onebyte, False)
    return obs, sock


def replay(rep):
    if rep.get('pair'):
        mixin, ia, ib, ca, cb = rep['pair']
        sa, sb = PAIR_STREAMS[ia], PAIR_STREAMS[ib]
        oa, ob = run_pair(mixin, sa, ca, sb, cb, Chooser(prefix=rep['choices']))
        for name, o, st in (('A', oa, sa), ('B', ob, sb)):
            solo, _ = execute(mixin, st, Chooser(), NOLIMIT, False, False)
            if tuple(o[:5]) != tuple(solo[:5]):
                return True, 'mixin=%s: connection %s got %r next to another connection, alone it gives %r' % (mixin, name, o, solo[:5])
        return False, 'both connections get what they get alone'
    mixin, stream = rep['mixin'], s2b(rep['stream'])
    v = ref.PARSERS[mixin](stream)
    obs, sock = _one(mixin, stream, rep['choices'], rep['wide'], rep['onebyte'])
    if rep.get('reads') is not None and list(sock.reads) != list(rep['reads']):
        raise HarnessError('replay divergence: reads %r, recorded %r' % (sock.reads, rep['reads']))
    bad = judge(v, obs, stream)
    if bad is not None:
        return True, 'mixin=%s stream=%r reads=%r: %s: %s [reference: %r]' % (mixin, stream[:160], sock.reads[:40],
                                                                             bad[0], bad[1], v)
    if rep.get('other'):
        o = rep['other']
        obs2, sock2 = _one(mixin, stream, o['choices'], rep['wide'], o['onebyte'])
        if core_outcome(obs2) != core_outcome(obs) and v.status != 'dontcare':
            return True, 'mixin=%s stream=%r: outcome %r with reads %r but %r with reads %r' % (
                mixin, stream[:160], core_outcome(obs), sock.reads[:40], core_outcome(obs2), sock2.reads[:40])
    return False, 'mixin=%s: observation %r satisfies the reference verdict %r' % (mixin, obs[:3], v)
