"""C16 -- queue policies conserve recipients and content.

Exhaustive: every recipient list of length 0..4 over six addresses and 0..3 over seven (duplicates
allowed) x every chain (order and repetition) of up to 2 (quick) / 3 (thorough) queue policies out of
eleven x up to four shapes of the original header block (see ``header_variants_for``) -- each through
a REAL ``slimta.queue.Queue`` (relay=None) and its real ``enqueue()`` on the virtual gevent loop,
observed at ``QueueStorage.write``.

The oracle is a boring reference of the policies on plain recipient lists (``ref_chain``), composed
breadth first (the library recurses depth first), written without looking at the library objects.
What is compared (and nothing more):
  1. the written envelopes carry the reference recipients: same multiset, same grouping into
     envelopes (order of envelopes and order inside a group are not compared; the grouping is what
     makes a "recipient split" / "domain split" of the property one: one envelope per recipient,
     one per case-insensitive domain and one per domainless address);
     collapsing a duplicate of the original list is treated as don't-care (the property is read
     strictly -- "each recipient exactly once" -- only for losing, inventing or altering addresses);
  2. sender, body bytes and the original header fields (in order) of every written envelope
     (body = the ``message`` attribute, snapshot at write(); flatten()[1], which returns that
     attribute, is additionally called on the last written envelope of every header-variant-0 case);
  3. no two written envelopes are the same object or share ``recipients`` / ``headers`` state
     (mutation probe on the actual objects handed to ``write``);
  4. Date / Message-Id exist exactly once when they were present or a policy adds them, and not
     at all otherwise; every AddReceivedHeader of the chain put one new Received field in front;
  5. enqueue() returns exactly the (envelope, id) pairs that were written.
Not compared (property silent): the text of added headers (e.g. the ``for <...>`` clause), where Date
and Message-Id are inserted, the order of written envelopes, attributes other than
sender/recipients/headers/message.
"""
import copy
import itertools
import re

import gevent

from slimta.envelope import Envelope
from slimta.policy import QueuePolicy
from slimta.policy.forward import Forward
from slimta.policy.headers import AddDateHeader, AddMessageIdHeader, AddReceivedHeader
from slimta.policy.split import RecipientSplit, RecipientDomainSplit
from slimta.queue import Queue, QueueStorage

from engine.core import Chooser, HarnessError
from engine.result import Result
from engine.vloop import World

PROPERTY = 'C16'
LEVEL = 'exploration'
EXHAUSTIVE = True

RCPT_ALPHABET = ['a@x', 'b@x', 'c@y', 'c@Y', 'nodomain', 'e@']
MAX_RCPTS = 4
THIRD_DOMAIN = 'd@z'        # added to the alphabet for lists of length <= 3 ("many domains")
MAX_RCPTS_WIDE = 3

FORWARD_RULES = {
    # first match wins; a rule whose result is the empty string never rewrites
    'Forward1': [(r'^a@x$', 'z@w')],
    'Forward2': [(r'@x$', '@x2'), (r'^a@', 'never@')],
    # the third rule differs from recipients of the alphabet only in letter case: rules match as they are written
    'Forward3': [(r'^nomatch$', 'q'), (r'^nodomain$', ''), (r'^C@y$', 'cased@w')],
    # the first rule rewrites c@y to itself: it matched, so the catch-all behind it must not see that recipient
    'Forward4': [(r'^c@y$', 'c@y'), (r'^b@x$', 'a@x'), (r'^e@$', 'e@Y'), (r'@y$', '@y9')],
}
POLICY_NAMES = ['RecipientSplit', 'RecipientDomainSplit', 'Forward1', 'Forward2', 'Forward3', 'Forward4',
                'AddDateHeader', 'AddMessageIdHeader', 'AddReceivedHeader', 'ReturnsInput', 'KeepFirstCopyRest']

SENDER = 'sender@example.test'
BODY = b'first line\r\n.line with leading dot\r\n\r\n8-bit \xe9\xff\r\nFrom: not-a-header\r\nno final newline'
TIMESTAMP = 1420070400.0
RECEIVER = 'mx.test'
CLIENT = {'ip': '1.2.3.4', 'name': 'client', 'host': None, 'protocol': 'ESMTP'}
OLD_RECEIVED = b'Received: from elsewhere by old.test; Wed, 31 Dec 2014 23:59:00 +0000'
# (label, Date line or None, Message-Id line or None); odd-cased names on purpose
HDR_VARIANTS = [
    ('none', None, None),
    ('date', b'DATE: Wed, 31 Dec 2014 23:58:00 +0000', None),
    ('message-id', None, b'message-ID: <orig.1@example.test>'),
    ('both', b'Date: Wed, 31 Dec 2014 23:58:00 +0000', b'Message-Id: <orig.2@example.test>'),
    # present but empty: still "not absent"
    ('both-empty', b'Date:', b'Message-Id: '),
    # a message without a single header field (the header block is empty)
    ('no-headers', None, None),
    # the message starts with a Return-Path field (unusual but legal): a new Received field still goes in front of everything
    ('return-path-first', None, None),
]


def BOUNDS(tier):
    return {'recipient_alphabet': RCPT_ALPHABET, 'max_recipients': MAX_RCPTS,
            'recipient_alphabet_up_to_3': RCPT_ALPHABET + [THIRD_DOMAIN],
            'policies': POLICY_NAMES, 'max_chain': _max_chain(tier),
            'forward_rule_sets': {k: [list(r) for r in v] for k, v in FORWARD_RULES.items()},
            'header_variants': {'none': 'every chain x every list',
                                'both': 'chains of length <= 2 and all chains with a Date/Message-Id policy x every list',
                                'date, message-id': 'chains with a Date/Message-Id policy x lists of length <= 2'}}


RULE = ('every recipient list of length 0..4 over {a@x,b@x,c@y,c@Y,nodomain,e@} and of length 0..3 over that set '
        'plus d@z (duplicates allowed; 1696 lists) x '
        'every sequence (order, repetition) of <= 2 (quick) / <= 3 (thorough) policies from {RecipientSplit, '
        'RecipientDomainSplit, Forward with rule set 1|2|3|4, AddDateHeader, AddMessageIdHeader, AddReceivedHeader, '
        'a policy returning [envelope], a policy returning [copy-with-the-rest, envelope-trimmed-to-first]} x '
        'original header block {without Date/Message-Id: always; with both: chains of length <= 2 and every chain '
        'holding a Date/Message-Id policy; DATE only, message-ID only: chains holding such a policy x lists of length '
        '<= 2 -- these policies never look at recipients and no other policy looks at headers} through real '
        'Queue.enqueue; a case is '
        'non-trivial when more than one envelope is written or a recipient is rewritten (counter cases_nontrivial); '
        'distinct_nontrivial counts their distinct shapes (chain, list length, sizes of the written groups, number of '
        'rewritten addresses), distinct_observations the distinct (group sizes, rewritten, header names) results')
ASSUMPTIONS = ['a forwarding rule that matches but whose substitution result is the empty string is read as "does '
               'not rewrite" (the only such rule here is the last of its set, so continue/stop cannot differ)',
               'policies handing back a generator instead of a list are outside the quantifier',
               'grouping is judged by the policy definitions: RecipientSplit = one envelope per recipient when there '
               'are several; RecipientDomainSplit = one per lower-cased domain plus one per address without a domain, '
               'when that makes more than one',
               'collapsing duplicates of the original recipient list would be accepted (never observed)',
               'recipients longer than 4 and chains longer than the bound behave like the enumerated ones']


def _max_chain(tier):
    return 2 if tier == 'quick' else 3


# ---------------------------------------------------------------- reference model (plain lists)

def ref_domain(rcpt):
    at = rcpt.rfind('@')
    if at < 0 or at == len(rcpt) - 1:
        return None
    return rcpt[at + 1:].lower()


def ref_forward(rules, rcpt):
    for pattern, repl in rules:
        if re.search(pattern, rcpt) is not None:
            new = re.sub(pattern, repl, rcpt)
            return new if new else rcpt
    return rcpt


def ref_apply(name, group):
    """One policy on one recipient group -> list of groups replacing it."""
    if name == 'RecipientSplit':
        return [[r] for r in group] if len(group) > 1 else [group]
    if name == 'RecipientDomainSplit':
        by_domain, order, alone = {}, [], []
        for r in group:
            d = ref_domain(r)
            if d is None:
                alone.append([r])
            else:
                if d not in by_domain:
                    by_domain[d] = []
                    order.append(d)
                by_domain[d].append(r)
        out = [by_domain[d] for d in order] + alone
        return out if len(out) > 1 else [group]
    if name in FORWARD_RULES:
        return [[ref_forward(FORWARD_RULES[name], r) for r in group]]
    if name == 'KeepFirstCopyRest':
        return [group[1:], group[:1]] if len(group) > 1 else [group]
    return [group]      # header policies, ReturnsInput


def ref_chain(rcpts, chain):
    groups = [list(rcpts)]
    for name in chain:
        nxt = []
        for g in groups:
            nxt.extend(ref_apply(name, g))
        groups = nxt
    return groups


def canon(groups):
    return sorted(tuple(sorted(g)) for g in groups)


def flat_counts(groups):
    c = {}
    for g in groups:
        for r in g:
            c[r] = c.get(r, 0) + 1
    return c


# ---------------------------------------------------------------- the real thing

class ReturnsInput(QueuePolicy):
    """Hands the input envelope back as its only output."""

    def apply(self, envelope):
        return [envelope]


class KeepFirstCopyRest(QueuePolicy):
    """Outputs a copy carrying all but the first recipient, then the input envelope itself
    trimmed to its first recipient (input among -- and not first of -- the outputs)."""

    def apply(self, envelope):
        if len(envelope.recipients) <= 1:
            return [envelope]
        rest = envelope.copy(list(envelope.recipients[1:]))
        del envelope.recipients[1:]
        return [rest, envelope]


def make_policy(name):
    if name == 'RecipientSplit':
        return RecipientSplit()
    if name == 'RecipientDomainSplit':
        return RecipientDomainSplit()
    if name in FORWARD_RULES:
        fwd = Forward()
        for pattern, repl in FORWARD_RULES[name]:
            fwd.add_mapping(pattern, repl)
        return fwd
    if name == 'AddDateHeader':
        return AddDateHeader()
    if name == 'AddMessageIdHeader':
        return AddMessageIdHeader(hostname='mid.test')
    if name == 'AddReceivedHeader':
        return AddReceivedHeader()
    if name == 'ReturnsInput':
        return ReturnsInput()
    if name == 'KeepFirstCopyRest':
        return KeepFirstCopyRest()
    raise HarnessError('unknown policy %r' % (name,))


class RecordingStorage(QueueStorage):
    def __init__(self):
        super(RecordingStorage, self).__init__()
        self.written = []
        self.n = 0

    def reset(self):
        self.written = []

    def write(self, envelope, timestamp):
        self.n += 1
        qid = 'q%d' % self.n
        # body: the ``message`` attribute, which is what flatten()[1] returns; flatten() itself (it
        # re-folds every header, ~10x the cost of the rest) is called on the last written envelope
        # of the cases with header variant 'none' only
        snap = (envelope.sender, tuple(envelope.recipients),
                [(str(k), str(v)) for k, v in envelope.headers.raw_items()], envelope.message)
        self.written.append((envelope, qid, snap))
        return qid


def message_data(hv):
    label, date, mid = HDR_VARIANTS[hv]
    if label == 'no-headers':
        return b'\r\n' + BODY
    if label == 'return-path-first':
        return b'\r\n'.join([b'Return-Path: <bounces@example.test>', OLD_RECEIVED, b'From: sender@example.test', b'To: list@example.test',
                              b'Subject: conservation', b'X-Last: kept']) + b'\r\n\r\n' + BODY
    lines = [OLD_RECEIVED, b'From: sender@example.test', b'To: list@example.test']
    if date:
        lines.append(date)
    lines.append(b'Subject: conservation')
    if mid:
        lines.append(mid)
    lines.append(b'X-Last: kept')
    return b'\r\n'.join(lines) + b'\r\n\r\n' + BODY


_DATA = [message_data(hv) for hv in range(len(HDR_VARIANTS))]


def make_envelope(rcpts, hv, template=None):
    """As an Edge does: Envelope(sender, recipients), parse(data), then the reception metadata.

    With ``template`` (an envelope built that way for the same header variant, never handed to the
    queue) the parsed header block is cloned instead of parsed again: a new message object with its
    own field list holding the same (name, value) strings -- a third of the per-case cost."""
    env = Envelope(SENDER, list(rcpts))
    if template is None:
        env.parse(_DATA[hv])
    else:
        headers = copy.copy(template.headers)
        headers._headers = list(template.headers._headers)
        env.headers = headers
        env.message = template.message
    env.client = dict(CLIENT)
    env.receiver = RECEIVER
    env.timestamp = TIMESTAMP
    return env


def policy_class(name):
    return 'Forward' if name in FORWARD_RULES else name


SPLITTERS = ('RecipientSplit', 'RecipientDomainSplit', 'KeepFirstCopyRest')
REGROUPERS = SPLITTERS + ('ReturnsInput',)


def chain_has(chain, which):
    s = sorted(set(policy_class(n) for n in chain) & set(which))
    return '+'.join(s) if s else 'none'


def rcpt_class(rcpt, original):
    if rcpt not in original:
        return 'rewritten'
    if list(original).count(rcpt) > 1:
        return 'duplicate'
    if '@' not in rcpt:
        return 'nodomain'
    if rcpt.endswith('@'):
        return 'emptydomain'
    if rcpt.rsplit('@', 1)[1] != rcpt.rsplit('@', 1)[1].lower():
        return 'mixedcase-domain'
    return 'plain'


class Case(object):
    """Runs one (recipient list, chain, header variant) through queue.enqueue and judges it."""

    def __init__(self, queue, store, chain, world=None):
        self.queue, self.store, self.chain, self.world = queue, store, tuple(chain), world
        self.n_recv = self.chain.count('AddReceivedHeader')
        self.adds_date = 'AddDateHeader' in self.chain
        self.adds_mid = 'AddMessageIdHeader' in self.chain
        self.templates = {}
        self.template_items = {}
        for hv in range(len(HDR_VARIANTS)):
            t = make_envelope((), hv)
            items = [(str(k), str(v)) for k, v in t.headers.raw_items()]
            c = make_envelope((), hv, t)
            if (t.message != BODY or (len(items) < 5 and HDR_VARIANTS[hv][0] != 'no-headers') or c.headers is t.headers or c.headers._headers is t.headers._headers
                    or [(str(k), str(v)) for k, v in c.headers.raw_items()] != items or c.flatten() != t.flatten()
                    or type(c.headers) is not type(t.headers)):
                raise HarnessError('input envelope not built as intended: %r %r' % (items, t.message))
            self.templates[hv] = t
            self.template_items[hv] = items

    def run(self, rcpts, hv):
        """-> (violations [(signature, message, replay)], info dict)"""
        chain = self.chain
        rcpts = tuple(rcpts)
        replay = {'rcpts': list(rcpts), 'chain': list(chain), 'hdr': hv}
        where = 'recipients %r, chain %s, original headers %r' % (list(rcpts), '>'.join(chain) or '(empty)',
                                                                 HDR_VARIANTS[hv][0])
        out = []
        seen_kinds = set()

        def bad(sig, text):
            key = repr(sorted(sig.items()))
            if key not in seen_kinds:
                seen_kinds.add(key)
                out.append((sig, where + ': ' + text, replay))

        if self.world is not None:
            self.world._uuid_counter = itertools.count()
        env = make_envelope(rcpts, hv, self.templates[hv])
        orig_items = [(str(k), str(v)) for k, v in env.headers.raw_items()]
        if env.message != BODY or env.sender != SENDER or orig_items != self.template_items[hv]:
            raise HarnessError('input envelope not built as intended (template contaminated by an earlier case?): '
                               '%r %r' % (orig_items, env.message))
        had_date = HDR_VARIANTS[hv][1] is not None
        had_mid = HDR_VARIANTS[hv][2] is not None
        self.store.reset()
        try:
            results = self.queue.enqueue(env)
        except Exception as e:
            bad({'kind': 'exception:' + type(e).__name__, 'raised_in': _raised_in(e)},
                'enqueue raised %s: %s' % (type(e).__name__, re.sub(r' at 0x[0-9a-f]+', '', str(e))))
            return out, {'written': None}
        written = self.store.written
        objs = [w[0] for w in written]
        snaps = [w[2] for w in written]

        # (5) return value
        if len(results) != len(written) or any(r[0] is not w[0] or r[1] != w[1] for r, w in zip(results, written)):
            bad({'kind': 'result-pairs-mismatch', 'chain_has': chain_has(chain, REGROUPERS)},
                'enqueue returned %d pair(s) %r for %d written envelope(s) with ids %r'
                % (len(results), [r[1] for r in results], len(written), [w[1] for w in written]))
        # (3a) same object written twice
        if len(set(id(o) for o in objs)) != len(objs):
            bad({'kind': 'same-object-written-twice', 'chain_has': chain_has(chain, REGROUPERS)},
                'one envelope object was passed to write() more than once (%d writes, %d objects)'
                % (len(objs), len(set(id(o) for o in objs))))

        # (1) recipients
        got_groups = [list(s[1]) for s in snaps]
        ref_groups = ref_chain(rcpts, chain)
        got_c, ref_c = flat_counts(got_groups), flat_counts(ref_groups)
        shown = 'written %r, reference %r' % (canon(got_groups), canon(ref_groups))
        dontcare = False
        if got_c != ref_c:
            missing = sorted(r for r in ref_c if got_c.get(r, 0) < ref_c[r])
            extra = sorted(r for r in got_c if got_c[r] > ref_c.get(r, 0))
            absent = [r for r in missing if r not in got_c]
            if not extra and not absent:
                dontcare = True     # only copies of a duplicated address were merged
            elif missing and extra and any(r not in ref_c for r in extra):
                r = [x for x in extra if x not in ref_c][0]
                # the expected address is an original one that no forwarding rule of the chain matches
                unmatched = missing[0] in rcpts and not any(
                    re.search(p, missing[0]) for n in chain if n in FORWARD_RULES for p, _ in FORWARD_RULES[n])
                bad({'kind': 'recipient-altered', 'chain_has': chain_has(chain, ('Forward',)),
                     'matches_no_rule': bool(unmatched), 'rcpt_class': rcpt_class(missing[0], rcpts)},
                    'recipient %r expected but %r written; %s' % (missing[0], r, shown))
            elif missing:
                bad({'kind': 'recipient-lost', 'chain_has': chain_has(chain, REGROUPERS),
                     'rcpt_class': rcpt_class(missing[0], rcpts)},
                    'recipient %r written %d time(s), reference %d; %s'
                    % (missing[0], got_c.get(missing[0], 0), ref_c[missing[0]], shown))
            else:
                bad({'kind': 'recipient-duplicated', 'chain_has': chain_has(chain, REGROUPERS),
                     'rcpt_class': rcpt_class(extra[0], rcpts)},
                    'recipient %r written %d time(s), reference %d; %s'
                    % (extra[0], got_c[extra[0]], ref_c.get(extra[0], 0), shown))
        elif canon(got_groups) != canon(ref_groups):
            odd = [g for g in canon(got_groups) if g not in canon(ref_groups)]
            classes = set(rcpt_class(r, rcpts) for g in odd for r in g)
            cls = ([c for c in ('mixedcase-domain', 'nodomain', 'emptydomain', 'rewritten', 'duplicate')
                    if c in classes] + ['plain'])[0]
            bad({'kind': 'grouping-mismatch', 'chain_has': chain_has(chain, REGROUPERS), 'rcpt_class': cls},
                'recipients conserved but grouped differently: ' + shown)
        if any(not isinstance(r, str) for g in got_groups for r in g):
            bad({'kind': 'recipient-not-str'}, 'non-string recipient written: %r' % (got_groups,))

        # (2) + (4) sender, body, headers of every written envelope
        for k, (sender, _, items, body) in enumerate(snaps):
            tag = 'written envelope #%d %r: ' % (k, list(snaps[k][1]))
            if sender != SENDER:
                bad({'kind': 'sender-changed', 'chain_has': chain_has(chain, POLICY_CLASSES)},
                    tag + 'sender %r, original %r' % (sender, SENDER))
            if body != BODY:
                bad({'kind': 'body-changed', 'chain_has': chain_has(chain, POLICY_CLASSES)},
                    tag + 'body %r, original %r' % (body, BODY))
            self._check_headers(items, orig_items, had_date, had_mid, tag, bad)
        if objs and hv == 0:     # every chain is run with variant 0
            try:
                flat = objs[-1].flatten()
            except Exception as e:
                flat = ('flatten raised %s: %s' % (type(e).__name__, e), None)
            if flat[1] != BODY:
                bad({'kind': 'body-changed', 'chain_has': chain_has(chain, POLICY_CLASSES)},
                    'last written envelope: flatten() gave %r, original body %r' % (flat, BODY))

        # (3b) aliasing probe on the actual objects (mutates them: last)
        if len(set(id(o) for o in objs)) == len(objs) and len(objs) > 1:
            before = [(list(o.recipients), [(str(a), str(b)) for a, b in o.headers.raw_items()]) for o in objs]
            for i, o in enumerate(objs):
                o.recipients.append('probe%d@probe' % i)
                o.prepend_header('X-Probe-%d' % i, 'p')
            for j, o in enumerate(objs):
                want_r = before[j][0] + ['probe%d@probe' % j]
                own = ('X-Probe-%d' % j, 'p')
                now_h = [(str(a), str(b)) for a, b in o.headers.raw_items()]
                # wherever prepend_header put the probe: own state + own probe, nobody else's
                want_h = [own] + before[j][1]
                if own in now_h and [h for h in now_h if h != own] == before[j][1]:
                    want_h = now_h
                if list(o.recipients) != want_r:
                    bad({'kind': 'shared-recipients-list', 'chain_has': chain_has(chain, SPLITTERS)},
                        'after appending a probe address to the recipients of each written envelope, envelope #%d has %r '
                        '(own state + own probe would be %r)' % (j, list(o.recipients), want_r))
                if now_h != want_h:
                    bad({'kind': 'shared-headers', 'chain_has': chain_has(chain, SPLITTERS)},
                        'after adding a probe header to each written envelope, envelope #%d has header names %r '
                        '(own + own probe would be %r)' % (j, [h[0] for h in now_h], [h[0] for h in want_h]))
        info = {'written': canon(got_groups), 'n_written': len(written), 'dontcare': dontcare,
                'rewritten': sum(1 for r in got_c if r not in rcpts),
                'header_names': [h[0] for h in snaps[0][2]] if snaps else [],
                'pairs_probed': len(objs) * (len(objs) - 1) // 2,
                'input_written': any(o is env for o in objs)}
        return out, info

    def _check_headers(self, items, orig_items, had_date, had_mid, tag, bad):
        chain = self.chain
        n_recv = self.n_recv
        names = [n for n, _ in items]
        lower = [n.lower() for n in names]
        n_date, n_mid = lower.count('date'), lower.count('message-id')
        want_date = 1 if (had_date or self.adds_date) else 0
        want_mid = 1 if (had_mid or self.adds_mid) else 0
        ok = True
        if n_date != want_date:
            ok = False
            bad({'kind': 'date-header-count', 'originally_present': had_date, 'policy_in_chain': self.adds_date,
                 'count': min(n_date, 2), 'chain_has': chain_has(chain, SPLITTERS)},
                tag + '%d Date field(s), expected %d; header names %r' % (n_date, want_date, names))
        if n_mid != want_mid:
            ok = False
            bad({'kind': 'message-id-header-count', 'originally_present': had_mid, 'policy_in_chain': self.adds_mid,
                 'count': min(n_mid, 2), 'chain_has': chain_has(chain, SPLITTERS)},
                tag + '%d Message-Id field(s), expected %d; header names %r' % (n_mid, want_mid, names))
        if not ok:
            return
        head, rest = items[:n_recv], items[n_recv:]
        if not had_date:
            rest = [it for it in rest if it[0].lower() != 'date']
        if not had_mid:
            rest = [it for it in rest if it[0].lower() != 'message-id']
        if len(head) == n_recv and all(n.lower() == 'received' and v for n, v in head) and rest == orig_items:
            return
        # classify
        n_received = lower.count('received')
        orig_received = sum(1 for n, _ in orig_items if n.lower() == 'received')
        stripped = [it for it in items if it[0].lower() not in
                    (('date',) if not had_date else ()) + (('message-id',) if not had_mid else ())]
        others = [it for it in stripped if it[0].lower() != 'received']
        orig_others = [it for it in orig_items if it[0].lower() != 'received']
        if n_recv and n_received != orig_received + n_recv:
            bad({'kind': 'received-header-count', 'chain_has': chain_has(chain, SPLITTERS), 'policies': min(n_recv, 2)},
                tag + '%d Received field(s), expected %d original + %d added; header names %r'
                % (n_received, orig_received, n_recv, names))
        elif n_recv and others == orig_others:
            bad({'kind': 'received-not-first', 'chain_has': chain_has(chain, SPLITTERS), 'policies': min(n_recv, 2)},
                tag + 'the %d new Received field(s) are not in front of the original fields: %r'
                % (n_recv, [(n, v[:40]) for n, v in items[:n_recv + 2]]))
        else:
            bad({'kind': 'original-headers-changed', 'chain_has': chain_has(chain, POLICY_CLASSES)},
                tag + 'header fields %r, original fields %r (+ expected additions)' % (items, orig_items))


POLICY_CLASSES = tuple(sorted(set(policy_class(n) for n in POLICY_NAMES)))


def _raised_in(exc):
    """Innermost library frame of the traceback, e.g. 'slimta/policy/headers.py:apply'."""
    tb, found = exc.__traceback__, 'outside slimta'
    while tb is not None:
        fn = tb.tb_frame.f_code.co_filename.replace('\\', '/')
        if '/slimta/' in fn:
            found = 'slimta/' + fn.split('/slimta/')[-1] + ':' + tb.tb_frame.f_code.co_name
        tb = tb.tb_next
    return found


def all_chains(max_len):
    out = []
    for n in range(0, max_len + 1):
        out.extend(itertools.product(POLICY_NAMES, repeat=n))
    return out


def all_rcpt_lists():
    wide = RCPT_ALPHABET + [THIRD_DOMAIN]
    for n in range(0, MAX_RCPTS + 1):
        for t in itertools.product(wide if n <= MAX_RCPTS_WIDE else RCPT_ALPHABET, repeat=n):
            yield t


def header_variants_for(chain, rcpts):
    """Date / Message-Id handling is per envelope and never looks at the recipients, and a chain without
    a Date/Message-Id policy cannot tell the variants apart, so the header dimension is crossed in
    full only where it can matter:
      'none'                always (variant 0);
      'both'                for chains of length <= 2 and for every chain with a Date/Message-Id policy;
      'date', 'message-id', 'both-empty' (fields present with an empty value)
                            for chains with a Date/Message-Id policy x lists of length <= 2."""
    relevant = 'AddDateHeader' in chain or 'AddMessageIdHeader' in chain
    out = [0]
    if len(rcpts) >= 2 and len(chain) <= 3:
        out.append(5)          # header-less message: only interesting when something is split and edited afterwards
    if 'AddReceivedHeader' in chain and len(rcpts) <= 2:
        out.append(6)
    if relevant and len(rcpts) <= 2:
        out += [1, 2, 4]
    if relevant or len(chain) <= 2:
        out.append(3)
    return out


def reset_mutable_defaults():
    """A mutable default argument of a policy constructor is state shared by every object built without that argument
    (and by every execution of this process): emptied before each unit of work so that executions stay independent."""
    from slimta.policy.split import RecipientSplit as _RS, RecipientDomainSplit as _RDS
    for cls in (Forward, _RS, _RDS, AddDateHeader, AddMessageIdHeader, AddReceivedHeader):
        for fn in (getattr(cls, '__init__', None), getattr(cls, 'apply', None)):
            for d in (getattr(fn, '__defaults__', None) or ()):
                if isinstance(d, (list, dict, set)) and len(d):
                    d.clear()


def run_chain(chain, cases, res, collect=None):
    """All ``cases`` [(rcpts, hv)] of one chain inside one World, one real Queue."""
    done = []
    reset_mutable_defaults()
    with World(Chooser(), uuid_modules=('slimta.policy.headers',)) as w:
        store = RecordingStorage()
        queue = Queue(store, relay=None)
        shared = []
        built = {}
        for name in chain:
            # the same name twice in a chain = the same policy OBJECT added twice (as an application that keeps one
            # instance around does); distinct objects of one class are covered by the Forward1..4 names
            pol = built.get(name)
            if pol is None:
                pol = built[name] = make_policy(name)
            queue.add_policy(pol)
            if name in FORWARD_RULES and len(pol.mapping) != len(FORWARD_RULES[name]) and list(chain).count(name) == 1:
                shared.append((name, len(pol.mapping), len(FORWARD_RULES[name])))
        if shared and res is not None:
            for name, got, want in shared[:1]:
                res.violation({'kind': 'policy-objects-share-rules', 'policy': 'Forward'},
                              'chain %r: the Forward object for %s holds %d rule(s) right after its own %d were added -- rules of '
                              'another Forward object of the process leaked into it' % (list(chain), name, got, want),
                              {'chain': list(chain), 'rcpts': list(cases[0][0]) if cases else [], 'hdr': cases[0][1] if cases else 0})
        case = Case(queue, store, chain, w)

        def body():
            for rcpts, hv in cases:
                vs, info = case.run(rcpts, hv)
                if collect is not None:
                    collect.append((vs, info))
                if res is not None:
                    account(res, chain, rcpts, hv, vs, info)
            done.append(True)

        g = gevent.spawn(body)
        w.run_until_quiescent()
        if g.exception is not None:
            raise g.exception
        if not done:
            raise HarnessError('enqueue never returned for chain %r (greenlet blocked)' % (chain,))
        errs = w.errors()
        if errs:
            raise HarnessError('greenlet errors on the virtual loop for chain %r: %r' % (chain, errs[:3]))


def account(res, chain, rcpts, hv, vs, info):
    res.evaluations += 1
    res.count('cases')
    for sig, text, rep in vs:
        res.violation(sig, text, rep)
    if info['written'] is None:
        res.outcome(('exception',))
        return
    sizes = tuple(sorted(len(g) for g in info['written']))
    res.outcome((sizes, info['rewritten'], tuple(info['header_names'])))
    res.count('envelopes_written', info['n_written'])
    res.count('alias_pairs_probed', info['pairs_probed'])
    if info['dontcare']:
        res.count('dontcare_duplicate_collapse')
    if info['n_written'] > 1:
        res.count('cases_split')
    if info['rewritten']:
        res.count('cases_rewritten')
    if info['input_written'] and info['n_written'] > 1:
        res.count('cases_input_written_among_several')
    names = [n.lower() for n in info['header_names']]
    if HDR_VARIANTS[hv][1] is None and 'date' in names:
        res.count('cases_date_added')
    if HDR_VARIANTS[hv][2] is None and 'message-id' in names:
        res.count('cases_message_id_added')
    if names[:1] == ['received'] and names[1:2] == ['received']:
        res.count('cases_received_added')
    if info['n_written'] > 1 or info['rewritten']:
        res.count('cases_nontrivial')
        # distinct non-trivial *shapes* (the full case count is the counter above)
        res.interesting((chain, len(rcpts), sizes, info['rewritten']))
        if hv == 0 and len(rcpts) >= 3:
            res.sample({'recipients': list(rcpts), 'chain': list(chain), 'original_headers': HDR_VARIANTS[hv][0],
                        'written_recipient_groups': [list(g) for g in info['written']],
                        'header_names_of_first_written': info['header_names']})


SLICES = 4      # each chain's recipient lists are dealt into this many work units


def _nparts(tier):
    return 128 if tier == 'quick' else 512


def configs(tier, seed):
    # work unit = (chain index, slice of the recipient lists); unit u belongs to configuration u mod N
    n = _nparts(tier)
    return [{'part': k, 'of': n, 'max_chain': _max_chain(tier)} for k in range(n)]


def run_config(cfg, tier, seed):
    res = Result()
    res.count('configs_run')
    chains = all_chains(cfg['max_chain'])
    lists = list(all_rcpt_lists())
    for idx, chain in enumerate(chains):
        for j in range(SLICES):
            if (idx * SLICES + j) % cfg['of'] != cfg['part']:
                continue
            res.count('chain_slices')
            run_chain(chain, [(rc, hv) for rc in lists[j::SLICES] for hv in header_variants_for(chain, rc)], res)
    return res.as_dict()


def vacuity(counters, tier):
    if counters.get('configs_run', 0) != _nparts(tier):
        return []           # partial run (--only): totals are not meaningful
    problems = []
    for k in ('cases_split', 'cases_rewritten', 'cases_input_written_among_several', 'cases_date_added',
              'cases_message_id_added', 'cases_received_added', 'alias_pairs_probed'):
        if not counters.get(k):
            problems.append('counter %s is 0' % k)
    lists = list(all_rcpt_lists())
    want = sum(len(header_variants_for(c, rc)) for c in all_chains(_max_chain(tier)) for rc in lists)
    if counters.get('cases') != want:
        problems.append('ran %r cases, the product is %d' % (counters.get('cases'), want))
    return problems


def replay(rep):
    chain = tuple(rep['chain'])
    for name in chain:
        if name not in POLICY_NAMES:
            raise HarnessError('unknown policy in replay: %r' % (name,))
    collect = []
    res = Result()
    run_chain(chain, [(tuple(rep['rcpts']), int(rep['hdr']))], res, collect)
    vs, info = collect[0]
    if vs:
        return True, vs[0][1]
    if res.violations:
        return True, res.violations[0]['message']
    return False, ('written recipient groups %r equal the reference; sender, body and original headers intact; '
                   'no shared state between the %d written envelope(s)' % (info['written'], info['n_written']))
