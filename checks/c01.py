"""C01 -- accepted mail is never lost: every recipient reaches a final disposition.

Deviation-bounded exhaustive exploration (engine.core.explore) of the queue world: a real Queue on
the virtual loop with each real storage backend, a scripted relay whose outcome per attempt is a data
choice over the documented contract (None / Reply / raise Transient / raise Permanent / raise other /
complete per-recipient mapping or sequence), backoff functions granting 0..2 retries, bounce messages
delivered through the same relay (feedback inside the explored space), relay/storage completions,
timers and the driver's enqueue calls interleaved by the explorer.  Oracle: recipient ledger.
"""
from engine.core import explore, Chooser
from engine.result import Result
from worlds.queue_world import QueueWorld, BACKOFFS

PROPERTY = 'C01'
LEVEL = 'model_checking'
EXHAUSTIVE = True
BACKENDS = ('dict', 'shelf', 'disk', 'redis', 'cloud')

RULE = ('per configuration (backend x backoff x messages x recipients x pools x bounce set-up): all relay outcome '
        'histories with at most dd non-default outcomes and all loop-level schedules with at most d deviations, '
        'quiescent states merged on (timers, pending events, timetable, in-flight set, storage content, ledger, monitor '
        'state); obligations at quiescence: no recipient outstanding, nothing removed while outstanding, every attempt '
        'carries exactly the outstanding recipients, every failed recipient of a message with a sender is named in an '
        'enqueued bounce.  Non-trivial = execution with a retry, a partial result or a bounce.')
ASSUMPTIONS = ['the virtual gevent loop is bound to the real one by replaying scenarios (default schedule, scripted outcomes) on the real loop with scaled real time and comparing the attempt sequences', 'real PipeRelay/MaildropRelay/StaticSmtpRelay/StaticLmtpRelay/HttpRelay configurations use a scripted downstream (fake Popen, scripted peer over in-memory sockets, scripted HTTP origin)', 'ScriptedRelay outcomes are restricted to the documented Relay.attempt contract (complete mappings, values '
               'None / Reply / relay errors)', 'fake redis client and fake cloud object store (aws.py semantics); in-memory FS for disk',
               'gevent FIFO dispatch of ready callbacks is platform semantics']


def BOUNDS(tier):
    return {'messages': '1 (dd<=3, d<=1) and 2 (dd<=2, d<=1)' if tier == 'quick' else '1 (dd<=4, d<=2) and 2 (dd<=3, d<=2)',
            'recipients': '<=2' if tier == 'quick' else '<=3', 'attempts_per_message': '<=3 (backoffs grant 0..2 retries)'}


def configs(tier, seed):
    cfgs = []
    q = tier == 'quick'
    for b in BACKENDS:
        for bo in ('never', 'r0x2', 'r10', 'r10-20', 'r5-5'):
            cfgs.append(dict(backend=b, backoff=bo, n=2, messages=1, d=1 if q else 2, dd=3 if q else 4,
                             menu=dict(sequences=(b == 'dict'))))
        cfgs.append(dict(backend=b, backoff='r10', n=1, messages=1, d=1, dd=3 if q else 4, menu=dict(sequences=True)))
        cfgs.append(dict(backend=b, backoff='r0-10', n=2, messages=2, d=1 if q else 2, dd=2 if q else 3, menu={}))
        cfgs.append(dict(backend=b, backoff='r10', n=2, messages=2, d=1, dd=2, menu={}, relay_pool=1, store_pool=1))
        cfgs.append(dict(backend=b, backoff='r10', n=2, messages=1, d=1, dd=3, menu={}, bounce='none'))
        cfgs.append(dict(backend=b, backoff='r10', n=2, messages=1, d=1, dd=3, menu={}, bounce_queue='separate'))
        if b in ('dict', 'shelf', 'disk'):
            # bounded store pool alone (redis/cloud park wait() in a store slot, so size 1 would accept nothing at all)
            cfgs.append(dict(backend=b, backoff='r10', n=2, messages=2, d=1, dd=2 if q else 3, menu={}, store_pool=1))
            cfgs.append(dict(backend=b, backoff='r10', n=2, messages=2, d=1, dd=2 if q else 3, menu={}, store_pool=2, relay_pool=1))
            cfgs.append(dict(backend=b, backoff='r10', n=2, messages=1, d=1, dd=3, menu={}, bounce_queue='separate-real'))
        cfgs.append(dict(backend=b, backoff='r10', n=2, messages=1, d=1, dd=3, menu={}, senders={0: ''}))
        cfgs.append(dict(backend=b, backoff='r0x2', n=2, messages=1, d=0, dd=3, menu={}, unicode_rcpts=True, unicode_replies=True))
        cfgs.append(dict(backend=b, backoff='r10', n=2, messages=0, prestored=1, d=1, dd=3, menu={}))
        cfgs.append(dict(backend=b, backoff='r10-20', n=1, messages=1, script=[['enqueue', 0], ['flush']], d=2, dd=3, menu=dict(per_recipient=False)))
        cfgs.append(dict(backend=b, backoff='r0x2', n=2, messages=1, d=0, dd=3, menu=dict(reversed_maps=True, boom=False, reply_ok=False)))
        cfgs.append(dict(backend=b, backoff='r0x2', n=3, messages=1, d=0, dd=2, menu=dict(reversed_maps=True, boom=False, reply_ok=False)))
        # real relay classes in front of a scripted downstream: what they return meets what the queue understands
        for rk in ('pipe', 'pipe-whole', 'maildrop', 'smtp', 'lmtp', 'http'):
            if b in ('dict', 'disk') or not q:
                cfgs.append(dict(backend=b, backoff='r0x2', n=2, messages=1, d=0, dd=3 if (q or rk in ('smtp', 'lmtp', 'http')) else 4, relay_kind=rk, menu={}))
        if b in ('dict', 'disk'):
            # one HttpRelay object (pool of one) serving every attempt of the execution
            cfgs.append(dict(backend=b, backoff='r0x2', n=2, messages=1, d=0, dd=3, relay_kind='http', persistent_relay=True, menu={}, max_steps=2000))
        if not q:
            cfgs.append(dict(backend=b, backoff='r10-20', n=3, messages=1, d=1, dd=3, menu={}))
            cfgs.append(dict(backend=b, backoff='r10', n=2, messages=2, d=2, dd=2, menu={}, relay_pool=2, store_pool=2))
    # restart over several stored messages, the start-up listing read record by record while deliveries (and removals) go on
    for b in ('disk', 'dict'):
        cfgs.append(dict(backend=b, backoff='r0x2', n=1, messages=0, prestored=4, prestored_due=0.0, store_pool=1, slow_ops=['load-step', 'get'],
                         d=1 if q else 2, dd=1, menu={}, max_steps=2000))
        cfgs.append(dict(backend=b, backoff='r10', n=1, messages=0, prestored=3, prestored_due=0.0, slow_ops=['load-step'], d=2, dd=1, menu={}, max_steps=2000))
    # a half-written message (envelope file without its meta file, left by a kill) among the stored ones: the others are
    # still accepted messages and must be resumed
    for k in (0, 1):
        cfgs.append(dict(backend='disk', backoff='r10', n=1, messages=0, prestored=3, prestored_due=0.0, damage_meta=k, d=1, dd=2, menu={}))
    nconf = 16 if tier == 'quick' else 32
    cfgs += [{'mode': 'conformance', 'k': k, 'of': nconf, 'take': 1 if tier == 'quick' else 6} for k in range(nconf)]
    return cfgs


def bounce_obligations(qw):
    """every failed recipient of a non-bounce message with a sender is named in an enqueued bounce
    (when the factory produced one)."""
    out = []
    for qid, led in sorted(qw.ledger.items()):
        if led['bounce'] or not led['sender']:
            # no bounce may be generated for a null sender
            continue
        for rcpt, reply in sorted(led['failed'].items()):
            recs = [b for b in qw.bounces if rcpt in b['rcpts'] and b['sender'] == led['sender']]
            if recs and all(b.get('raised') for b in recs):
                out.append(('bounce-could-not-be-built', 'recipient %s of %s failed (%r) but building its bounce raised %s' % (rcpt, qid, reply, recs[0]['raised'])))
            elif not recs:
                out.append(('failed-recipient-not-bounced', 'recipient %s of %s failed (%r) but no bounce was built for it' % (rcpt, qid, reply)))
            elif all(b['produced'] and not b['enqueued'] for b in recs):
                out.append(('bounce-not-enqueued', 'bounce for %s of %s was built but never handed to the bounce queue' % (rcpt, qid)))
            elif all(b['produced'] and not b.get('stored') for b in recs) and qw.cfg.get('fail_writes') is None:
                out.append(('bounce-never-stored', 'bounce for %s of %s was handed to the bounce queue, whose enqueue() never wrote it' % (rcpt, qid)))
    return out


def run_one(cfg, ch):
    if 'script' in cfg:
        cfg = dict(cfg, script=[tuple(a) for a in cfg['script']])
    qw = QueueWorld(ch, cfg)
    obs = qw.run()
    viols = list(qw.violations) + bounce_obligations(qw)
    return qw, obs, viols


def signature(cfg, qw, kind):
    errs = sorted(set(e[0] for e in qw.errors))
    partial = any((a['outcome'] or '').startswith(('map', 'seq', 'rmap')) for a in qw.attempts)
    rounds = max([v['attempts'] for v in qw.ledger.values()] or [0])
    mech = 'pool-deadlock' if getattr(qw, 'pool_deadlock', False) else 'other'
    marks = {}
    for e in qw.events:
        if e[1] == 'store' and e[2] == 'set_recipients_delivered':
            marks[e[3]] = marks.get(e[3], 0) + 1
    if mech == 'other' and max(marks.values() or [0]) >= 2:
        mech = 'multi-round-marking'
    return {'kind': kind, 'backend': cfg['backend'], 'exception': ','.join(errs) or 'none', 'relay': cfg.get('relay_kind', 'scripted'),
            'index_model': 'differs' if qw.index_model_differs else 'matches',
            'partial_result': partial, 'second_round': rounds >= 2, 'mechanism': mech,
            'blocked_at': getattr(qw, 'pool_blocked_at', '')}


def run_conformance(cfg, res):
    """virtual loop vs REAL gevent loop (scaled real time) on the same scenario"""
    from conformance.queue_real import scenarios, compare
    sc = list(scenarios())
    mine = sc[cfg['k']::cfg['of']][:cfg['take']]
    for wcfg, data in mine:
        err = compare(wcfg, data)
        res.traces_validated += 1
        res.evaluations += 2
        res.count('real_loop_replays')
        res.outcome(('conformance', tuple(data), err))
        if err:
            res.violation({'kind': 'virtual-loop-differs-from-real-loop'}, 'outcome choices %r: %s' % (data, err),
                          {'cfg': {'conformance': True, 'wcfg': wcfg, 'data': data}, 'choices': []})
    res.sample({'conformance': 'virtual loop vs real gevent loop', 'scenarios': [d for _, d in mine]})
    return res.as_dict()


def run_config(cfg, tier, seed):
    res = Result()
    if cfg.get('mode') == 'conformance':
        return run_conformance(cfg, res)
    wcfg = {k: v for k, v in cfg.items() if k not in ('d', 'dd')}

    def run(ch):
        qw, obs, viols = run_one(wcfg, ch)
        if any(a['attempts'] > 0 for a in qw.attempts) or qw.bounces or \
                any((a['outcome'] or '').startswith(('map', 'seq')) for a in qw.attempts):
            res.interesting(obs)
        seen = set()
        for kind, detail in viols:
            if kind in seen or kind in ('settled-recipient-attempted-again', 'two-attempts-in-flight',
                                        'finalised-message-left-in-storage'):
                continue        # C03's monitors / not part of C01
            seen.add(kind)
            res.violation(signature(wcfg, qw, kind),
                          '%s; attempts=%r; greenlet errors=%r' % (detail, [(a['qid'][-2:] if a['qid'] else None, a['rcpts'], a['outcome']) for a in qw.attempts], qw.errors[:3]),
                          {'cfg': wcfg, 'choices': ch.choices})
        if qw.bounces:
            res.count('executions_with_bounce')
        if any(a['attempts'] > 0 for a in qw.attempts):
            res.count('executions_with_retry')
        return obs
    st = explore(run, d=cfg['d'], dd=cfg['dd'], merge=True)
    res.add_stats(st)
    res.traces_validated += 0
    res.sample({'config': cfg, 'executions': st.executions, 'states': len(st.states), 'max_depth': st.max_depth})
    return res.as_dict()


def vacuity(counters, tier):
    p = []
    if counters.get('executions_with_retry', 0) < 100:
        p.append('fewer than 100 executions with a retry')
    if counters.get('executions_with_bounce', 0) < 100:
        p.append('fewer than 100 executions with a bounce')
    return p


def replay(rep):
    if rep['cfg'].get('conformance'):
        from conformance.queue_real import compare
        err = compare(rep['cfg']['wcfg'], rep['cfg']['data'])
        return (True, err) if err else (False, 'virtual and real loop agree')
    ch = Chooser(rep['choices'])
    qw, obs, viols = run_one(rep['cfg'], ch)
    viols = [v for v in viols if v[0] not in ('settled-recipient-attempted-again', 'two-attempts-in-flight',
                                              'finalised-message-left-in-storage')]
    if viols:
        return True, '%s: %s' % viols[0]
    return False, 'ledger obligations hold: %r' % (obs[1],)
