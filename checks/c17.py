"""C17 -- replies survive the wire: encode/parse round trip and exact consumption.

Real ``Reply.send`` -> real ``IO.send_reply`` produces the wire bytes; a second real ``IO`` over a
scripted socket parses them back with ``Reply.recv`` under ALL segmentations (continuation-merged
search, engine.seq.AllSegmentations).  Malformed inputs are enumerated exhaustively over a small
alphabet and judged by a strict three-valued reference parser.
"""
import itertools
import re

from slimta.smtp.io import IO
from slimta.smtp.reply import Reply
from slimta.smtp import ConnectionLost, BadReply

from engine.result import Result, b2s, s2b
from engine.seq import ScriptSocket, AllSegmentations, FixedCtl

PROPERTY = 'C17'
LEVEL = 'exploration'
EXHAUSTIVE = True
UNITS = ['a', ' ', '\r', '\n', '-', 'é', '2.1.0 ', '5.0.0 ']
CODES_B = ['250', '354', '450', '550', '421']
MAL = [b'2', b'5', b' ', b'-', b'x', b'\r', b'\n', b'\xff']
POOL = [('250', 'ok'), ('250', 'first\r\nsecond'), ('550', '5.1.1 no such user'), ('354', 'go'),
        ('421', '4.4.2 bye\n'), ('250', ''), ('451', 'a\n\nb'), ('250', '-x\r\n-')]

RULE = ('A: every code 200..599 x 12 texts (incl. U+FEFF first / inside, ESC look-alikes of classes 1, 3, 6 and malformed ones); B: code 250 x every text (and codes 354/450/550/421 x every text of <= 3 units, <= 4 in thorough) over 8 units '
        '{a,SP,CR,LF,-,e-acute,"2.1.0 ","5.0.0 "} up to 4 (quick) / 5 (thorough) units, first unit not white '
        'space; C: every sequence of 1..2 replies from a pool of 8 and every sequence of 3 from a pool of 3 (quick) / 8 (thorough), reading 1..k of them (exact consumption); '
        'all under ALL segmentations of the wire stream (continuation-merged). D: every byte string over '
        '{2,5,SP,-,x,CR,LF,0xFF} up to 5 (quick) / 6 (thorough) bytes then EOF, under one burst, byte-by-byte and '
        'every single cut, against a strict three-valued reference parser; E: every sequence of 2..3 (4) lines from a 9-line menu '
        '(same/different codes, dash/space/tab separators, bad code) x CRLF/LF.  Non-trivial = multi-line, ESC-bearing, '
        'non-ASCII, CR/LF-bearing or malformed.')
ASSUMPTIONS = ['text symbols outside the unit alphabet behave like "a"',
               'a reply whose receiver object had enhanced_status_code=False set (banner/EHLO) is compared with a sender '
               'object configured the same way',
               'three-digit codes outside 1xx-5xx and a bare "250<CRLF>" line are left undefined by the property: '
               'BadReply, ValueError or a parsed reply are all accepted for them']


def BOUNDS(tier):
    return {'text_units': 4 if tier == 'quick' else 5, 'malformed_len': 5 if tier == 'quick' else 6,
            'sequence_len': 3, 'segmentations': 'all'}


def norm(text):
    return re.sub(r'\r?\n', '\r\n', text)


def wire_of(replies, esc_false=False):
    sock = ScriptSocket(b'', FixedCtl('all'))
    io = IO(sock, ('peer', 0))
    sent = []
    for code, text in replies:
        if esc_false == 'before':
            # the order the server uses for its greeting replies: enhanced status codes switched off first, the text
            # assigned afterwards (by a handler); the peer reads it with an ordinary Reply
            r = Reply(code)
            r.enhanced_status_code = False
            r.message = text
        else:
            r = Reply(code, text)
            if esc_false:
                r.enhanced_status_code = False
        r.send(io)
        sent.append((r.code, r.message, r.enhanced_status_code))
    io.flush_send()
    return sock.sent(), sent


def make_body(k, esc_false=False):
    def body(sock):
        io = IO(sock, ('peer', 0))
        got = []
        try:
            for _ in range(k):
                r = Reply()
                if esc_false is True:
                    r.enhanced_status_code = False
                r.recv(io)
                got.append((r.code, r.message, r.enhanced_status_code))
        except ConnectionLost:
            got.append('lost')
        except BadReply:
            got.append('bad')
        except ValueError as e:
            got.append('valueerror')
        return (tuple(got), io.recv_buffer + sock.unread())
    return body


def check_client_greeting(code, text, res):
    """The greeting as the real Server writes it (enhanced status codes off, then the text) read by the real Client's
    get_banner(): the reply object it returns holds the text that was written."""
    from slimta.smtp.client import Client
    wire, sent = wire_of([(code, text)], 'before')
    out = []
    rep = {'kind': 'greeting', 'code': code, 'text': text}
    for mode in ('all', 'byte'):
        sock = ScriptSocket(wire, FixedCtl(mode))
        res.evaluations += 1
        try:
            r = Client(sock, ('mx', 25)).get_banner()
            got = (r.code, norm(r.message) if r.message is not None else None)
        except Exception as e:
            got = ('raised', type(e).__name__)
        want = (sent[0][0], norm(sent[0][1]) if sent[0][1] is not None else None)
        if got != want:
            out.append(({'part': 'client-greeting', 'kind': 'parsed-differs', 'text_class': text_class(text)},
                        'greeting %r written as %r: Client.get_banner() returned %r, written was %r (%s at a time)' % ((code, text), wire, got, want, mode), rep))
            break
    return out


def text_class(text):
    c = []
    if '\n' in text:
        c.append('multiline')
    if re.search(r'\r(?!\n)', text):
        c.append('bare-cr')
    if re.search(r'(^|\n)[245]\.\d', text):
        c.append('esc')
    if 'é' in text:
        c.append('utf8')
    if text == '' or text.endswith('\n'):
        c.append('empty-last-line')
    return '+'.join(c) or 'plain'


def check_roundtrip(replies, k, res, esc_false=False):
    """replies: list of (code, text) sent back to back; the receiver reads the first k."""
    try:
        wire, sent = wire_of(replies, esc_false)
        wire_k, _ = wire_of(replies[:k], esc_false)
    except Exception as e:
        # building or writing a reply with a legal code and text must not raise
        return [({'part': 'roundtrip', 'kind': 'construct-or-send-raised', 'exception': type(e).__name__, 'text_class': text_class(replies[0][1])},
                 'replies %r: Reply(...) / send() raised %r' % (replies, e),
                 {'kind': 'roundtrip', 'replies': [[c, t] for c, t in replies], 'k': k, 'esc_false': esc_false})]
    rest = wire[len(wire_k):]
    expected = (tuple((c, norm(m) if m is not None else m) for c, m, e in sent[:k]), rest)
    ex = AllSegmentations(make_body(k, esc_false), wire)
    outs = ex.explore()
    res.evaluations += ex.execs
    res.states += len(ex.memo)
    res.transitions += ex.transitions
    res.traces_validated += ex.validated
    res.count('segmentation_states', len(ex.memo))
    viol = []
    if ex.validation_failures:
        res.count('merge_validation_failed')
        # abstraction defect, not a property violation: fall back to cut-bounded enumeration
        outs = set()
        from engine.seq import segmentations_upto
        for cuts in segmentations_upto(len(wire), 2):
            sock = ScriptSocket(wire, FixedCtl(list(cuts)))
            outs.add(make_body(k, esc_false)(sock))
    for o in outs:
        res.outcome(o)
    rep = {'kind': 'roundtrip', 'replies': [[c, t] for c, t in replies], 'k': k, 'esc_false': esc_false}
    cls = text_class(replies[0][1])
    if len(outs) != 1:
        viol.append(({'part': 'roundtrip', 'kind': 'segmentation-dependent', 'text_class': cls},
                     'replies %r wire %r: %d different outcomes over segmentations: %r' % (replies, wire, len(outs), sorted(map(repr, outs))[:3]), rep))
    else:
        got = next(iter(outs))
        gnorm = (tuple((g[0], norm(g[1]) if g[1] is not None else g[1]) if isinstance(g, tuple) else g
                       for g in got[0]), got[1])
        if esc_false == 'before':
            # writer without, reader with enhanced status codes: the reader supplies the default code for a text that has none
            fixed = []
            for g, (sc, sm, se) in zip(gnorm[0], sent[:k]):
                if isinstance(g, tuple) and g[1] is not None and not re.match(r'^[245]\.\d{1,3}\.\d{1,3}\s', sm or '') \
                        and g[1].startswith(g[0][0] + '.0.0 '):
                    g = (g[0], g[1][6:])
                elif isinstance(g, tuple) and g[1] == g[0][0] + '.0.0' and not sm:
                    g = (g[0], '')
                fixed.append(g)
            gnorm = (tuple(fixed), gnorm[1])
        if gnorm != expected:
            if gnorm[0] != expected[0]:
                kind = 'parsed-differs'
                if any(not isinstance(g, tuple) for g in gnorm[0]):
                    kind = 'error:' + str([g for g in gnorm[0] if not isinstance(g, tuple)][0])
            else:
                kind = 'consumption'
            mech = 'other'
            if kind == 'parsed-differs':
                # which reply differs, and is it the known ESC quirk (ESC-looking text on a 1xx/3xx code)?
                for (sc, sm, se), g in zip(sent[:k], gnorm[0]):
                    if isinstance(g, tuple) and (sc, norm(sm)) != g:
                        if sc[0] in '13' and re.match(r'^[245]\.\d\d?\d?\.\d\d?\d?\s+', sm or ''):
                            mech = 'esc-looking-text-on-1xx-3xx-code'
                        break
            viol.append(({'part': 'roundtrip', 'kind': kind, 'mechanism': mech},
                         'replies %r (first %d read) wire %r: got %r expected %r' % (replies, k, wire, gnorm, expected), rep))
        for g in got[0]:
            if isinstance(g, tuple) and g[2] and g[2][0] != g[0][0]:
                viol.append(({'part': 'roundtrip', 'kind': 'esc-class', 'text_class': cls},
                             'reply %r has ESC %r' % (g, g[2]), rep))
    return viol


# ---- part F: histories of attribute assignments on one Reply object
F_OPS = ([('code', c) for c in ('250', '450', '550', '354')] +
         [('message', m) for m in ('2.1.0 ok', 'plain text', '5.7.1 denied', '4.3.0 later\r\nsecond line', '')] +
         [('esc', e) for e in ('2.1.5', '5.0.0', '4.4.4', None)] +
         [('copy', n) for n in ('timed_out', 'unknown_command', 'tls_failure')])        # Reply.copy() of a pre-defined reply
_wire_esc = re.compile(br'^(\d)\d\d[ -]([245])\.\d{1,3}\.\d{1,3}(?= |\r|$)')


def check_history(hist, res):
    """Applies the assignments to one Reply (starting from Reply('250', 'ok')); after every step the object and what it
    writes must agree on the class: ESC class == code class, on the object and on every line of the wire form."""
    r = Reply('250', 'ok')
    out = []
    for i, (attr, val) in enumerate(hist):
        try:
            if attr == 'code':
                r.code = val
            elif attr == 'message':
                r.message = val
            elif attr == 'copy':
                import slimta.smtp.reply as _rm
                r.copy(getattr(_rm, val))
            else:
                r.enhanced_status_code = val
        except Exception as e:
            out.append(({'part': 'history', 'kind': 'setter-raised', 'exception': type(e).__name__},
                        'history %r: step %d raised %r' % (hist, i, e), {'kind': 'history', 'hist': [list(h) for h in hist]}))
            return out
        code = r.code
        esc = r.enhanced_status_code
        sock = ScriptSocket(b'', FixedCtl('all'))
        io = IO(sock, ('peer', 0))
        r.send(io)
        io.flush_send()
        wire = sock.sent()
        res.outcome((code, esc, wire))
        rep = {'kind': 'history', 'hist': [list(h) for h in hist[:i + 1]]}
        if esc and code and code[0] in '245' and esc[0] != code[0]:
            out.append(({'part': 'history', 'kind': 'esc-class', 'where': 'object', 'last_op': attr},
                        'history %r: after step %d the reply has code %s and ESC %s' % (hist[:i + 1], i, code, esc), rep))
        # what was written is a reply and nothing else: parsed back it gives the same code and text
        back = make_body(1)(ScriptSocket(wire, FixedCtl('all')))
        want = ((code, norm(r.message) if r.message is not None else None),)
        got = tuple((g[0], norm(g[1]) if g[1] is not None else None) if isinstance(g, tuple) else g for g in back[0])
        if code and code[0] in '245' and (got != want or back[1] != b''):
            out.append(({'part': 'history', 'kind': 'written-reply-not-parsed-back', 'last_op': attr},
                        'history %r: after step %d the reply (%s %r) is written as %r, which parses back as %r leaving %r'
                        % (hist[:i + 1], i, code, r.message, wire, got, back[1]), rep))
            return out
        for line in wire.split(b'\r\n'):
            m = _wire_esc.match(line)
            if m and m.group(1) in b'245' and m.group(1) != m.group(2):
                out.append(({'part': 'history', 'kind': 'esc-class', 'where': 'wire', 'last_op': attr},
                            'history %r: after step %d the reply is written as %r' % (hist[:i + 1], i, wire), rep))
                break
        if out:
            return out
    return out


# ---- reference parser for part D (three-valued)
_ref_line = re.compile(br'^(\d\d\d)([ \t-])(.*)$', re.S)


def ref_parse(data):
    """-> ('ok', code, text, consumed) | ('bad',) | ('lost',) | ('undefined',)"""
    pos, code, lines = 0, None, []
    while True:
        nl = data.find(b'\n', pos)
        if nl < 0:
            return ('lost',)
        line = data[pos:nl]
        if line.endswith(b'\r'):
            line = line[:-1]
        pos = nl + 1
        m = _ref_line.match(line)
        if not m:
            if re.match(br'^\d\d\d$', line):
                return ('undefined',)
            return ('bad',)
        if code is not None and m.group(1) != code:
            return ('bad',)
        code = m.group(1)
        lines.append(m.group(3))
        if m.group(2) != b'-':
            break
    if not re.match(br'^[1-5]', code):
        return ('undefined',)
    try:
        text = b'\r\n'.join(lines).decode('utf-8')
    except UnicodeDecodeError:
        return ('bad',)
    return ('ok', code.decode('ascii'), text, pos)


def check_malformed(data, res):
    ref = ref_parse(data)
    body = make_body(1)
    n = len(data)
    modes = ['all', 'byte'] + [[c] for c in range(1, n)]
    outs = set()
    for mode in modes:
        sock = ScriptSocket(data, FixedCtl(mode))
        try:
            outs.add(body(sock))
        except Exception as e:
            outs.add((('exception:' + type(e).__name__,), b''))
        res.evaluations += 1
    for o in outs:
        res.outcome(o[0])
    rep = {'kind': 'malformed', 'data': b2s(data)}
    viol = []
    if ref[0] == 'undefined':
        return viol
    if len(outs) != 1:
        viol.append(({'part': 'malformed', 'kind': 'segmentation-dependent', 'ref': ref[0]},
                     'input %r: outcomes differ with segmentation: %r' % (data, sorted(map(repr, outs))[:3]), rep))
        return viol
    got, left = next(iter(outs))
    if ref[0] == 'ok':
        exp = Reply(ref[1], ref[2])
        want = ((exp.code, exp.message, exp.enhanced_status_code),)
        if got != want or left != data[ref[3]:]:
            viol.append(({'part': 'malformed', 'kind': 'wellformed-misparsed', 'ref': 'ok'},
                         'input %r: got %r leftover %r, reference says %r leftover %r' % (data, got, left, want, data[ref[3]:]), rep))
    elif ref[0] == 'bad':
        if got not in (('bad',),):
            viol.append(({'part': 'malformed', 'kind': 'malformed-accepted-or-wrong-error', 'got': repr(got)[:40]},
                         'input %r is malformed (reference: BadReply) but the parser produced %r' % (data, got), rep))
    elif ref[0] == 'lost':
        if got not in (('lost',), ('bad',)):
            viol.append(({'part': 'malformed', 'kind': 'incomplete-not-reported', 'got': repr(got)[:40]},
                         'input %r is incomplete (EOF) but the parser produced %r' % (data, got), rep))
    return viol


def texts(maxu):
    for n in range(0, maxu + 1):
        for tup in itertools.product(UNITS, repeat=n):
            if tup and tup[0] in (' ', '\r', '\n'):
                continue
            yield n, ''.join(tup)


TEXTS_A = ['ok', 'two\r\nlines', '2.1.0 esc', '5.0.0 wrongclass\n',
           # tokens that look like an enhanced status code but are not one (class outside 2/4/5, too few or too many fields)
           '3.1.4 is pi', '1.2.3 x', '6.0.0 y', '2.1 short', '4.7.1.9 long', '5.1.1',
           # U+FEFF is an ordinary character of the text, also in first position
           '\ufeffbom first', 'bom\ufeff inside']


ELINES = [b'250-a', b'250 a', b'251-b', b'251 b', b'550-c', b'550 c', b'25x d', b'250-', b'250\tt']


def configs(tier, seed):
    cfgs = [{'part': 'A', 'lo': lo, 'hi': lo + 25} for lo in range(200, 600, 25)]
    cfgs += [{'part': 'E', 'k': k, 'of': 4} for k in range(4)]
    cfgs += [{'part': 'F', 'k': k, 'of': 4} for k in range(4)]
    cfgs += [{'part': 'B', 'k': k, 'of': 48} for k in range(48)]
    cfgs += [{'part': 'C', 'k': k, 'of': 48} for k in range(48)]
    cfgs += [{'part': 'D', 'k': k, 'of': 32} for k in range(32)]
    return cfgs


def run_config(cfg, tier, seed):
    res = Result()
    part = cfg['part']
    if part == 'A':
        for code in range(cfg['lo'], cfg['hi']):
            for t in TEXTS_A:
                for esc_false in ((False, True, 'before') if t in ('ok', '2.1.0 esc', '\ufeffbom first') else (False, 'before')):
                    for v in check_roundtrip([(str(code), t)], 1, res, esc_false):
                        res.violation(*v)
                res.interesting((code, t))
                res.count('roundtrip_cases')
                if code in (220, 221, 421, 450, 521, 554):
                    for v in check_client_greeting(str(code), t, res):
                        res.violation(*v)
                    res.count('client_greeting_cases')
        res.sample({'part': 'A', 'code': cfg['lo'], 'texts': TEXTS_A})
    elif part == 'B':
        maxu = 4 if tier == 'quick' else 5
        for i, (nu, t) in enumerate(texts(maxu)):
            if i % cfg['of'] != cfg['k']:
                continue
            for code in (CODES_B if nu <= (3 if tier == 'quick' else 4) else CODES_B[:1]):
                for v in check_roundtrip([(code, t)], 1, res):
                    res.violation(*v)
                if text_class(t) != 'plain':
                    res.interesting((code, t))
                res.count('roundtrip_cases')
            if i % 1009 == cfg['k']:
                res.sample({'part': 'B', 'text': t, 'wire': b2s(wire_of([('250', t)])[0])})
    elif part == 'C':
        i = 0
        for n in (1, 2, 3):
            pool = POOL if (n < 3 or tier == 'thorough') else POOL[1:4]
            for seq in itertools.product(pool, repeat=n):
                i += 1
                if i % cfg['of'] != cfg['k']:
                    continue
                for k in range(1, n + 1):
                    for v in check_roundtrip(list(seq), k, res):
                        res.violation(*v)
                    res.interesting((seq, k))
                    res.count('sequence_cases')
                if i % 97 == cfg['k']:
                    res.sample({'part': 'C', 'replies': seq, 'wire': b2s(wire_of(list(seq))[0])})
    elif part == 'F':
        depth = 3 if tier == 'quick' else 4
        i = 0
        for n in range(1, depth + 1):
            for hist in itertools.product(F_OPS, repeat=n):
                i += 1
                if i % cfg['of'] != cfg['k']:
                    continue
                res.evaluations += 1
                res.count('assignment_histories')
                res.interesting(hist)
                for v in check_history(hist, res):
                    res.violation(*v)
        res.sample({'part': 'F', 'history': [['message', '2.1.0 ok'], ['code', '550']], 'depth': depth})
    elif part == 'E':
        # multi-line shapes: every sequence of 2..3 (4 thorough) lines from a menu, CRLF or LF terminated
        i = 0
        for n in ((2, 3) if tier == 'quick' else (2, 3, 4)):
            for tup in itertools.product(ELINES, repeat=n):
                for eol in (b'\r\n', b'\n'):
                    i += 1
                    if i % cfg['of'] != cfg['k']:
                        continue
                    data = b''.join(l + eol for l in tup)
                    for v in check_malformed(data, res):
                        res.violation(*v)
                    res.interesting(data)
                    res.count('multiline_shape_cases')
        res.sample({'part': 'E', 'input': b2s(b'250-a\r\n550 c\r\n'), 'reference': ref_parse(b'250-a\r\n550 c\r\n')[0]})
    else:
        maxl = 5 if tier == 'quick' else 6
        i = 0
        for n in range(1, maxl + 1):
            for tup in itertools.product(MAL, repeat=n):
                i += 1
                if i % cfg['of'] != cfg['k']:
                    continue
                data = b''.join(tup)
                for v in check_malformed(data, res):
                    res.violation(*v)
                res.interesting(data)
                res.count('malformed_cases')
                if i % 4001 == cfg['k']:
                    res.sample({'part': 'D', 'input': b2s(data), 'reference': ref_parse(data)[0]})
    return res.as_dict()


def vacuity(counters, tier):
    p = []
    if counters.get('segmentation_states', 0) < 1000:
        p.append('too few segmentation states')
    if counters.get('malformed_cases', 0) < 1000:
        p.append('too few malformed cases')
    return p


def replay(rep):
    if rep.get('kind') == 'greeting':
        res = Result()
        vs = check_client_greeting(rep['code'], rep['text'], res)
        if vs:
            return True, vs[0][1]
        return False, 'the client returns the greeting as written'
    res = Result()
    if rep['kind'] == 'history':
        vs = check_history([tuple(h) for h in rep['hist']], res)
    elif rep['kind'] == 'roundtrip':
        vs = check_roundtrip([tuple(x) for x in rep['replies']], rep['k'], res, rep.get('esc_false', False))
    else:
        vs = check_malformed(s2b(rep['data']), res)
    if vs:
        return True, vs[0][1]
    return False, 'round trip / reference parse agrees under every explored segmentation'
