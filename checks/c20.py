"""C20 -- envelope parsing keeps the body byte-exact and the headers intact.

Pure bounded-exhaustive enumeration of message bytes fed to the real ``Envelope.parse`` /
``flatten`` / ``copy`` / pickle round trip / ``encode_7bit``.  Six exhaustively enumerated families:

  S  strong claim, header-wide : EVERY header block (1..3 fields, names from the multiset
     {Subject, X-A, X-A, To}, every assignment of value kinds) written "Name: value" x {CRLF, LF}
     x every body over {NUL, CR, LF, '.', 'a', 0xFF} up to a small length.
  B  strong claim, body-deep   : every one-field block and every (X-A, X-A) block x line ending x
     every LONGER body over the same alphabet (the lengths family S leaves out).
  N  strong claim, "Name:value": the blocks of family B written without the optional space after the
     colon (equally well-formed, RFC 5322 3.6.8) x line ending x bodies of length <= 1.
  W  weak claim                : every byte string over {'a', ':', ' ', CR, LF, 0xFF} up to length L.
  WL weak claim, long lines    : every sequence of long tokens (100 and 1000 byte runs, ...).
  E  7-bit conversion          : every UTF-8 text over {'e-acute', 'a', CRLF} (and over a scaled
     alphabet that forces base64 / quoted-printable line wrapping) x header set x encoder.

Oracle (strong claim).  The expected header fields are computed from the INPUT bytes by a small
reference reader written here (split lines, unfold, cut at the first ':', strip outer SP/TAB) -- the
email package is not used -- and flatten()'s header bytes are read back by the same reader.  "Same
value" = same bytes after unfolding and stripping the white space next to the colon / line end, so
a different choice of fold position or "Name:v" vs "Name: v" is tolerated, anything that changes the
value's bytes is not.  Names are compared case-insensitively.  flatten()'s header bytes must use
CRLF only and end with an empty line; the body must be the exact bytes after the first blank line.
Copies and unpickled envelopes must flatten to the same (they are only re-judged when their bytes
differ from the original's), a mutated copy must leave the original untouched, and
parse(flatten()) must flatten to identical bytes.
"""
import itertools
import pickle
import re
import email
from email.encoders import encode_base64, encode_quopri

from slimta.envelope import Envelope

from engine.result import Result, b2s, s2b

PROPERTY = 'C20'
LEVEL = 'exploration'
EXHAUSTIVE = True

BODY_ALPHABET = [b'\x00', b'\r', b'\n', b'.', b'a', b'\xff']
WEAK_ALPHABET = [b'a', b':', b' ', b'\r', b'\n', b'\xff']
WEAK_LONG_TOKENS = [b'a' * 100, b'a' * 1000, b'X-A: ', b' ', b'\r\n', b'\n', b'\xff\xff', b'\xff' * 100, b':']
NAMES = ['Subject', 'X-A', 'To']
NAME_MULTISET = ['Subject', 'X-A', 'X-A', 'To']
KINDS = ['plain', 'folded', '8bit', 'long', 'long8']
EOLS = {'CRLF': b'\r\n', 'LF': b'\n'}
# family CT: a Content-Type field whose value makes a MIME parser look into the body (the envelope must not)
CT_KINDS = {'ct-rfc822': b'message/rfc822', 'ct-dsn': b'message/delivery-status', 'ct-mixed': b'multipart/mixed; boundary="b"',
            'ct-digest': b'multipart/digest; boundary=b', 'ct-text8': b'text/plain; charset=utf-8', 'ct-odd': b'x-unknown/x-thing'}
CT_BODIES = [b'', b'Subject: inner\r\n\r\ninner body\r\n', b'Reporting-MTA: dns; x\r\n\r\nFinal-Recipient: rfc822; a@b\r\n',
             b'--b\r\nContent-Type: text/plain\r\n\r\npart \xe9\r\n--b--\r\n', b'preamble\n--b\n\nno final boundary', b'\x00\xff\r.\r\n',
             b'\r\n\r\nFrom: x\r\n']
# "Name: value" is what the design enumerates; "Name:value" is just as well-formed (RFC 5322 3.6.8)
# and satisfies every condition of the quantifier, so it is enumerated too.
SEPS = {'space': b': ', 'nospace': b':'}
MAX_LINE = 78
SEVEN_ALPHABET = [u'\xe9', u'a', u'\r\n']
SEVEN_SCALED = [u'\xe9' * 20, u'a' * 30, u'\r\n', u' \xe9 ']
SEVEN_HEADERS = [
    ('ct', [b'Content-Type: text/plain; charset=utf-8']),
    ('ct+cte8bit', [b'Content-Type: text/plain; charset=utf-8', b'Content-Transfer-Encoding: 8bit']),
    ('mime+ct+cte8bit+subject', [b'MIME-Version: 1.0', b'Content-Type: text/plain; charset="utf-8"',
                                 b'Content-Transfer-Encoding: 8bit', b'Subject: x']),
    ('subject+ct', [b'Subject: x', b'Content-Type: text/plain; charset=UTF-8']),
    # the header claims 7bit, the body is 8-bit all the same: what counts is the body
    ('ct+cte7bit', [b'Content-Type: text/plain; charset=utf-8', b'Content-Transfer-Encoding: 7bit']),
]
ENCODERS = {'base64': encode_base64, 'quoted-printable': encode_quopri, 'none': None}
# "decodes to the same text": the property does not say that the line-end convention of the decoded
# text is part of "the same text" (it says "byte-exact" where it means bytes), so CRLF vs LF in the
# decoded text is tolerated (and counted); set to True to demand identical code points.
STRICT_7BIT_LINE_ENDS = False

NS = 32      # work units of family S
NB = 32      # work units of family B
NN = 16      # work units of family N
NW = 16
NWL = 8
NE = 8


def _tier(tier):
    q = (tier == 'quick')
    return {
        's_body_max': 2 if q else 3,             # family S: bodies of length 0..s_body_max
        'b_body_max': 4 if q else 5,             # family B: bodies of length s_body_max+1..b_body_max
        'n_body_max': 1,                         # family N: bodies of length 0..1
        'weak_max': 6 if q else 7,
        'weak_long_max': 4 if q else 5,
        'seven_max': 5 if q else 7,
        'seven_scaled_max': 3 if q else 4,
    }


def BOUNDS(tier):
    t = _tier(tier)
    return {
        'header_names': NAME_MULTISET, 'fields_per_block': '1..3', 'value_kinds': KINDS,
        'line_endings': sorted(EOLS),
        'separators': '": " everywhere; ":" for the one-field and (X-A, X-A) blocks with bodies up to %d' % t['n_body_max'],
        'body_alphabet': ['NUL', 'CR', 'LF', '.', 'a', '0xFF'],
        'body_max_len_all_header_blocks': t['s_body_max'],
        'body_max_len_one_field_and_duplicate_blocks': t['b_body_max'],
        'weak_alphabet': ['a', ':', 'SP', 'CR', 'LF', '0xFF'], 'weak_max_len': t['weak_max'],
        'weak_long_tokens': ['a*100', 'a*1000', 'X-A: ', 'SP', 'CRLF', 'LF', '0xFF*2', '0xFF*100', ':'],
        'weak_long_max_tokens': t['weak_long_max'],
        '7bit_alphabet': ['U+00E9', 'a', 'CRLF'], '7bit_max_symbols': t['seven_max'],
        '7bit_scaled_alphabet': ['U+00E9*20', 'a*30', 'CRLF', 'SP U+00E9 SP'],
        '7bit_scaled_max_symbols': t['seven_scaled_max'],
        '7bit_header_sets': [n for n, _ in SEVEN_HEADERS], 'encoders': sorted(ENCODERS),
    }


RULE = ('strong claim: every sequence of 1..3 field names drawn from the multiset {Subject, X-A, X-A, To} '
        'x every assignment of value kinds {plain, folded, 8-bit, 78-byte line, folded 8-bit with two '
        '78-byte lines} x {CRLF, LF} x every body over {NUL, CR, LF, ".", "a", 0xFF} '
        'up to body_max_len_all_header_blocks, plus every longer body up to '
        'body_max_len_one_field_and_duplicate_blocks for all one-field and (X-A, X-A) blocks, plus the same '
        'one-field and (X-A, X-A) blocks written "Name:value" (no space after the colon) with bodies up to '
        'length 1; weak claim: '
        'every byte string over {a, ":", SP, CR, LF, 0xFF} up to weak_max_len and every sequence of long '
        'tokens up to weak_long_max_tokens; 7-bit: every text over the two alphabets up to the symbol bounds '
        'x header set x {base64, quoted-printable, no encoder}.  A strong case is non-trivial when the body is '
        'empty or has a leading blank line, NUL, lone CR, bare LF, dot line or 8-bit byte, or the block has a '
        'folded / 8-bit / 78-byte value, a duplicate name, LF line ends or no space after the colon; '
        'distinct_nontrivial counts distinct (names, kinds, line ending, separator, body feature set) classes '
        'of those (the number of cases is in counters.strong_nontrivial_cases); a weak case is non-trivial when '
        'it does not start with a well-formed field, or has a lone CR, an 8-bit byte or a line over 78 bytes; '
        'a 7-bit case is non-trivial when the body has an 8-bit character')
ASSUMPTIONS = [
    'bytes outside the body alphabet behave like "a" or 0xFF (the body is never interpreted by Envelope.parse)',
    'field names other than Subject / X-A / To and ASCII printable values other than the enumerated ones are '
    'treated alike by the raw-header path of email.policy.SMTP (values are only re-interpreted when a line '
    'exceeds 78 characters)',
    'control characters inside header values (obs-NO-WS-CTL, e.g. FF, VT, 0x1C-0x1E) are not "well-formed" and '
    'are not enumerated (str.splitlines in email.policy would split the value there)',
    'pickling is done the way DiskStorage, RedisStorage and the AWS cloud store do: pickle.HIGHEST_PROTOCOL',
    '7-bit: "the same text" is compared with CRLF and LF line ends identified (STRICT_7BIT_LINE_ENDS=False); '
    'the cases where base64 output decodes to LF-only text are counted in counters.seven_crlf_became_lf',
    '7-bit: without an encoder any exception counts as a refusal; UnicodeError is what the code documents',
]


# --------------------------------------------------------------------------- reference header reader

_WSP = b' \t'


def ref_fields(block):
    """Independent reader of a header block.  Returns (fields, problem): fields is a list of
    (name, value) with value unfolded (line breaks removed) and outer SP/TAB stripped; problem is
    None or a short string when the block is not a sequence of "name:value" lines + continuations
    followed by at most one empty line and nothing else."""
    lines = re.split(br'\r\n|\n', block)
    fields = []
    problem = None
    i = 0
    while i < len(lines):
        line = lines[i]
        if line == b'':
            break
        if line[:1] in (b' ', b'\t'):
            if not fields:
                return None, 'continuation-before-first-field'
            fields[-1][1] += line
        else:
            name, colon, value = line.partition(b':')
            if not colon:
                return None, 'line-without-colon'
            fields.append([name, value])
        i += 1
    rest = lines[i + 1:]
    if any(r != b'' for r in rest):
        problem = 'data-after-blank-line'
    return [(n, v.strip(_WSP)) for n, v in fields], problem


_BARE = re.compile(br'\r(?!\n)|(?<!\r)\n')


def judge_headers(h, expected, kinds):
    """None if flatten()'s header bytes ``h`` carry exactly the expected fields, else
    (kind, field_kind, detail)."""
    if _BARE.search(h):
        return ('bare-cr-or-lf-in-header-output', None, 'header output %r has a line end that is not CRLF' % h)
    if not h.endswith(b'\r\n\r\n') and h != b'\r\n':
        return ('no-terminating-blank-line', None, 'header output %r does not end with an empty line' % h)
    got, problem = ref_fields(h)
    if got is None or problem:
        return ('malformed-header-output', None, 'header output %r: %s' % (h, problem))
    if len(got) != len(expected):
        return ('field-lost' if len(got) < len(expected) else 'field-added', None,
                'expected %d fields %r, got %d: %r' % (len(expected), expected, len(got), got))
    gn = [n.lower() for n, _ in got]
    en = [n.lower() for n, _ in expected]
    if gn != en:
        kind = 'order-changed' if sorted(gn) == sorted(en) else 'name-changed'
        return (kind, None, 'expected names %r, got %r' % ([n for n, _ in expected], [n for n, _ in got]))
    if [v for _, v in got] != [v for _, v in expected]:
        order = sorted(v for _, v in got) == sorted(v for _, v in expected)
        for k, ((_, gv), (_, ev)) in enumerate(zip(got, expected)):
            if gv != ev:
                fk = kinds[k] if kinds and k < len(kinds) else None
                if order:
                    kind = 'order-changed'
                elif gv.startswith(b'=?') and not ev.startswith(b'=?'):
                    kind = 'value-rfc2047-encoded'
                elif re.sub(br'\s+', b'', gv) == re.sub(br'\s+', b'', ev):
                    kind = 'value-white-space-changed'
                else:
                    kind = 'value-changed'
                return (kind, fk, 'field %d (%s): expected value %r, got %r' % (k, expected[k][0].decode('latin-1'), ev, gv))
    return None


# --------------------------------------------------------------------------- generators

def name_sequences():
    seen = []
    for n in (1, 2, 3):
        for idxs in itertools.permutations(range(len(NAME_MULTISET)), n):
            seq = tuple(NAME_MULTISET[i] for i in idxs)
            if seq not in seen:
                seen.append(seq)
    return seen


def _pad_words(prefix_len, i, word, total):
    """ASCII/8-bit filler of exactly total-prefix_len bytes, words separated by single spaces, no
    leading or trailing white space."""
    n = total - prefix_len
    s = ((word + str(i).encode() + b' ') * 40)[:n]
    if s.endswith(b' '):
        s = s[:-1] + b'x'
    return s


def field_lines(name, kind, i, sep):
    """Lines (without line end) of field number i; returns (lines, intended_value)."""
    n = name.encode()
    si = str(i).encode()
    to = (name == 'To')
    if kind == 'plain':
        parts = [b'u' + si + b'@b.c' if to else b'v' + si]
    elif kind == 'folded':
        parts = [b'u' + si + b'@b.c,', b'\tw@e.f'] if to else [b'foo' + si, b' bar']
    elif kind == '8bit':
        parts = [b'\xc3\xa9' + si + b' <u@b.c>'] if to else [b'h\xe9' + si]
    elif kind == 'long' and to:
        tail = si + b'@b.c'
        parts = [b'u' * (MAX_LINE - len(n) - len(sep) - len(tail)) + tail]
    elif kind == 'long':
        parts = [_pad_words(len(n) + len(sep), i, b'ab', MAX_LINE)]
    elif kind == 'long8' and to:
        t1, t2 = b' <u' + si + b'@b.c>,', b' <w' + si + b'@e.f>'
        parts = [b'\xe9' * (MAX_LINE - len(n) - len(sep) - len(t1)) + t1,
                 b' ' + b'\xe9' * (MAX_LINE - 1 - len(t2)) + t2]
    elif kind == 'long8':
        parts = [_pad_words(len(n) + len(sep), i, b'\xe9b', MAX_LINE),
                 b' ' + _pad_words(1, i, b'c\xe9', MAX_LINE)]
    elif kind in CT_KINDS:
        parts = [CT_KINDS[kind]]
    else:
        raise ValueError(kind)
    lines = [n + sep + parts[0]] + parts[1:]
    for ln in lines:
        assert len(ln) <= MAX_LINE and (not kind.startswith('long') or len(ln) == MAX_LINE), ln
        assert ln.strip(_WSP) != b'' and not ln.endswith((b' ', b'\t')), ln
    assert not parts[0].startswith((b' ', b'\t'))
    return lines, b''.join(parts)


def block_variants(names_filter=None, seps=('space',)):
    """Every (names, kinds, eol, sep) in a fixed order."""
    out = []
    for names in name_sequences():
        if names_filter is not None and not names_filter(names):
            continue
        for kinds in itertools.product(KINDS, repeat=len(names)):
            for eol in ('CRLF', 'LF'):
                for sep in seps:
                    out.append((names, kinds, eol, sep))
    return out


def build_block(names, kinds, eol, sep):
    e = EOLS[eol]
    lines, intended = [], []
    for i, (nm, kd) in enumerate(zip(names, kinds)):
        ls, val = field_lines(nm, kd, i, SEPS[sep])
        lines += ls
        intended.append((nm.encode(), val))
    block = b''.join(ln + e for ln in lines)
    exp, problem = ref_fields(block)
    if problem or exp != intended:      # the reference reader and the generator must agree (harness self-check)
        raise AssertionError('reference header reader disagrees with the generator: %r -> %r / %r' % (block, exp, intended))
    return block, exp


def byte_strings(alphabet, lo, hi):
    for n in range(lo, hi + 1):
        for tup in itertools.product(alphabet, repeat=n):
            yield b''.join(tup)


_F_LEADBLANK = re.compile(br'^\r?\n')
_F_LONECR = re.compile(br'\r(?!\n)')
_F_BARELF = re.compile(br'(?<!\r)\n')
_F_DOT = re.compile(br'(^|\n)\.')
_F_8BIT = re.compile(br'[\x80-\xff]')
BODY_FEATURES = ['empty', 'leading-blank-line', 'nul', 'lone-cr', 'bare-lf', 'dot-line', '8bit']


def body_features(body):
    f = []
    if body == b'':
        f.append('empty')
    if _F_LEADBLANK.search(body):
        f.append('leading-blank-line')
    if b'\x00' in body:
        f.append('nul')
    if _F_LONECR.search(body):
        f.append('lone-cr')
    if _F_BARELF.search(body):
        f.append('bare-lf')
    if _F_DOT.search(body):
        f.append('dot-line')
    if _F_8BIT.search(body):
        f.append('8bit')
    return tuple(f)


def body_class(body):
    f = body_features(body)
    if body[:1] == b'\r' and not body.startswith(b'\r\n'):
        return 'leading-lone-cr'
    return f[0] if f else 'plain'


# --------------------------------------------------------------------------- strong claim

def _new_env():
    env = Envelope('sender@example.com', ['rcpt1@example.com', 'rcpt2@example.com'])
    env.client = {'ip': '127.0.0.1', 'name': 'client'}
    return env


def _exc(claim, stage, e, extra):
    sig = {'claim': claim, 'stage': stage, 'kind': 'exception:' + type(e).__name__}
    sig.update(extra)
    return sig


def check_strong(names, kinds, eol, sep, block, expected, body, obs=None):
    """Runs one message through parse / flatten / copy / pickle / re-parse.  Returns a list of
    (signature, message, replay)."""
    out = []
    data = block + EOLS[eol] + body
    rep = {'fam': 'strong', 'names': list(names), 'kinds': list(kinds), 'eol': eol, 'sep': sep, 'body': b2s(body)}
    hclass = {'eol': eol, 'sep': sep}

    def judge(stage, h, b):
        bad = False
        if b != body:
            bad = True
            if isinstance(b, bytes) and body.endswith(b) and len(b) < len(body):
                kind = 'body-prefix-lost'
            elif isinstance(b, bytes) and b.endswith(body) and len(b) > len(body):
                kind = 'body-prefix-added'
            else:
                kind = 'body-changed'
            out.append(({'claim': 'body', 'stage': stage, 'kind': kind, 'body_class': body_class(body), 'eol': eol},
                        '%s: message %r: flatten() returned body %r, the bytes after the first blank line are %r'
                        % (stage, data, b, body), rep))
        v = judge_headers(h, expected, kinds)
        if v is not None:
            bad = True
            sig = {'claim': 'headers', 'stage': stage, 'kind': v[0], 'sep': sep}
            if v[1] is not None:
                sig['field_kind'] = v[1]
            out.append((sig, '%s: message %r: %s' % (stage, data, v[2]), rep))
        return bad

    # 1. parse + flatten
    try:
        env = _new_env()
        env.parse(data)
        h, b = env.flatten()
    except Exception as e:
        out.append((_exc('strong', 'parse', e, hclass), 'parse/flatten of %r raised %r' % (data, e), rep))
        return out
    judge('parse', h, b)

    # 2. deep copy, 3. pickle round trip as the stores do it
    the_copy = None
    for stage, fn in (('copy', lambda: env.copy()),
                      ('pickle', lambda: pickle.loads(pickle.dumps(env, pickle.HIGHEST_PROTOCOL)))):
        try:
            other = fn()
            if stage == 'copy':
                the_copy = other
            ho, bo = other.flatten()
        except Exception as e:
            out.append((_exc('strong', stage, e, hclass), '%s of the envelope parsed from %r raised %r' % (stage, data, e), rep))
            continue
        if (ho, bo) != (h, b):       # identical bytes were judged above already
            judge(stage, ho, bo)
        if other.sender != env.sender or other.recipients != env.recipients:
            out.append(({'claim': stage, 'stage': stage, 'kind': 'sender-or-recipients-changed'},
                        '%s of the envelope parsed from %r has sender %r recipients %r' % (stage, data, other.sender, other.recipients), rep))

    # 4. re-parsing the flattened output is a fixed point
    try:
        env2 = _new_env()
        env2.parse(h + b)
        h2, b2 = env2.flatten()
    except Exception as e:
        out.append((_exc('fixed-point', 'reparse', e, hclass), 're-parsing flatten() output %r raised %r' % (h + b, e), rep))
        h2, b2 = h, b
    if (h2, b2) != (h, b):
        if b2 != b:
            sig = {'claim': 'fixed-point', 'stage': 'reparse', 'kind': 'body-changed', 'body_class': body_class(body), 'eol': eol}
        else:
            # the input field that the first differing output line belongs to
            l1, l2 = h.split(b'\r\n'), h2.split(b'\r\n')
            k = next((j for j, (a, c) in enumerate(zip(l1, l2)) if a != c), min(len(l1), len(l2)) - 1)
            nfield = sum(1 for ln in l1[:k + 1] if ln[:1] not in (b' ', b'\t', b'')) - 1
            fk = kinds[nfield] if 0 <= nfield < len(kinds) else None
            sig = {'claim': 'fixed-point', 'stage': 'reparse', 'kind': 'header-bytes-changed', 'sep': sep, 'field_kind': fk}
        out.append((sig, 'message %r: flatten() gave %r + %r, parsing that and flattening again gave %r + %r'
                    % (data, h, b, h2, b2), rep))

    # 5. the copy is deep: changing it leaves the original alone
    try:
        c = the_copy if the_copy is not None else env.copy()
        c.prepend_header('X-Mutated', 'yes')
        del c.headers[names[-1]]
        c.message = b'mutated'
        c.recipients.append('other@example.com')
        c.client['ip'] = 'mutated'
        after = env.flatten()
        if after != (h, b) or env.recipients != ['rcpt1@example.com', 'rcpt2@example.com'] \
                or env.client != {'ip': '127.0.0.1', 'name': 'client'}:
            what = 'headers' if after[0] != h else ('body' if after[1] != b else 'recipients-or-client')
            out.append(({'claim': 'copy', 'stage': 'copy', 'kind': 'copy-shares-state', 'shared': what},
                        'message %r: after changing the copy() the original flattens to %r + %r (was %r + %r), recipients %r'
                        % (data, after[0], after[1], h, b, env.recipients), rep))
    except Exception as e:
        out.append((_exc('copy', 'copy-mutate', e, hclass), 'changing a copy of the envelope parsed from %r raised %r' % (data, e), rep))

    if obs is not None:
        canon = re.sub(br'\r?\n', b'\r\n', block) + b'\r\n'
        obs.append(('strong', len(expected), h == canon, b == body, (h2, b2) == (h, b), not out))
    return out


# --------------------------------------------------------------------------- weak claim

_WF_START = re.compile(br'^[!-9;-~]+:')


def weak_nontrivial(data):
    return (not _WF_START.match(data) or _F_LONECR.search(data) is not None or _F_8BIT.search(data) is not None
            or any(len(l) > MAX_LINE for l in re.split(br'\r\n|\n', data)))


def weak_class(data):
    lines = re.split(br'\r\n|\n', data)
    for l in lines:
        if len(l) > MAX_LINE and (_WF_START.match(l) or l[:1] in (b' ', b'\t')):
            return 'over-long-header-line' + ('-8bit' if _F_8BIT.search(data) else '')
    if any(len(l) > MAX_LINE for l in lines):
        return 'over-long-line'
    if not _WF_START.match(data):
        return 'no-header-block'
    return 'odd-header-block'


def check_weak(data, obs=None):
    out = []
    rep = {'fam': 'weak', 'data': b2s(data)}
    stage = 'parse'
    try:
        env = _new_env()
        env.parse(data)
        stage = 'flatten'
        h, b = env.flatten()
        stage = 'copy'
        c = env.copy()
        stage = 'copy-flatten'
        hc, bc = c.flatten()
        stage = 'pickle'
        p = pickle.loads(pickle.dumps(env, pickle.HIGHEST_PROTOCOL))
        stage = 'pickle-flatten'
        hp, bp = p.flatten()
    except Exception as e:
        out.append(({'claim': 'never-raises', 'stage': stage, 'kind': 'exception:' + type(e).__name__,
                     'input_class': weak_class(data)}, '%s of arbitrary input %r raised %r' % (stage, data, e), rep))
        return out
    if obs is not None:
        obs.append(('weak', len(env.headers.keys()), b == data, b == b'', (hc, bc) == (h, b), (hp, bp) == (h, b)))
    return out


# --------------------------------------------------------------------------- 7-bit conversion

def check_seven(hname, text, encname, obs=None, counts=None):
    out = []
    hlines = dict(SEVEN_HEADERS)[hname]
    body = text.encode('utf-8')
    data = b''.join(l + b'\r\n' for l in hlines) + b'\r\n' + body
    rep = {'fam': '7bit', 'headers': hname, 'text': text, 'encoder': encname}
    eight = _F_8BIT.search(body) is not None
    sigbase = {'claim': '7bit', 'encoder': encname, 'cte_header_present': any(l.lower().startswith(b'content-transfer') for l in hlines)}

    def V(kind, msg):
        sig = dict(sigbase)
        sig['kind'] = kind
        out.append((sig, 'headers %r text %r encoder %s: %s' % (hlines, text, encname, msg), rep))

    env = _new_env()
    env.parse(data)
    raised = None
    try:
        env.encode_7bit(ENCODERS[encname])
    except Exception as e:
        raised = e
    if not eight:
        # 7-bit bodies are outside the claim; executed for the observation only
        if obs is not None:
            obs.append(('7bit-ascii-body', encname, type(raised).__name__ if raised else 'ok'))
        return out
    if encname == 'none':
        if raised is None:
            h, b = env.flatten()
            V('no-refusal', 'encode_7bit() without encoder did not raise; flatten() now gives %r + %r' % (h, b))
        else:
            if counts is not None:
                counts['seven_refused'] = counts.get('seven_refused', 0) + 1
                if not isinstance(raised, UnicodeError):
                    counts['seven_refused_with_other_exception'] = counts.get('seven_refused_with_other_exception', 0) + 1
        if obs is not None:
            obs.append(('7bit-none', type(raised).__name__ if raised else 'no-raise'))
        return out
    if raised is not None:
        V('exception:' + type(raised).__name__, 'encode_7bit raised %r' % (raised,))
        return out
    try:
        h, b = env.flatten()
    except Exception as e:
        V('flatten-exception:' + type(e).__name__, 'flatten() after encode_7bit raised %r' % (e,))
        return out
    try:
        (h + b).decode('ascii')
    except UnicodeError:
        V('not-ascii', 'output %r + %r is not pure ASCII' % (h, b))
        return out
    # independent reader: the stdlib compat32 parser
    try:
        m = email.message_from_bytes(h + b)
        if m.is_multipart():
            V('became-multipart', 'output %r + %r' % (h, b))
            return out
        charset = m.get_content_charset()
        cte = str(m.get('Content-Transfer-Encoding', '')).lower()
        payload = m.get_payload(decode=True)
        if charset is None:
            V('charset-lost', 'output %r + %r has no charset parameter' % (h, b))
            return out
        got = payload.decode(charset)
    except Exception as e:
        V('undecodable:' + type(e).__name__, 'output %r + %r cannot be decoded: %r' % (h, b, e))
        return out
    same_exact = (got == text)
    same_text = (got.replace(u'\r\n', u'\n') == text.replace(u'\r\n', u'\n'))
    if not same_text or (STRICT_7BIT_LINE_ENDS and not same_exact):
        kind = 'text-changed' if not same_text else 'line-ends-changed'
        V(kind, 'output %r + %r decodes to %r' % (h, b, got))
    if counts is not None:
        counts['seven_judged_decodes'] = counts.get('seven_judged_decodes', 0) + 1
        if same_text and not same_exact:
            counts['seven_crlf_became_lf'] = counts.get('seven_crlf_became_lf', 0) + 1
    if obs is not None:
        obs.append(('7bit', encname, cte, same_text, same_exact, len(m.get_all('Content-Transfer-Encoding', []))))
    return out


def texts(alphabet, hi):
    for n in range(0, hi + 1):
        for tup in itertools.product(alphabet, repeat=n):
            yield u''.join(tup)


# --------------------------------------------------------------------------- runner interface

def _b_filter(names):
    return len(names) == 1 or names == ('X-A', 'X-A')


# --------------------------------------------------------------------------- through the real stores
STORE_BODIES = [b'', b'a\r\n', b'\r\n.\r\na', b'\x00\xff\r\x00' * 40, b'.\r\n' + b'\xe9' * 300 + b'\nlast']


def check_stores(names, kinds, eol, sep, block, expected, body, res):
    """the envelope as the disk (in-memory FS, aio requests may complete short), redis, cloud and shelve-backed stores
    keep it: written, read back by get(), flattened -- same header block and body as the parsed original"""
    import gevent
    from engine.core import explore, Chooser
    from engine.vloop import World
    from checks.c15 import make_backend
    from worlds.queue_world import UUID_MODULES
    data = block + EOLS[eol] + body
    env0 = _new_env()
    rep0 = {'fam': 'stores', 'names': list(names), 'kinds': list(kinds), 'eol': eol, 'sep': sep, 'body': b2s(body)}
    try:
        env0.parse(data)
        want = env0.flatten()
    except Exception as e:
        return [({'claim': 'pickle', 'stage': 'parse', 'kind': 'exception:' + type(e).__name__, 'body_class': body_class(body)},
                 'parse/flatten of %r raised %r' % (data, e), rep0)]
    out = []
    rep = {'fam': 'stores', 'names': list(names), 'kinds': list(kinds), 'eol': eol, 'sep': sep, 'body': b2s(body)}
    for backend in ('disk', 'redis', 'cloud', 'shelf'):
        bad = []

        def run(ch, backend=backend):
            got = {}
            with World(ch, uuid_modules=UUID_MODULES, max_steps=200000) as w:
                st, fs = make_backend(backend, w)
                if backend == 'disk':
                    fs.short_chooser = ch

                def body_():
                    try:
                        env = _new_env()
                        env.parse(data)
                        i = st.write(env, 1000.0)
                        e2, attempts = st.get(i)
                        got['flat'] = e2.flatten()
                        got['meta'] = (e2.sender, list(e2.recipients))
                    except BaseException as e:
                        got['exc'] = '%s: %s' % (type(e).__name__, str(e)[:100])
                gevent.spawn(body_)
                w.run_until_quiescent()
            if 'exc' in got:
                bad.append(('store-raised', 'store %s: write/get of the envelope parsed from %r raised %s' % (backend, data, got['exc'])))
            elif got.get('flat') != want:
                bad.append(('stored-envelope-differs', 'store %s: the envelope parsed from %r came back from get() flattening to %r + %r, '
                            'the original flattens to %r + %r [choices %r]' % (backend, data, got.get('flat', (None, None))[0], got.get('flat', (None, None))[1],
                                                                              want[0], want[1], list(ch.choices))))
            elif got.get('meta') != (env0.sender, list(env0.recipients)):
                bad.append(('sender-or-recipients-changed', 'store %s: sender/recipients came back as %r' % (backend, got.get('meta'))))
            return repr(got.get('flat'))[:80]
        st_ = explore(run, d=1 if backend == 'disk' else 0, dd=None, merge=False, max_exec=400)
        res.evaluations += st_.executions
        res.count('store_round_trips', st_.executions)
        for kind, msg in bad[:1]:
            out.append(({'claim': 'pickle', 'stage': 'store:' + backend, 'kind': kind, 'body_class': body_class(body)}, msg, rep))
    return out


# --------------------------------------------------------------------------- the relay's 7-bit decision
def check_relay_7bit(text, encname, pre8, post8, res, utf8=False):
    """The place where the 7-bit conversion is decided: a real SmtpRelayClient (STARTTLS) in front of a scripted next hop
    that offers 8BITMIME before and/or after the handshake.  Without 8BITMIME after the handshake an 8-bit body must be
    converted (encoder given: the hop receives pure ASCII) or refused -- never passed on as it is."""
    from engine.core import Chooser
    from worlds.relay_world import SmtpRelayWorld, classify
    body = text.encode('utf-8')
    cfg = dict(lmtp=False, n=1, tls='starttls', tls_required=True, peer_kw={'eightbit': pre8, 'eightbit_after_tls': post8, 'extra_exts': ['SMTPUTF8'] if utf8 else []},
               body=b'Subject: t\r\nContent-Type: text/plain; charset=utf-8\r\n\r\n' + body, script={})
    if ENCODERS[encname] is not None:
        cfg['binary_encoder'] = ENCODERS[encname]
    w = SmtpRelayWorld(Chooser(), cfg).run()
    rec = w.results[0]
    per, whole = classify(rec['outcome'], rec['env'])
    received = [t['data'] for p in w.peers for t in p.transactions if t.get('data') is not None]
    res.evaluations += 1
    res.count('relay_7bit_cases')
    res.outcome(('relay7', whole, len(received), pre8, post8, encname))
    rep = {'fam': 'relay7', 'text': text, 'enc': encname, 'pre8': pre8, 'post8': post8, 'utf8': utf8}
    desc = 'next hop offers 8BITMIME before TLS: %r, after TLS: %r%s; encoder %s; body %r: attempt -> %s, hop received %r' % (
        pre8, post8, ', SMTPUTF8 throughout' if utf8 else '', encname, body, whole, received)
    has8 = any(c > 127 for c in body)
    out = []
    if not has8:
        return out
    if not post8:
        for d in received:
            if any(c > 127 for c in d):
                out.append(({'claim': '7bit', 'stage': 'relay', 'kind': '8bit-data-passed-on', 'encoder': encname, 'offered_before_tls': pre8}, desc, rep))
        if ENCODERS[encname] is None and (received or not all(v == 'perm' for v in per.values())):
            if not any(c > 127 for d in received for c in d):
                out.append(({'claim': '7bit', 'stage': 'relay', 'kind': 'not-refused-without-encoder', 'offered_before_tls': pre8}, desc, rep))
    else:
        if not received or received[0].split(b'\r\n\r\n', 1)[-1] not in (body, body + b'\r\n'):
            out.append(({'claim': '7bit', 'stage': 'relay', 'kind': '8bit-capable-hop-did-not-get-the-original', 'encoder': encname}, desc, rep))
    return out


def configs(tier, seed):
    fams = [[{'fam': f, 'part': k, 'of': n} for k in range(n)]
            for f, n in (('S', NS), ('B', NB), ('N', NN), ('W', NW), ('WL', NWL), ('E', NE), ('ST', 8), ('R7', 1), ('CT', 2))]
    # interleaved so that the first samples the runner keeps come from every family
    return [c for row in itertools.zip_longest(*fams) for c in row if c is not None]


def _run_strong(cfg, t, res, variants, lo, hi):
    bodies = [(b, body_features(b)) for b in byte_strings(BODY_ALPHABET, lo, hi)]
    for vi, (names, kinds, eol, sep) in enumerate(variants):
        if vi % cfg['of'] != cfg['part']:
            continue
        block, expected = build_block(names, kinds, eol, sep)
        hdr_nontrivial = (any(k != 'plain' for k in kinds) or len(set(names)) < len(names)
                          or eol == 'LF' or sep == 'nospace')
        res.count('strong_header_variants')
        for bi, (body, feats) in enumerate(bodies):
            res.evaluations += 1
            obs = []
            for sig, text, rep in check_strong(names, kinds, eol, sep, block, expected, body, obs):
                res.violation(sig, text, rep)
            for o in obs:
                res.outcome(o)
            res.count('strong_cases')
            if feats or hdr_nontrivial:
                res.interesting((names, kinds, eol, sep, feats))
                res.count('strong_nontrivial_cases')
            if 'leading-blank-line' in feats:
                res.count('strong_bodies_with_leading_blank_line')
            if bi == vi % len(bodies):
                res.sample({'family': cfg['fam'], 'message': b2s(block + EOLS[eol] + body), 'body': b2s(body),
                            'expected_fields': [[b2s(n), b2s(v)] for n, v in expected]})


def run_config(cfg, tier, seed):
    res = Result(max_samples=1)
    t = _tier(tier)
    fam = cfg['fam']
    if fam == 'S':
        _run_strong(cfg, t, res, block_variants(), 0, t['s_body_max'])
    elif fam == 'B':
        _run_strong(cfg, t, res, block_variants(_b_filter), t['s_body_max'] + 1, t['b_body_max'])
    elif fam == 'N':
        _run_strong(cfg, t, res, block_variants(_b_filter, ('nospace',)), 0, t['n_body_max'])
    elif fam == 'ST':
        for vi, (names, kinds, eol, sep) in enumerate(block_variants(_b_filter)):
            if vi % cfg['of'] != cfg['part'] or (tier == 'quick' and vi % 5):
                continue
            block, expected = build_block(names, kinds, eol, sep)
            for body in STORE_BODIES:
                res.interesting(('stores', names, kinds, eol, body[:8]))
                res.count('store_cases')
                for sig, text, rep in check_stores(names, kinds, eol, sep, block, expected, body, res):
                    res.violation(sig, text, rep)
        res.sample({'family': 'ST', 'stores': ['disk (short aio completions)', 'redis', 'cloud', 'shelve'], 'bodies': len(STORE_BODIES)})
    elif fam == 'CT':
        vi = 0
        for names in (('Content-Type',), ('Subject', 'Content-Type'), ('Content-Type', 'X-A'), ('MIME-Version', 'Content-Type')):
            for ck in sorted(CT_KINDS):
                for eol in EOLS:
                    vi += 1
                    if vi % cfg['of'] != cfg['part']:
                        continue
                    kinds = tuple(ck if n == 'Content-Type' else 'plain' for n in names)
                    block, expected = build_block(names, kinds, eol, 'space')
                    for body in CT_BODIES:
                        res.evaluations += 1
                        res.count('content_type_cases')
                        res.interesting(('ct', names, ck, eol, body[:10]))
                        for sig, text, rep in check_strong(names, kinds, eol, 'space', block, expected, body, None):
                            res.violation(sig, text, rep)
        if cfg['part'] == 0:
            # a header block far longer than any buffer size one might think of (900 fields of 78 bytes: 70 KB)
            names, kinds = ('X-A',) * 900, ('long',) * 900
            for eol in EOLS:
                block, expected = build_block(names, kinds, eol, 'space')
                for body in (b'x\r\n', b'\r\n\nleading blank lines, bare\nLF and lone\rCR\r\n', b''):
                    res.evaluations += 1
                    res.count('huge_header_cases')
                    res.interesting(('huge-header', eol, body[:10]))
                    for sig, text, rep in check_strong(names, kinds, eol, 'space', block, expected, body, None):
                        res.violation(sig, text[:600], rep)
        res.sample({'family': 'CT', 'content_types': sorted(b2s(v) for v in CT_KINDS.values()), 'bodies': len(CT_BODIES)})
    elif fam == 'R7':
        for text in (u'plain ascii\r\n', u'caf\xe9\r\n', u'\xe9' * 40 + u'\r\nsecond \xe9\r\n'):
            for encname in ('base64', 'quoted-printable', 'none'):
                for pre8 in (True, False):
                    for post8 in (True, False):
                        for utf8 in (False, True):
                            res.interesting(('relay7', text, encname, pre8, post8, utf8))
                            for sig, msg, rep in check_relay_7bit(text, encname, pre8, post8, res, utf8):
                                res.violation(sig, msg, rep)
        res.sample({'family': 'R7', 'what': 'SmtpRelayClient 7-bit decision against a scripted hop, 8BITMIME before/after STARTTLS'})
    elif fam in ('W', 'WL'):
        gen = (byte_strings(WEAK_ALPHABET, 0, t['weak_max']) if fam == 'W'
               else byte_strings(WEAK_LONG_TOKENS, 0, t['weak_long_max']))
        for idx, data in enumerate(gen):
            if idx % cfg['of'] != cfg['part']:
                continue
            res.evaluations += 1
            obs = []
            for sig, text, rep in check_weak(data, obs):
                res.violation(sig, text, rep)
            for o in obs:
                res.outcome(o)
            res.count('weak_cases')
            if weak_nontrivial(data):
                res.interesting(('weak', data))
                res.count('weak_nontrivial_cases')
            if idx % 20011 == cfg['part']:
                res.sample({'family': fam, 'input': b2s(data[:200]), 'input_len': len(data)})
    elif fam == 'E':
        idx = 0
        counts = {}
        for alpha, hi in ((SEVEN_ALPHABET, t['seven_max']), (SEVEN_SCALED, t['seven_scaled_max'])):
            for text in texts(alpha, hi):
                idx += 1
                if idx % cfg['of'] != cfg['part']:
                    continue
                for hname, _ in SEVEN_HEADERS:
                    for encname in ('base64', 'quoted-printable', 'none'):
                        res.evaluations += 1
                        obs = []
                        for sig, msg, rep in check_seven(hname, text, encname, obs, counts):
                            res.violation(sig, msg, rep)
                        for o in obs:
                            res.outcome(o)
                        res.count('seven_cases')
                        if u'\xe9' in text:
                            res.interesting(('7bit', hname, text, encname))
                            res.count('seven_8bit_body_cases')
                if idx % 613 == cfg['part']:
                    res.sample({'family': 'E', 'text': text, 'header_sets': [n for n, _ in SEVEN_HEADERS],
                                'encoders': sorted(ENCODERS)})
        for k, v in counts.items():
            res.count(k, v)
    else:
        raise ValueError(cfg)
    return res.as_dict()


def vacuity(counters, tier):
    problems = []
    for k in ('strong_cases', 'strong_nontrivial_cases', 'strong_bodies_with_leading_blank_line', 'weak_cases',
              'weak_nontrivial_cases', 'seven_8bit_body_cases', 'seven_judged_decodes', 'seven_refused'):
        if not counters.get(k):
            problems.append('counter %s is 0' % k)
    return problems


def replay(rep):
    fam = rep['fam']
    if fam == 'stores':
        res = Result()
        names, kinds = tuple(rep['names']), tuple(rep['kinds'])
        block, expected = build_block(names, kinds, rep['eol'], rep['sep'])
        vs = check_stores(names, kinds, rep['eol'], rep['sep'], block, expected, s2b(rep['body']), res)
        if vs:
            return True, vs[0][1]
        return False, 'every store returns the envelope unchanged'
    if fam == 'relay7':
        res = Result()
        vs = check_relay_7bit(rep['text'], rep['enc'], rep['pre8'], rep['post8'], res, rep.get('utf8', False))
        if vs:
            return True, vs[0][1]
        return False, 'the relay converts or refuses 8-bit data when the hop does not take it'
    if fam == 'strong':
        names, kinds = tuple(rep['names']), tuple(rep['kinds'])
        block, expected = build_block(names, kinds, rep['eol'], rep['sep'])
        vs = check_strong(names, kinds, rep['eol'], rep['sep'], block, expected, s2b(rep['body']))
        ok = 'parse/flatten/copy/pickle/re-parse kept body %r and fields %r' % (s2b(rep['body']), expected)
    elif fam == 'weak':
        vs = check_weak(s2b(rep['data']))
        ok = 'parse/flatten/copy/pickle did not raise'
    elif fam == '7bit':
        vs = check_seven(rep['headers'], rep['text'], rep['encoder'])
        ok = '7-bit conversion behaved as stated'
    else:
        raise ValueError(rep)
    if vs:
        return True, ' | '.join(v[1] for v in vs)[:3000]
    return False, ok
