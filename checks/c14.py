"""C14 -- no peer can hold a session or delivery attempt beyond its configured timeouts.

Virtual time, so every stall is one deterministic execution and deadlines are compared exactly.
Server: the real SmtpEdge.handle with command_timeout/data_timeout against a client that plays a full
session up to a stall point (before any byte, after each command, in the middle of a line, inside DATA
after k bytes, after end-of-data, at the TLS handshake, at an AUTH challenge) and then stays silent or
trickles one byte every 0.9 x timeout.  Relay client: the real Static{Smtp,Lmtp}Relay against a scripted
peer that stalls or trickles at every stage (PIPELINING on/off, STARTTLS, immediate TLS, AUTH, connect).
Pipe and HTTP relays: the subprocess / origin never answers.
"""
import socket as _socket
import types

import gevent
import gevent.event

import engine.speedups  # noqa
import slimta.edge.smtp as edge_smtp
from slimta.edge.smtp import SmtpEdge
from slimta.relay import TransientRelayError

from engine.core import Chooser
from engine.result import Result
from engine.vloop import World
from fakes.vsock import Net, VContext
from worlds.edge_seq import FakePtrLookup
from worlds.relay_world import SmtpRelayWorld, classify, make_envelope

PROPERTY = 'C14'
LEVEL = 'fault_enumeration'
EXHAUSTIVE = True
TC, TD = 11.0, 17.0

RULE = ('server: every stall point of 3 client sessions (plain, STARTTLS, AUTH; + immediate TLS) -- before any byte, after each '
        'complete command, inside every command line, inside DATA after every byte count class, after end-of-data, at the TLS '
        'handshake, at an AUTH challenge -- x {silent, trickle 0.9 Tc, trickle 0.9 Td}; relay: every stage of the scripted '
        'peer x {stall, trickle} x PIPELINING on/off x SMTP/LMTP x TLS modes x AUTH + connect stall; pipe/HTTP: no answer, '
        'answer stalls mid-way.  Oracle: exact virtual deadline.  Every case is non-trivial.')
ASSUMPTIONS = ['virtual clock; gevent.Timeout runs on the virtual loop', 'fake TLS whose handshake blocks until the peer says hello']


def BOUNDS(tier):
    return {'command_timeout': TC, 'data_timeout': TD, 'relay_timeouts': {'connect': 7, 'command': 11, 'data': 13},
            'stall_points': 'every byte offset of the client stream'}


# ------------------------------------------------------------------ server side
class NullQueue(object):
    def enqueue(self, envelope):
        return [(envelope, 'id1')]


SESSIONS = {
    'plain': dict(lines=[b'EHLO c\r\n', b'MAIL FROM:<a@x>\r\n', b'RCPT TO:<b@y>\r\n', b'DATA\r\n', b'Subject: s\r\n\r\nbody line\r\n.\r\n',
                         b'NOOP\r\n', b'QUIT\r\n'], kw={}),
    'starttls': dict(lines=[b'EHLO c\r\n', b'STARTTLS\r\n', 'TLS', b'EHLO c\r\n', b'MAIL FROM:<a@x>\r\n', b'QUIT\r\n'], kw={'tls': 'starttls'}),
    'immediate': dict(lines=['TLS', b'EHLO c\r\n', b'QUIT\r\n'], kw={'tls': 'immediate'}),
    'auth': dict(lines=['TLS', b'EHLO c\r\n', b'AUTH LOGIN\r\n', b'dXNlcg==\r\n', b'cHc=\r\n', b'MAIL FROM:<a@x>\r\n', b'QUIT\r\n'],
                 kw={'tls': 'immediate', 'auth': True}),
}


def server_case(session, item, offset, trickle):
    """Play SESSIONS[session] completely up to line ``item`` and ``offset`` bytes into it, then stall
    (trickle=None) or continue one byte every ``trickle`` seconds."""
    spec = SESSIONS[session]
    rec = {'replies': [], 'end': None, 'handler_exc': None, 'last_progress': 0.0, 'phase': 'command', 't354': None}
    with World(Chooser(), max_steps=5000) as w:
        net = Net(w)
        csock, ssock = net.pair()
        ctx = VContext() if spec['kw'].get('tls') else None
        saved = edge_smtp.PtrLookup
        edge_smtp.PtrLookup = FakePtrLookup
        try:
            edge = SmtpEdge(None, NullQueue(), command_timeout=TC, data_timeout=TD, hostname='mx.test', context=ctx,
                            tls_immediately=spec['kw'].get('tls') == 'immediate', auth=spec['kw'].get('auth', False))

            def handler():
                try:
                    edge.handle(ssock, ('192.0.2.1', 4321))
                except gevent.GreenletExit:
                    raise
                except BaseException as e:
                    rec['handler_exc'] = type(e).__name__
                rec['end'] = w.now
            hg = gevent.spawn(handler)
            state = {'sock': csock}
            ssock.on_send = lambda sock, tag, data: rec['replies'].extend(
                (w.now, l.rstrip(b'\r')) for l in data.split(b'\n') if l.strip() and not data.startswith(b'\x16HELLO'))

            def drain():
                # consume the clear-text replies received so far (a handshake must not find them in its way)
                while csock.rx.segs and csock.rx.segs[0][0] == 'c':
                    csock.recv(65536)

            def client():
                for i, line in enumerate(spec['lines']):
                    if line == 'TLS':
                        if i == item:
                            rec['stall'] = ('handshake', w.now)
                            return            # never start the handshake
                        drain()
                        cctx = VContext()
                        state['sock'] = cctx.wrap_socket(csock, server_hostname='mx')
                        continue
                    if i == item:
                        if offset:
                            state['sock'].sendall(line[:offset])
                        rec['stall'] = ('line', w.now, line[:offset])
                        rest = line[offset:]
                        if trickle is None:
                            return
                        for j in range(len(rest)):
                            gevent.sleep(trickle)
                            try:
                                state['sock'].sendall(rest[j:j + 1])
                            except Exception:
                                return
                        return
                    if trickle == 'joined' and i == item - 1 and offset:
                        # the complete line and the beginning of the next one arrive in ONE segment, then silence
                        state['sock'].sendall(line + spec['lines'][item][:offset])
                        rec['stall'] = ('joined', w.now)
                        return
                    state['sock'].sendall(line)
                    # the session runs in lock step: let the server answer before the next line
                    for _ in range(20):
                        gevent.sleep(0)
                rec['stall'] = ('end', w.now)
            gevent.spawn(client)
            w.run_until_quiescent()
        finally:
            edge_smtp.PtrLookup = saved
        rec['quiescent_at'] = w.now
        rec['handler_alive'] = not hg.dead
    return rec


def server_deadline(session, item, offset, trickle, rec):
    """expected: (deadline, scope) relative to the stall instant (everything before the stall is instantaneous)."""
    spec = SESSIONS[session]
    line = spec['lines'][item] if item < len(spec['lines']) else None
    # inside DATA content?  (the line after b'DATA\r\n')
    prev = spec['lines'][item - 1] if item > 0 else None
    if prev == b'DATA\r\n':
        return TD, 'data'
    return TC, 'command'


def judge_server(case):
    session, item, offset, trickle = case
    rec = server_case(session, item, offset, trickle)
    out = []
    base = {'side': 'server', 'session': session}
    spec = SESSIONS[session]
    what = 'handshake' if (item < len(spec['lines']) and spec['lines'][item] == 'TLS') else ('line %r +%d' % (spec['lines'][item], offset) if item < len(spec['lines']) else 'end')
    desc = 'session %s stalled at %s (%s): handler ended at %r (exc %r), replies %r' % (
        session, what, 'silent' if trickle is None else ('pipelined with the previous line, then silent' if trickle == 'joined' else 'trickle every %gs' % trickle), rec['end'], rec['handler_exc'],
        [(t, l[:20]) for t, l in rec['replies'][-3:]])
    deadline, scope = server_deadline(session, item, offset, trickle, rec)
    if trickle == 'joined':
        trickle_n = None
    complete = trickle not in (None, 'joined') and item < len(spec['lines']) and spec['lines'][item] != 'TLS' and \
        (len(spec['lines'][item]) - offset) * trickle < deadline
    if rec['handler_alive'] or rec['end'] is None:
        starttls_line = item < len(spec['lines']) and spec['lines'][item] == b'STARTTLS\r\n'
        point = 'tls-handshake' if (what == 'handshake' or (starttls_line and complete)) else \
            ('auth-challenge' if session == 'auth' and item in (3, 4) else scope)
        out.append((dict(base, kind='session-never-closed', point=point), desc))
        return out, rec
    if complete:
        return out, rec          # the trickled line completed in time; the session simply went on (and then idles out)
    if rec['end'] > deadline + 1e-6:
        out.append((dict(base, kind='closed-late', scope=scope), desc + ' (deadline %g)' % deadline))
    if rec['end'] < deadline - 1e-6 and what != 'handshake' and not (item >= len(spec['lines']) - 1):
        # closing early is not a violation of the property (only an oddity worth counting)
        pass
    codes = [l[:3] for t, l in rec['replies']]
    if b'421' not in codes and what != 'handshake' and rec['end'] >= deadline - 1e-6:
        out.append((dict(base, kind='no-421-on-timeout', scope=scope), desc))
    return out, rec


def server_cases(tier):
    for session, spec in SESSIONS.items():
        n = len(spec['lines'])
        for item in range(n):
            line = spec['lines'][item]
            if line == 'TLS':
                yield (session, item, 0, None)
                continue
            offsets = range(0, len(line)) if (tier == 'thorough' or len(line) < 12) else [0, 1, len(line) // 2, len(line) - 2, len(line) - 1]
            for off in offsets:
                yield (session, item, off, None)
                if off and item > 0 and isinstance(spec['lines'][item - 1], bytes) and spec['lines'][item - 1] != b'DATA\r\n' \
                        and not (item > 1 and spec['lines'][item - 2] == b'DATA\r\n') and spec['lines'][item - 1] != b'STARTTLS\r\n':
                    yield (session, item, off, 'joined')
                prev = spec['lines'][item - 1] if item else None
                t = 0.9 * (TD if prev == b'DATA\r\n' else TC)
                yield (session, item, off, t)
                if prev == b'DATA\r\n':
                    yield (session, item, off, 0.9 * TC)


# ------------------------------------------------------------------ relay client side
REL = dict(connect_timeout=7.0, command_timeout=11.0, data_timeout=13.0)


def relay_stages(cfg):
    n = cfg['n']
    st = ['banner', 'ehlo', 'mail'] + ['rcpt%d' % i for i in range(n)] + ['data']
    st += ['eod%d' % i for i in range(n)] if cfg.get('lmtp') else ['eod']
    st += ['rset', 'quit']
    if cfg.get('tls') == 'starttls':
        st[2:2] = ['starttls', 'tls']
    if cfg.get('tls') == 'immediate':
        st.insert(0, 'tls')
    if cfg.get('auth'):
        st.insert(st.index('mail'), 'auth')
    return st


def judge_relay(cfg, stage, how):
    c = dict(cfg)
    c.update(REL)
    if stage == 'connect':
        c['connect'] = 'stall'
        script = {}
    elif stage == 'unsolicited':
        c['unsolicited_partial'] = c['unsolicited_partial'].encode() if isinstance(c['unsolicited_partial'], str) else c['unsolicited_partial']
        script = {}
    else:
        scope = 13.0 if stage.startswith('eod') else 11.0
        script = {stage: 'stall' if how == 'stall' else ('trickle', 0.9 * scope)}
        if stage == 'auth' and how == 'stall-after-334':
            script = {'auth': 'stall-after-334'}
    c['script'] = script
    w = SmtpRelayWorld(Chooser(), c).run()
    rec = w.results[0]
    per, whole = classify(rec['outcome'], rec['env'])
    base = {'side': 'relay', 'lmtp': bool(cfg.get('lmtp')), 'pipelining': bool(cfg.get('pipelining', True))}
    desc = 'relay %s%s%s n=%d, peer %ss at %s: attempt -> %s at t=%r' % (
        'LMTP' if cfg.get('lmtp') else 'SMTP', '' if cfg.get('pipelining', True) else ' no-pipelining',
        ''.join(' %s=%r' % (k, cfg[k]) for k in ('tls', 'auth') if cfg.get(k)), cfg['n'], how, stage, whole, rec['end'])
    out = []
    if stage == 'connect':
        limit = 7.0
    elif stage.startswith('eod'):
        limit = 13.0
    else:
        limit = 11.0
    if stage in ('quit', 'rset') and whole in ('mapping',) and rec['end'] is not None and rec['end'] <= limit + 1e-6:
        return out
    if stage == 'unsolicited':
        limit = 11.0
    if w.horizon_hit and rec['end'] is None:
        out.append((dict(base, kind='attempt-never-returned', stage=stage.rstrip('0123456789'), how='reconnects for ever'), desc + ' (%d connections)' % len(w.peers)))
        return out
    if whole == 'blocked' or rec['end'] is None:
        out.append((dict(base, kind='attempt-never-returned', stage=stage.rstrip('0123456789'), how=how), desc))
        return out
    if how.startswith('stall') or stage == 'connect':
        if rec['end'] > limit + 1e-6:
            out.append((dict(base, kind='attempt-returned-late', stage=stage.rstrip('0123456789'), how=how), desc + ' (limit %g)' % limit))
        if not all(v in ('temp', 'delivered', 'perm') for v in per.values()) or (whole.startswith('raised') and whole != 'raised:temp'):
            out.append((dict(base, kind='timeout-not-transient', stage=stage.rstrip('0123456789'), how=how), desc))
    else:
        # trickled reply: either it completes inside the scope (then the session goes on) or the scope's timeout fires
        if rec['end'] is not None and rec['end'] > limit * 3 + 1e-6:
            out.append((dict(base, kind='attempt-returned-late', stage=stage.rstrip('0123456789'), how=how), desc + ' (limit %g)' % (limit * 3)))
    return out


def relay_cases(tier):
    cfgs = []
    for lmtp in (False, True):
        for pl in (True, False):
            cfgs.append(dict(lmtp=lmtp, pipelining=pl, n=2))
        cfgs.append(dict(lmtp=lmtp, n=1, tls='starttls', tls_required=True))
        cfgs.append(dict(lmtp=lmtp, n=1, tls='immediate'))
        cfgs.append(dict(lmtp=lmtp, n=1, tls='starttls', auth=True))
    for cfg in cfgs:
        yield cfg, 'connect', 'stall'
        for st in relay_stages(cfg):
            yield cfg, st, 'stall'
            if st != 'tls':
                yield cfg, st, 'trickle'
        if cfg.get('auth'):
            yield cfg, 'auth', 'stall-after-334'
    for lmtp in (False, True):
        yield dict(lmtp=lmtp, n=1, unsolicited_partial='421 4.4.2 idl', idle_timeout=5.0, max_steps=400), 'unsolicited', 'stall'


# ------------------------------------------------------------------ pipe / http
def judge_pipe_http(kind):
    res = {}
    base = {'side': kind}
    with World(Chooser(), max_steps=5000) as w:
        env = make_envelope(0, 2)
        if kind.startswith('pipe'):
            import slimta.relay.pipe as pipe
            from fakes.fakepopen import FakeSubprocess
            w.patch(pipe, 'subprocess', FakeSubprocess(lambda a, s, k: 'block'))
            relay = pipe.PipeRelay(['x', '{recipient}'], timeout=9.0)
            relay.per_recipient = kind == 'pipe-per-recipient'
        else:
            import slimta.http as shttp
            from slimta.relay.http import HttpRelay
            from fakes.fakehttp import HttpPeer, response
            net = Net(w)

            def create_connection(addr, timeout=None, source_address=None):
                if kind == 'http-connect':
                    gevent.event.Event().wait()
                c, s = net.pair(peername=addr)
                mode = 'stall' if kind == 'http-no-response' else ('stall-after', response(200, 'OK')[:25])
                gevent.spawn(HttpPeer(s, lambda req, k: mode).run)
                return c
            w.patch(shttp, 'socket', types.SimpleNamespace(create_connection=create_connection))
            relay = HttpRelay('http://mx.test/deliver', ehlo_as='relay.test', timeout=9.0)

        def go():
            try:
                res['outcome'] = ('returned', relay.attempt(env, 0))
            except gevent.GreenletExit:
                raise
            except BaseException as e:
                res['outcome'] = ('raised', e)
            res['end'] = w.now
        gevent.spawn(go)
        w.run_until_quiescent()
    per, whole = classify(res.get('outcome'), env)
    desc = '%s: attempt -> %s at t=%r (timeout 9)' % (kind, whole, res.get('end'))
    if whole == 'blocked':
        return [(dict(base, kind='attempt-never-returned'), desc)]
    out = []
    if res['end'] > 9.0 + 1e-6:
        out.append((dict(base, kind='attempt-returned-late'), desc))
    if not all(v == 'temp' for v in per.values()):
        out.append((dict(base, kind='timeout-not-transient'), desc))
    return out


# ------------------------------------------------------------------ glue
def configs(tier, seed):
    return [{'part': 'server', 'k': k, 'of': 8} for k in range(8)] + [{'part': 'relay', 'k': k, 'of': 4} for k in range(4)] + [{'part': 'other'}]


def run_config(cfg, tier, seed):
    res = Result()
    if cfg['part'] == 'server':
        for i, case in enumerate(server_cases(tier)):
            if i % cfg['of'] != cfg['k']:
                continue
            vs, rec = judge_server(case)
            res.evaluations += 1
            res.count('server_stalls')
            res.interesting(case)
            res.outcome((case[0], rec['end'], rec['handler_alive']))
            for sig, msg in vs:
                res.violation(sig, msg, {'part': 'server', 'case': list(case)})
            if i % 60 == cfg['k']:
                res.sample({'side': 'server', 'case': case, 'handler_ended_at': rec['end']})
    elif cfg['part'] == 'relay':
        for i, (c, stage, how) in enumerate(relay_cases(tier)):
            if i % cfg['of'] != cfg['k']:
                continue
            vs = judge_relay(c, stage, how)
            res.evaluations += 1
            res.count('relay_stalls')
            res.interesting((tuple(sorted(c.items())), stage, how))
            res.outcome((stage, how, repr(vs)[:60]))
            for sig, msg in vs:
                res.violation(sig, msg, {'part': 'relay', 'cfg': c, 'stage': stage, 'how': how})
            if i % 40 == cfg['k']:
                res.sample({'side': 'relay', 'config': c, 'stage': stage, 'how': how})
    else:
        for kind in ('pipe-per-recipient', 'pipe-whole', 'http-no-response', 'http-mid-headers', 'http-connect'):
            vs = judge_pipe_http(kind)
            res.evaluations += 1
            res.count('pipe_http_stalls')
            res.interesting(kind)
            res.outcome((kind, repr(vs)[:60]))
            for sig, msg in vs:
                res.violation(sig, msg, {'part': 'other', 'kind': kind})
        res.sample({'side': 'pipe/http', 'kinds': 5})
    return res.as_dict()


def vacuity(counters, tier):
    p = []
    for k, n in (('server_stalls', 100), ('relay_stalls', 100), ('pipe_http_stalls', 5)):
        if counters.get(k, 0) < n:
            p.append('%s=%d' % (k, counters.get(k, 0)))
    return p


def replay(rep):
    if rep['part'] == 'server':
        vs, _ = judge_server(tuple(rep['case']))
    elif rep['part'] == 'relay':
        vs = judge_relay(rep['cfg'], rep['stage'], rep['how'])
    else:
        vs = judge_pipe_http(rep['kind'])
    if vs:
        return True, vs[0][1]
    return False, 'ended within its timeout'
