"""C14 -- no peer can hold a session or delivery attempt beyond its configured timeouts.

Virtual time, so every stall is one deterministic execution and deadlines are compared exactly.
Server: the real SmtpEdge.handle with command_timeout/data_timeout against a client that plays a full
session up to a stall point (before any byte, after each command, in the middle of a line, inside DATA
after k bytes, after end-of-data, at the TLS handshake, at an AUTH challenge) and then stays silent or
trickles one byte every 0.9 x timeout.  Relay client: the real Static{Smtp,Lmtp}Relay against a scripted
peer that stalls or trickles at every stage (PIPELINING on/off, STARTTLS, immediate TLS, AUTH, connect).
Pipe and HTTP relays: the subprocess / origin never answers.
"""
import itertools
import socket as _socket
import types

import gevent
import gevent.event

import engine.speedups  # noqa
import slimta.edge.smtp as edge_smtp
from slimta.edge.smtp import SmtpEdge
from slimta.relay import TransientRelayError

from engine.core import Chooser, Horizon
from engine.result import Result
from engine.vloop import World
from fakes.vsock import Net, VContext
from worlds.edge_seq import FakePtrLookup
from worlds.relay_world import SmtpRelayWorld, classify, make_envelope

PROPERTY = 'C14'
LEVEL = 'fault_enumeration'
EXHAUSTIVE = True
TC, TD = 11.0, 17.0

RULE = ('server: every stall point of 4 client sessions (plain, varied incl. refused / unknown commands and a second transaction, STARTTLS, AUTH; + immediate TLS) -- before any byte, after each '
        'complete command, inside every command line, inside DATA after every byte count class, after end-of-data, at the TLS '
        'handshake, at an AUTH challenge -- x {silent, trickle 0.9 Tc, trickle 0.9 Td}; relay: every stage of the scripted '
        'peer x {stall, trickle} x PIPELINING on/off x SMTP/LMTP x TLS modes x AUTH + connect stall; pipe/HTTP: no answer, '
        'answer stalls mid-way.  Oracle: exact virtual deadline.  Every case is non-trivial.')
ASSUMPTIONS = ['virtual clock; gevent.Timeout runs on the virtual loop', 'fake TLS whose handshake blocks until the peer says hello']


def BOUNDS(tier):
    return {'command_timeout': TC, 'data_timeout': TD, 'relay_timeouts': {'connect': 7, 'command': 11, 'data': 13},
            'stall_points': 'every byte offset of the client stream'}


# ------------------------------------------------------------------ server side
class NullQueue(object):
    def enqueue(self, envelope):
        return [(envelope, 'id1')]


SESSIONS = {
    'plain': dict(lines=[b'EHLO c\r\n', b'MAIL FROM:<a@x>\r\n', b'RCPT TO:<b@y>\r\n', b'DATA\r\n', b'Subject: s\r\n\r\nbody line\r\n.\r\n',
                         b'NOOP\r\n', b'QUIT\r\n'], kw={}),
    # commands that are refused or unknown are completed commands too: the timeout counts from them
    'varied': dict(lines=[b'HELO c\r\n', b'NOOP\r\n', b'BOGUS x\r\n', b'RCPT TO:<early@y>\r\n', b'MAIL FROM:<a@x>\r\n', b'RSET\r\n',
                          b'MAIL FROM:<a2@x>\r\n', b'RCPT TO:<b@y>\r\n', b'RCPT TO:<c@y>\r\n', b'DATA\r\n',
                          b'Subject: s\r\n\r\n.dot line\r\nsecond\r\n.\r\n', b'MAIL FROM:<a3@x>\r\n', b'QUIT\r\n'], kw={}),
    'starttls': dict(lines=[b'EHLO c\r\n', b'STARTTLS\r\n', 'TLS', b'EHLO c\r\n', b'MAIL FROM:<a@x>\r\n', b'QUIT\r\n'], kw={'tls': 'starttls'}),
    'immediate': dict(lines=['TLS', b'EHLO c\r\n', b'QUIT\r\n'], kw={'tls': 'immediate'}),
    'auth': dict(lines=['TLS', b'EHLO c\r\n', b'AUTH LOGIN\r\n', b'dXNlcg==\r\n', b'cHc=\r\n', b'MAIL FROM:<a@x>\r\n', b'QUIT\r\n'],
                 kw={'tls': 'immediate', 'auth': True}),
}


def server_case(session, item, offset, trickle, pre=None):
    """Play SESSIONS[session] completely up to line ``item`` and ``offset`` bytes into it, then stall
    (trickle=None) or continue one byte every ``trickle`` seconds.  pre=[i, dt]: the earlier line i arrives one byte every dt
    seconds (it completes in time; the timeout has to start afresh behind it)."""
    spec = SESSIONS[session]
    rec = {'replies': [], 'end': None, 'handler_exc': None, 'last_progress': 0.0, 'phase': 'command', 't354': None}
    with World(Chooser(), max_steps=5000) as w:
        net = Net(w)
        csock, ssock = net.pair()
        ctx = VContext() if spec['kw'].get('tls') else None
        saved = edge_smtp.PtrLookup
        edge_smtp.PtrLookup = FakePtrLookup
        try:
            edge = SmtpEdge(None, NullQueue(), command_timeout=TC, data_timeout=TD, hostname='mx.test', context=ctx,
                            tls_immediately=spec['kw'].get('tls') == 'immediate', auth=spec['kw'].get('auth', False))

            def handler():
                try:
                    edge.handle(ssock, ('192.0.2.1', 4321))
                except gevent.GreenletExit:
                    raise
                except BaseException as e:
                    rec['handler_exc'] = type(e).__name__
                rec['end'] = w.now
            hg = gevent.spawn(handler)
            state = {'sock': csock}
            ssock.on_send = lambda sock, tag, data: rec['replies'].extend(
                (w.now, l.rstrip(b'\r')) for l in data.split(b'\n') if l.strip() and not data.startswith(b'\x16HELLO'))

            def drain():
                # consume the clear-text replies received so far (a handshake must not find them in its way)
                while csock.rx.segs and csock.rx.segs[0][0] == 'c':
                    csock.recv(65536)

            def client():
                for i, line in enumerate(spec['lines']):
                    if line == 'TLS':
                        if i == item:
                            rec['stall'] = ('handshake', w.now)
                            return            # never start the handshake
                        drain()
                        cctx = VContext()
                        state['sock'] = cctx.wrap_socket(csock, server_hostname='mx')
                        continue
                    if i == item:
                        if offset:
                            state['sock'].sendall(line[:offset])
                        rec['stall'] = ('line', w.now, line[:offset])
                        rest = line[offset:]
                        if trickle is None:
                            return
                        for j in range(len(rest)):
                            gevent.sleep(trickle)
                            try:
                                state['sock'].sendall(rest[j:j + 1])
                            except Exception:
                                return
                        return
                    if trickle == 'joined' and i == item - 1 and offset:
                        # the complete line and the beginning of the next one arrive in ONE segment, then silence
                        state['sock'].sendall(line + spec['lines'][item][:offset])
                        rec['stall'] = ('joined', w.now)
                        return
                    if pre is not None and i == pre[0]:
                        for j in range(len(line)):
                            gevent.sleep(pre[1])
                            state['sock'].sendall(line[j:j + 1])
                    else:
                        state['sock'].sendall(line)
                    # the session runs in lock step: let the server answer before the next line
                    for _ in range(20):
                        gevent.sleep(0)
                rec['stall'] = ('end', w.now)
            gevent.spawn(client)
            w.run_until_quiescent()
        finally:
            edge_smtp.PtrLookup = saved
        rec['quiescent_at'] = w.now
        rec['handler_alive'] = not hg.dead
    return rec


def server_deadline(session, item, offset, trickle, rec):
    """expected: (deadline, scope) relative to the stall instant (everything before the stall is instantaneous)."""
    spec = SESSIONS[session]
    line = spec['lines'][item] if item < len(spec['lines']) else None
    # inside DATA content?  (the line after b'DATA\r\n')
    prev = spec['lines'][item - 1] if item > 0 else None
    if prev == b'DATA\r\n':
        return TD, 'data'
    return TC, 'command'


def judge_server(case):
    session, item, offset, trickle = case[:4]
    pre = case[4] if len(case) > 4 else None
    rec = server_case(session, item, offset, trickle, pre)
    out = []
    base = {'side': 'server', 'session': session}
    spec = SESSIONS[session]
    what = 'handshake' if (item < len(spec['lines']) and spec['lines'][item] == 'TLS') else ('line %r +%d' % (spec['lines'][item], offset) if item < len(spec['lines']) else 'end')
    desc = 'session %s stalled at %s (%s): handler ended at %r (exc %r), replies %r' % (
        session, what, 'silent' if trickle is None else ('pipelined with the previous line, then silent' if trickle == 'joined' else 'trickle every %gs' % trickle), rec['end'], rec['handler_exc'],
        [(t, l[:20]) for t, l in rec['replies'][-3:]])
    deadline, scope = server_deadline(session, item, offset, trickle, rec)
    if pre is not None:
        # the deadline counts from the stall instant (the slow line before it was completed in time)
        desc += '; earlier line %r arrived one byte every %gs, stall began at t=%g' % (spec['lines'][pre[0]], pre[1], rec['stall'][1])
        deadline = rec['stall'][1] + deadline
    if trickle == 'joined':
        trickle_n = None
    complete = trickle not in (None, 'joined') and item < len(spec['lines']) and spec['lines'][item] != 'TLS' and \
        (len(spec['lines'][item]) - offset) * trickle < deadline
    if rec['handler_alive'] or rec['end'] is None:
        starttls_line = item < len(spec['lines']) and spec['lines'][item] == b'STARTTLS\r\n'
        point = 'tls-handshake' if (what == 'handshake' or (starttls_line and complete)) else \
            ('auth-challenge' if session == 'auth' and item in (3, 4) else scope)
        out.append((dict(base, kind='session-never-closed', point=point), desc))
        return out, rec
    if complete:
        return out, rec          # the trickled line completed in time; the session simply went on (and then idles out)
    if rec['end'] > deadline + 1e-6:
        out.append((dict(base, kind='closed-late', scope=scope), desc + ' (deadline %g)' % deadline))
    if rec['end'] < deadline - 1e-6 and what != 'handshake' and not (item >= len(spec['lines']) - 1):
        # closing early is not a violation of the property (only an oddity worth counting)
        pass
    codes = [l[:3] for t, l in rec['replies']]
    if b'421' not in codes and what != 'handshake' and rec['end'] >= deadline - 1e-6:
        out.append((dict(base, kind='no-421-on-timeout', scope=scope), desc))
    return out, rec


def server_cases(tier):
    for session, spec in SESSIONS.items():
        n = len(spec['lines'])
        for item in range(n):
            line = spec['lines'][item]
            if line == 'TLS':
                yield (session, item, 0, None)
                continue
            offsets = range(0, len(line))
            for off in offsets:
                yield (session, item, off, None)
                if off and item > 0 and isinstance(spec['lines'][item - 1], bytes) and spec['lines'][item - 1] != b'DATA\r\n' \
                        and not (item > 1 and spec['lines'][item - 2] == b'DATA\r\n') and spec['lines'][item - 1] != b'STARTTLS\r\n':
                    yield (session, item, off, 'joined')
                prev = spec['lines'][item - 1] if item else None
                t = 0.9 * (TD if prev == b'DATA\r\n' else TC)
                yield (session, item, off, t)
                if prev == b'DATA\r\n':
                    yield (session, item, off, 0.9 * TC)
                if tier == 'thorough':
                    # more trickle rates: just under the limit, half of it, a small fraction (the line completes in time)
                    for f in (0.99, 0.53, 0.047):      # no multiple of these is exactly 1
                        yield (session, item, off, f * (TD if prev == b'DATA\r\n' else TC))


def judge_server_deaf(session, n_noop):
    """A client that never reads: it sends the session's first lines and then NOOPs, all at once; the server's replies pile up
    in a 64-byte window.  The session must still be over within the command timeout of the last command the server could take."""
    spec = SESSIONS[session]
    rec = {'end': None, 'exc': None}
    with World(Chooser(), max_steps=5000) as w:
        net = Net(w)
        csock, ssock = net.pair(capacity_back=64)
        saved = edge_smtp.PtrLookup
        edge_smtp.PtrLookup = FakePtrLookup
        try:
            edge = SmtpEdge(None, NullQueue(), command_timeout=TC, data_timeout=TD, hostname='mx.test')

            def handler():
                try:
                    edge.handle(ssock, ('192.0.2.1', 4321))
                except gevent.GreenletExit:
                    raise
                except BaseException as e:
                    rec['exc'] = type(e).__name__
                rec['end'] = w.now
            hg = gevent.spawn(handler)
            lines = [l for l in spec['lines'] if isinstance(l, bytes)][:2]
            csock.sendall(b''.join(lines) + b'NOOP\r\n' * n_noop)
            w.run_until_quiescent()
        finally:
            edge_smtp.PtrLookup = saved
        alive = not hg.dead
    base = {'side': 'server', 'session': session}
    desc = 'session %s: the client sends %r + %d x NOOP and never reads a reply (64-byte window): handler ended at %r (%s)' % (
        session, b''.join(lines), n_noop, rec['end'], rec['exc'])
    if alive or rec['end'] is None:
        return [(dict(base, kind='session-never-closed', point='client-does-not-read'), desc)]
    if rec['end'] > 2 * TC + 1e-6:
        return [(dict(base, kind='closed-late', scope='client-does-not-read'), desc + ' (bound %g: one command timeout for the reply in the way, one for the command that never comes)' % (2 * TC))]
    return []


def server_pair_cases():
    """a slow (but timely) earlier command line, then silence at a later one: the timeout must have been re-armed"""
    for session, spec in SESSIONS.items():
        lines = spec['lines']
        for i, li in enumerate(lines):
            if li == 'TLS' or (i and lines[i - 1] == b'DATA\r\n'):
                continue
            dt = 0.047 * TC
            if len(li) * dt >= TC:
                continue
            for j in range(i + 1, len(lines)):
                lj = lines[j]
                if lj == 'TLS' or lines[j - 1] == b'DATA\r\n' or (i < len(lines) - 1 and b'DATA\r\n' in lines[i:j] and False):
                    continue
                if b'DATA\r\n' in lines[i + 1:j]:
                    continue        # the data phase has its own cumulative clock: kept to the single-stall cases
                for off in (0, len(lj) // 2):
                    yield (session, j, off, None, [i, dt])


# ------------------------------------------------------------------ relay client side
REL = dict(connect_timeout=7.0, command_timeout=11.0, data_timeout=13.0)


def relay_stages(cfg):
    n = cfg['n']
    st = ['banner', 'ehlo', 'mail'] + ['rcpt%d' % i for i in range(n)] + ['data']
    st += ['eod%d' % i for i in range(n)] if cfg.get('lmtp') else ['eod']
    st += ['rset', 'quit']
    if cfg.get('tls') == 'starttls':
        st[2:2] = ['starttls', 'tls']
    if cfg.get('tls') == 'immediate':
        st.insert(0, 'tls')
    if cfg.get('auth'):
        st.insert(st.index('mail'), 'auth')
    if cfg.get('helo_fallback'):
        st.insert(st.index('ehlo') + 1, 'helo')          # EHLO is answered 500, the client falls back to HELO
    return st


def judge_relay(cfg, stage, how):
    c = dict(cfg)
    c.update(REL)
    no_dt = c.pop('no_data_timeout', False)
    if no_dt:
        c['data_timeout'] = None          # not configured: the documented default is the command timeout
    if stage == 'connect':
        c['connect'] = 'stall'
        script = {}
    elif stage == 'content':
        # the peer answers DATA with 354 and then stops reading: the message does not fit its receive window
        c['capacity'] = 16
        script = {'read_pause': 100000.0}
    elif stage == 'unsolicited':
        c['unsolicited_partial'] = c['unsolicited_partial'].encode() if isinstance(c['unsolicited_partial'], str) else c['unsolicited_partial']
        script = {}
    else:
        scope = 13.0 if (stage.startswith('eod') and not no_dt) else 11.0
        frac = {'trickle': 0.9, 'trickle53': 0.53, 'trickle99': 0.99}.get(how, 0.9)
        script = {stage: 'stall' if how == 'stall' else ('trickle', frac * scope)}
        if stage == 'auth' and how == 'stall-after-334':
            script = {'auth': 'stall-after-334'}
        if cfg.get('helo_fallback') and stage not in ('banner', 'ehlo'):
            script['ehlo'] = '500'
        if cfg.get('refused_but_354'):
            script.update({'rcpt0': '5', 'rcpt1': '5', 'data354': True})
    c.pop('helo_fallback', None)
    c.pop('refused_but_354', None)
    c['script'] = script
    if c.pop('concurrent', False):
        # two attempts at the same moment through one relay object: each is bounded by ITS OWN timeouts, a stalled peer of
        # one attempt must not make the other wait
        c['sequential'] = bool(c.pop('one_after_the_other', False))
        w = SmtpRelayWorld(Chooser(), c).run()
        out = []
        for i, rec in enumerate(w.results):
            per, whole = classify(rec['outcome'], rec['env'])
            limit = (7.0 if stage == 'connect' else 13.0 if stage.startswith('eod') else 11.0)
            if cfg.get('one_after_the_other') and i > 0 and stage != 'connect':
                limit += 11.0        # the previous client still holds the only slot while its QUIT times out: bounded, by one more command timeout
            desc = 'two %s attempts, pool_size %r, relay %s, peers %s at %s: attempt %d -> %s at t=%r (limit %g)' % (
                'consecutive' if cfg.get('one_after_the_other') else 'concurrent', cfg.get('pool_size'),
                'LMTP' if cfg.get('lmtp') else 'SMTP', how, stage, i, whole, rec['end'], limit)
            base = {'side': 'relay', 'lmtp': bool(cfg.get('lmtp')), 'pipelining': True, 'concurrent': True}
            if whole == 'blocked' or rec['end'] is None:
                out.append((dict(base, kind='attempt-never-returned', stage=stage.rstrip('0123456789'), how=how), desc))
            elif rec['end'] > rec['start'] + limit + 1e-6:
                out.append((dict(base, kind='attempt-returned-late', stage=stage.rstrip('0123456789'), how=how), desc + ' (called at t=%r)' % rec['start']))
        return out
    w = SmtpRelayWorld(Chooser(), c).run()
    rec = w.results[0]
    per, whole = classify(rec['outcome'], rec['env'])
    base = {'side': 'relay', 'lmtp': bool(cfg.get('lmtp')), 'pipelining': bool(cfg.get('pipelining', True))}
    desc = 'relay %s%s%s n=%d, peer %ss at %s: attempt -> %s at t=%r' % (
        'LMTP' if cfg.get('lmtp') else 'SMTP', '' if cfg.get('pipelining', True) else ' no-pipelining',
        ''.join(' %s=%r' % (k, cfg[k]) for k in ('tls', 'auth', 'helo_fallback', 'refused_but_354') if cfg.get(k)), cfg['n'], how, stage, whole, rec['end'])
    out = []
    if stage == 'connect':
        limit = 7.0
    elif (stage.startswith('eod') or stage == 'content') and not no_dt:
        limit = 13.0
    else:
        limit = 11.0
    if stage in ('quit', 'rset') and whole in ('mapping',) and rec['end'] is not None and rec['end'] <= limit + 1e-6:
        return out
    if stage == 'unsolicited':
        limit = 11.0
    if w.horizon_hit and rec['end'] is None:
        out.append((dict(base, kind='attempt-never-returned', stage=stage.rstrip('0123456789'), how='reconnects for ever'), desc + ' (%d connections)' % len(w.peers)))
        return out
    if whole == 'blocked' or rec['end'] is None:
        out.append((dict(base, kind='attempt-never-returned', stage=stage.rstrip('0123456789'), how=how), desc))
        return out
    if how.startswith('stall') or stage == 'connect':
        if rec['end'] > limit + 1e-6:
            out.append((dict(base, kind='attempt-returned-late', stage=stage.rstrip('0123456789'), how=how), desc + ' (limit %g)' % limit))
        if cfg.get('refused_but_354'):
            pass            # every recipient was refused with 5xx: a permanent result is right, only the time bound is at stake
        elif not all(v in ('temp', 'delivered', 'perm') for v in per.values()) or (whole.startswith('raised') and whole != 'raised:temp'):
            out.append((dict(base, kind='timeout-not-transient', stage=stage.rstrip('0123456789'), how=how), desc))
    else:
        # trickled reply: either it completes inside the scope (then the session goes on) or the scope's timeout fires
        if rec['end'] is not None and rec['end'] > limit * 3 + 1e-6:
            out.append((dict(base, kind='attempt-returned-late', stage=stage.rstrip('0123456789'), how=how), desc + ' (limit %g)' % (limit * 3)))
    return out


def relay_cases(tier):
    cfgs = []
    for lmtp in (False, True):
        for pl in (True, False):
            cfgs.append(dict(lmtp=lmtp, pipelining=pl, n=2))
        cfgs.append(dict(lmtp=lmtp, n=1, tls='starttls', tls_required=True))
        cfgs.append(dict(lmtp=lmtp, n=1, tls='immediate'))
        cfgs.append(dict(lmtp=lmtp, n=1, tls='starttls', auth=True))
    cfgs.append(dict(lmtp=False, n=1, helo_fallback=True))
    cfgs.append(dict(lmtp=False, n=2, helo_fallback=True, pipelining=False))
    if tier == 'thorough':
        for lmtp in (False, True):
            for pl in (True, False):
                cfgs.append(dict(lmtp=lmtp, pipelining=pl, n=3))
                cfgs.append(dict(lmtp=lmtp, pipelining=pl, n=2, tls='starttls', auth=True))
    for cfg in cfgs:
        yield cfg, 'connect', 'stall'
        for st in relay_stages(cfg):
            yield cfg, st, 'stall'
            if st != 'tls':
                yield cfg, st, 'trickle'
                if tier == 'thorough':
                    yield cfg, st, 'trickle53'
                    yield cfg, st, 'trickle99'
        if cfg.get('auth'):
            yield cfg, 'auth', 'stall-after-334'
    # the peer stops reading in the middle of the message
    for lmtp in (False, True):
        for pl in (True, False):
            yield dict(lmtp=lmtp, pipelining=pl, n=1), 'content', 'stall'
    # only connect and command timeouts configured: the data phase falls back to the command timeout
    for lmtp in (False, True):
        for pl in (True, False):
            cfg = dict(lmtp=lmtp, pipelining=pl, n=2, no_data_timeout=True)
            for st in relay_stages(cfg):
                if st in ('data',) or st.startswith('eod'):
                    yield cfg, st, 'stall'
                    yield cfg, st, 'trickle'
    # every recipient refused, DATA answered 354 all the same, then silence behind the lone dot the client has to send
    for pl in (True, False):
        yield dict(lmtp=False, pipelining=pl, n=2, refused_but_354=True), 'eod', 'stall'
    for lmtp in (False, True):
        for st in ('connect', 'banner', 'mail', 'eod0' if lmtp else 'eod'):
            for ps in (None, 2):
                yield dict(lmtp=lmtp, n=1, envelopes=2, concurrent=True, pool_size=ps), st, 'stall'
                yield dict(lmtp=lmtp, n=1, envelopes=2, concurrent=True, pool_size=ps, stagger=1.0), st, 'stall'
    # one attempt after the other through a pool of one: what the first (timed-out) attempt leaves behind must not hold the second
    for lmtp in (False, True):
        for st in ('connect', 'banner', 'mail', 'eod0' if lmtp else 'eod'):
            yield dict(lmtp=lmtp, n=1, envelopes=2, concurrent=True, one_after_the_other=True, pool_size=1), st, 'stall'
    for lmtp in (False, True):
        yield dict(lmtp=lmtp, n=1, unsolicited_partial='421 4.4.2 idl', idle_timeout=5.0, max_steps=400), 'unsolicited', 'stall'


# ------------------------------------------------------------------ pipe / http
T_OTHER = 9.0


def other_cases(tier):
    """pipe: per delivery command {stuck, finishes after a fraction of the timeout}; http: where the origin stops."""
    cases = []
    fr = (0.35, 0.55, 0.9) if tier == 'quick' else (0.2, 0.35, 0.55, 0.9, 1.2)      # no sum of <= 3 of them is exactly 1
    for per in (True, False):
        for n in ((1, 2, 3) if per else (2,)):
            calls = n if per else 1
            for delays in itertools.product(('block',) + fr, repeat=calls):
                if 'block' in delays[:-1] and any(d != 'block' for d in delays[delays.index('block') + 1:]):
                    continue                    # nothing runs after a stuck command
                cases.append({'kind': 'pipe', 'per_recipient': per, 'n': n, 'delays': list(delays)})
    # the ready-made delivery-program relays take the same timeout
    for rc in ('maildrop', 'dovecot'):
        for per in (True, False):
            for delays in (['block'], [0.55], [1.2], [0.35, 'block']):
                if len(delays) > 1 and not per:
                    continue
                cases.append({'kind': 'pipe', 'relay_class': rc, 'per_recipient': per, 'n': 2 if len(delays) > 1 else 1, 'delays': delays})
    for proto in ('smtp', 'lmtp'):
        cases.append({'kind': 'default-socket', 'proto': proto})
    for mode in ('no-response', 'mid-headers', 'connect', 'mid-body', 'chunked-unfinished', 'slow-body'):
        for ps in (None, 1):
            for it in (None, 5.0):
                cases.append({'kind': 'http', 'mode': mode, 'pool_size': ps, 'idle_timeout': it})
    return cases


def judge_default_socket(case):
    """A relay built without a socket_creator, against a loopback listener that never answers, in a process of its own with an
    outer time limit (real sockets, real loop: if the default sockets do not yield to the hub no timeout can ever fire)."""
    import os
    import subprocess
    import sys
    here = os.path.dirname(os.path.dirname(os.path.abspath(__file__)))
    repo = os.environ.get('VERIF_REPO', '/repo')
    base = {'side': 'relay-default-socket', 'proto': case['proto']}
    try:
        p = subprocess.run([sys.executable, os.path.join(here, 'conformance', 'default_socket.py'), repo, case['proto']],
                           stdout=subprocess.PIPE, stderr=subprocess.DEVNULL, timeout=60)
        line = [l for l in p.stdout.decode('utf-8', 'replace').splitlines() if l.startswith('RESULT ')]
    except subprocess.TimeoutExpired:
        return [(dict(base, kind='attempt-never-returned'), '%s relay built without a socket_creator, peer accepts the connection and stays silent, '
                 'timeouts 0.5 s: the attempt (and the whole process) was still blocked after 60 s' % case['proto'].upper())]
    if not line and b'SKIP' in p.stdout:
        return []          # no loopback interface in this sandbox: the probe cannot run (the in-memory cases still do)
    if not line:
        return [(dict(base, kind='probe-failed'), 'default-socket probe produced no result (exit %d)' % p.returncode)]
    _, what, secs = line[0].split()
    if what != 'transient' or float(secs) > 20.0:      # real time on a possibly busy machine: generous, a hang is what matters
        return [(dict(base, kind='timeout-not-transient' if what != 'transient' else 'attempt-returned-late'),
                 '%s relay built without a socket_creator against a silent peer: %s after %s s (timeouts 0.5 s)' % (case['proto'].upper(), what, secs))]
    return []


def judge_other(case):
    """-> list of (signature, message).  Every attempt must end, within the relay's single timeout counted from the moment
    it could start (its own call, or the moment the one pooled client was free again)."""
    if case['kind'] == 'default-socket':
        return judge_default_socket(case)
    recs = []
    base = {'side': case['kind'] + ('' if case['kind'] == 'http' else ('-per-recipient' if case['per_recipient'] else '-whole'))}
    if case.get('relay_class'):
        base['relay_class'] = case['relay_class']
    with World(Chooser(), max_steps=5000, horizon=200.0) as w:
        if case['kind'] == 'pipe':
            import slimta.relay.pipe as pipe
            from fakes.fakepopen import FakeSubprocess
            delays = case['delays']

            def script(args, stdin, k):
                d = delays[min(k, len(delays) - 1)]
                if d == 'block':
                    return 'block'
                return ('sleep', d * T_OTHER, (0, b'', b''))
            w.patch(pipe, 'subprocess', FakeSubprocess(script))
            rc = case.get('relay_class', 'pipe')
            if rc == 'maildrop':
                relay = pipe.MaildropRelay(timeout=T_OTHER)
            elif rc == 'dovecot':
                relay = pipe.DovecotLdaRelay(timeout=T_OTHER)
            else:
                relay = pipe.PipeRelay(['x', '{recipient}'], timeout=T_OTHER)
            relay.per_recipient = case['per_recipient']
            envs = [make_envelope(0, case['n'])]
        else:
            import slimta.http as shttp
            from slimta.relay.http import HttpRelay
            from fakes.fakehttp import HttpPeer, response
            net = Net(w)
            mode = case['mode']
            full = response(200, 'OK', [('X-Smtp-Reply', '250; message="2.0.0 ok"')], b'0123456789')

            def create_connection(addr, timeout=None, source_address=None):
                if mode == 'connect':
                    gevent.event.Event().wait()
                c, s = net.pair(peername=addr)

                def responder(req, k):
                    if mode == 'no-response':
                        return 'stall'
                    if mode == 'mid-headers':
                        return ('stall-after', full[:25])
                    if mode == 'mid-body':
                        return ('stall-after', full[:-7])            # complete header block, 3 of 10 body bytes
                    if mode == 'chunked-unfinished':
                        return ('stall-after', b'HTTP/1.1 200 OK\r\nX-Smtp-Reply: 250; message="2.0.0 ok"\r\nTransfer-Encoding: chunked\r\n\r\n3\r\nabc\r\n')
                    if mode == 'slow-body':
                        return ('trickle-body', full[:-10], full[-10:], 2.0)
                gevent.spawn(HttpPeer(s, responder).run)
                return c
            w.patch(shttp, 'socket', types.SimpleNamespace(create_connection=create_connection))
            relay = HttpRelay('http://mx.test/deliver', ehlo_as='relay.test', timeout=T_OTHER, pool_size=case['pool_size'],
                              idle_timeout=case['idle_timeout'])
            envs = [make_envelope(0, 2), make_envelope(1, 2)]

        def go(env, rec):
            rec['start'] = w.now
            try:
                rec['outcome'] = ('returned', relay.attempt(env, 0))
            except gevent.GreenletExit:
                raise
            except BaseException as e:
                rec['outcome'] = ('raised', e)
            rec['end'] = w.now

        def driver():
            for env in envs:
                rec = {'env': env, 'outcome': None, 'start': None, 'end': None}
                recs.append(rec)
                g = gevent.spawn(go, env, rec)
                g.join()                       # the next attempt starts when this one has returned
        gevent.spawn(driver)
        try:
            w.run_until_quiescent()
        except Horizon:
            pass
    out = []
    free_at = 0.0
    for i, rec in enumerate(recs):
        per, whole = classify(rec.get('outcome'), rec['env'])
        desc = '%r: attempt #%d called at t=%r -> %s at t=%r (timeout %g)' % (case, i, rec['start'], whole, rec.get('end'), T_OTHER)
        if whole == 'blocked':
            out.append((dict(base, kind='attempt-never-returned', attempt=i), desc))
            break
        limit = max(rec['start'], free_at) + T_OTHER
        if rec['end'] > limit + 1e-6:
            out.append((dict(base, kind='attempt-returned-late', attempt=i), desc + '; allowed until t=%g' % limit))
        if case['kind'] == 'pipe':
            d = case['delays']
            total, done = 0.0, 0
            for x in d:
                if x == 'block' or total + x * T_OTHER > T_OTHER - 1e-9:
                    break
                total += x * T_OTHER
                done += 1
            rc = list(rec['env'].recipients)
            exp = {}
            for j, r in enumerate(rc):
                finished = (j < done) if case['per_recipient'] else (done >= 1)
                exp[r] = 'delivered' if finished else 'temp'
            if per != exp:
                out.append((dict(base, kind='wrong-result-after-timeout', attempt=i), desc + '; got %r expected %r' % (per, exp)))
        else:
            # the single pooled client may stay busy with the previous response until that request's timeout
            free_at = (rec['start'] + T_OTHER) if case['pool_size'] == 1 else 0.0
            ok_modes = ('mid-body', 'chunked-unfinished', 'slow-body')       # complete status + header block was received
            if case['mode'] not in ok_modes and not all(v == 'temp' for v in per.values()):
                out.append((dict(base, kind='timeout-not-transient', attempt=i), desc))
    if len(recs) < len(envs) and not out:
        out.append((dict(base, kind='attempt-never-returned', attempt=len(recs)), '%r: attempt #%d never started' % (case, len(recs))))
    return out


# ------------------------------------------------------------------ glue
def configs(tier, seed):
    return [{'part': 'server', 'k': k, 'of': 8} for k in range(8)] + [{'part': 'relay', 'k': k, 'of': 4} for k in range(4)] + [{'part': 'other'}]


def run_config(cfg, tier, seed):
    res = Result()
    if cfg['part'] == 'server':
        for session in (('plain', 'varied') if cfg.get('k', 0) == 0 else ()):
            for n_noop in (0, 3, 40):
                res.evaluations += 1
                res.count('server_stalls')
                res.interesting(('deaf-client', session, n_noop))
                for sig, msg in judge_server_deaf(session, n_noop):
                    res.violation(sig, msg, {'part': 'server-deaf', 'session': session, 'n_noop': n_noop})
        for i, case in enumerate(itertools.chain(server_cases(tier), server_pair_cases())):
            if i % cfg['of'] != cfg['k']:
                continue
            vs, rec = judge_server(case)
            res.evaluations += 1
            res.count('server_stalls')
            res.interesting(case)
            res.outcome((case[0], rec['end'], rec['handler_alive']))
            for sig, msg in vs:
                res.violation(sig, msg, {'part': 'server', 'case': list(case)})
            if i % 60 == cfg['k']:
                res.sample({'side': 'server', 'case': case, 'handler_ended_at': rec['end']})
    elif cfg['part'] == 'relay':
        for i, (c, stage, how) in enumerate(relay_cases(tier)):
            if i % cfg['of'] != cfg['k']:
                continue
            vs = judge_relay(c, stage, how)
            res.evaluations += 1
            res.count('relay_stalls')
            res.interesting((tuple(sorted(c.items())), stage, how))
            res.outcome((stage, how, repr(vs)[:60]))
            for sig, msg in vs:
                res.violation(sig, msg, {'part': 'relay', 'cfg': c, 'stage': stage, 'how': how})
            if i % 40 == cfg['k']:
                res.sample({'side': 'relay', 'config': c, 'stage': stage, 'how': how})
    else:
        for i, case in enumerate(other_cases(tier)):
            vs = judge_other(case)
            res.evaluations += 1
            res.count('pipe_http_stalls')
            res.interesting(repr(case))
            res.outcome((repr(case), repr(vs)[:60]))
            for sig, msg in vs:
                res.violation(sig, msg, {'part': 'other', 'case': case})
            if i % 25 == 0:
                res.sample({'side': 'pipe/http', 'case': case})
    return res.as_dict()


def vacuity(counters, tier):
    p = []
    for k, n in (('server_stalls', 100), ('relay_stalls', 100), ('pipe_http_stalls', 40)):
        if counters.get(k, 0) < n:
            p.append('%s=%d' % (k, counters.get(k, 0)))
    return p


def replay(rep):
    if rep['part'] == 'server-deaf':
        vs = judge_server_deaf(rep['session'], rep['n_noop'])
        if vs:
            return True, vs[0][1]
        return False, 'the session of a client that does not read its replies is closed in time'
    if rep['part'] == 'server':
        vs, _ = judge_server(tuple(rep['case']))
    elif rep['part'] == 'relay':
        vs = judge_relay(rep['cfg'], rep['stage'], rep['how'])
    else:
        vs = judge_other(rep['case'])
    if vs:
        return True, vs[0][1]
    return False, 'ended within its timeout'
