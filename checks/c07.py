"""C07 -- SMTP server enforces command order and resets transaction state.

Breadth-first search over the real SmtpEdge + SmtpSession + Server, one client event at a time.  A
state is the event history reaching it (replayed on fresh objects); its canonical form is read from
the real objects after the run (session flags, extension set, envelope under construction with the
recipients as a set) together with the reference automaton's state.  Every transition is judged by
the reference automaton (refmodels.smtp_ref.RefEdge).  The merge is cross-checked: two
representatives of every abstract state must behave identically for every event, and all event
sequences up to a depth are also explored without any merging.
"""
import base64
import itertools

from engine.core import stable_hash
from engine.result import Result, b2s, s2b
from refmodels.smtp_ref import RefEdge, spec_matches
from worlds.edge_seq import EdgeRun

PROPERTY = 'C07'
LEVEL = 'model_checking'
EXHAUSTIVE = True
SIZE = 30
PROBE = b'NOOP\r\n'

_plain = base64.b64encode(b'\x00user\x00pw').decode()
EVENTS = [
    ('EHLO', b'EHLO c\r\n'), ('HELO', b'HELO c\r\n'), ('EHLO-noarg', b'EHLO\r\n'),
    ('MAIL-a', b'MAIL FROM:<a@x>\r\n'), ('MAIL-null', b'MAIL FROM:<>\r\n'), ('MAIL-malformed', b'MAIL FROM:a@x\r\n'),
    ('MAIL-noarg', b'MAIL\r\n'), ('MAIL-size-ok', b'MAIL FROM:<a@x> SIZE=5\r\n'),
    ('MAIL-size-big', b'MAIL FROM:<a@x> SIZE=999\r\n'), ('MAIL-size-junk', b'MAIL FROM:<a@x> SIZE=zz\r\n'),
    ('RCPT-b', b'RCPT TO:<b@y>\r\n'), ('RCPT-c', b'RCPT TO:<c@y>\r\n'), ('RCPT-malformed', b'RCPT TO:b@y\r\n'),
    ('DATA-x', b'DATA\r\nSubject: t\r\n\r\nx\r\n.\r\n'), ('DATA-empty', b'DATA\r\n.\r\n'),
    ('DATA-oversize', b'DATA\r\n' + b'A' * 40 + b'\r\n.\r\n'), ('DATA-arg', b'DATA now\r\n'),
    ('RSET', b'RSET\r\n'), ('RSET-arg', b'RSET x\r\n'), ('NOOP', b'NOOP\r\n'),
    ('QUIT', b'QUIT\r\n'), ('QUIT-arg', b'QUIT now\r\n'), ('QUIT+NOOP', b'QUIT\r\nNOOP\r\n'),
    ('STARTTLS', b'STARTTLS\r\n'), ('STARTTLS-arg', b'STARTTLS x\r\n'),
    ('AUTH-plain-ok', ('AUTH PLAIN %s\r\n' % _plain).encode()), ('AUTH-bad-base64', b'AUTH PLAIN !!!\r\n'),
    ('AUTH-noarg', b'AUTH\r\n'), ('FOO', b'FOO bar\r\n'), ('empty-line', b'\r\n'),
    ('EHLO-nonutf8', b'EHLO \xff\r\n'),
    ('MAIL-quoted', b'MAIL FROM:<"a\\">b"@x>\r\n'),              # legal: escaped quote and > inside a quoted local part
    ('MAIL-bad-quoted', b'MAIL FROM:<"abc\\">\r\n'),             # malformed: the quoted string never ends
    ('RCPT-quoted', b'RCPT TO:<"c\\">d"@y>\r\n'),
    ('XHELP', b'XHELP\r\n'),                # an application command answered 214: a 2xx code that does not close
    ('XCUST', b'XCUST now\r\n'),
    # a command pipelined in the same segment as the end-of-data line (accepted and over-size message)
    ('DATA-x+NOOP', b'DATA\r\nSubject: t\r\n\r\nx\r\n.\r\nNOOP\r\n'),
    # content with a line that is a single period (sent as "..") and a command look-alike behind it
    ('DATA-dots', b'DATA\r\nS: t\r\n\r\n..\r\nMAIL FROM:<in@body>\r\n.\r\n'),
    ('DATA-oversize+NOOP', b'DATA\r\n' + b'A' * 40 + b'\r\n.\r\nNOOP\r\n'),            # a command the application implements (it rewrites the reply it is handed)
]
EV = dict(EVENTS)
VERDICT_CBS = ('EHLO', 'HELO', 'MAIL', 'RCPT', 'DATA', 'HAVE_DATA', 'AUTH')
VERDICT_CODES = ('450', '550', '421')

RULE = ('BFS to closure over (real server state, reference state) with %d client events x validator verdicts '
        '{accept,450,550,421} for each callback the event reaches, from 4 banner verdicts, per configuration '
        '(auth on/off x TLS none/STARTTLS/immediate x SIZE off/on); plus all event sequences up to depth D without '
        'merging; plus the two-representative differential check of the merge.  A transition is non-trivial when '
        'the event is refused, rejected by a validator, closes the session or resets a transaction.' % len(EVENTS))
ASSUMPTIONS = ['one event per recv() segment (segmentation independence is C09)',
               'commands with non-UTF-8 arguments: only "error reply, no callback" is required',
               'fake TLS (transparent), fake PTR lookup, recording queue']


def BOUNDS(tier):
    return {'events': len(EVENTS), 'verdicts': 4, 'configs': 12, 'unmerged_depth': 2 if tier == 'quick' else 3,
            'unmerged_depth_single_config': 3 if tier == 'quick' else 4}


def make_ref(cfg):
    return RefEdge(size_limit=SIZE if cfg['size'] else None, starttls=(cfg['tls'] == 'starttls'),
                   auth=cfg['auth'], tls_immediate=(cfg['tls'] == 'immediate'))


def run_history(cfg, banner_v, hist):
    """hist: list of (event name, verdict or None).  Returns the finished EdgeRun (probe appended)."""
    events = [EV[n] for n, _ in hist] + [PROBE]
    verdicts = [v for _, v in hist] + [None]
    r = EdgeRun(events, verdicts, banner_verdict=banner_v, auth=cfg['auth'], tls=cfg['tls'],
                size=SIZE if cfg['size'] else None)
    return r.run()


def judge_history(cfg, banner_v, hist):
    """Replays hist on real objects and on the reference.  Returns
    (violations for the LAST event, successor key, observation of last event, callbacks reached)."""
    r = run_history(cfg, banner_v, hist)
    ref = make_ref(cfg)
    viols = []
    codes, cbs = r.event_view(-1)
    ex = ref.connect(banner_v, list(codes or ()))
    last = (codes, cbs, ex, ref.closed)
    skipped = False
    for k, (name, v) in enumerate(hist):
        if ref.closed:
            skipped = True
            break
        codes, cbs = r.event_view(k)
        ex = ref.feed(EV[name], v, list(codes or ()))
        last = (codes, cbs, ex, ref.closed)
    codes, cbs, ex, _ = last
    pcodes, pcbs = r.event_view(len(hist))
    real_closed = not pcodes
    evname = hist[-1][0] if hist else 'CONNECT'
    verdict = hist[-1][1] if hist else banner_v
    vs = verdict[1] if verdict else 'accept'

    def sig(kind, **kw):
        d = {'kind': kind, 'event': evname, 'verdict': vs}
        d.update(kw)
        return d

    if not skipped and not ex.undefined:
        if codes is None:
            viols.append((sig('no-reply'), 'event %s was never answered' % evname))
        else:
            if len(codes) != len(ex.replies):
                viols.append((sig('reply-count', expected=len(ex.replies), got=len(codes)),
                              'event %s: replies %r, reference expects %r' % (evname, codes, ex.replies)))
            elif not all(spec_matches(s, c) for s, c in zip(ex.replies, codes)):
                viols.append((sig('reply-class', expected=','.join(ex.replies), got=','.join(codes)),
                              'event %s: replies %r, reference expects %r' % (evname, codes, ex.replies)))
            def _n(c):   # HANDOFF: sender+recipients only (content: C06/C20); AUTH: authcid+secret (authzid: C08)
                return c[:4] if c[0] in ('HANDOFF', 'AUTH') else c
            rcb = tuple(_n(c) for c in cbs)
            ecb = tuple(_n(c) for c in ex.callbacks)
            if rcb != ecb:
                extra = [c[0] for c in rcb if c not in ecb]
                missing = [c[0] for c in ecb if c not in rcb]
                kind = 'callback-out-of-order' if extra and not missing else \
                    ('handoff-envelope' if 'HANDOFF' in extra and 'HANDOFF' in missing else 'callbacks-differ')
                viols.append((sig(kind, extra=','.join(extra), missing=','.join(missing)),
                              'event %s: callbacks %r, reference expects %r' % (evname, rcb, ecb)))
        if ref.closed and not real_closed:
            viols.append((sig('continues-after-close'), 'session still answers after %r (probe got %r)' % (codes, pcodes)))
        if real_closed and not ref.closed:
            viols.append((sig('silent-close', last=','.join(codes or ())),
                          'session ended (%s) after replies %r without a 221/421' % (r.end, codes)))
    for cname, before, after in getattr(r, 'changed_constants', ()):
        viols.append((sig('shared-reply-constant-modified', constant=cname),
                      'after event %s the pre-defined reply slimta.smtp.reply.%s (%s) reads %r: every later session of the process '
                      'answers with the modified reply' % (evname, cname, before, after)))
    closed = real_closed
    key = (r.real_state(closed), ref.key())
    obs = (codes, tuple(c[:4] for c in cbs))
    reached = [c[0] for c in ex.callbacks]
    return viols, key, obs, reached, closed or ref.closed, ex.undefined


def event_menu(cfg, refkey_mail_open):
    for name, _ in EVENTS:
        yield name


def variants(reached):
    out = [None]
    for cb in VERDICT_CBS:
        if cb in reached:
            for code in VERDICT_CODES:
                out.append((cb, code))
    return out


def bfs(cfg, res, tier):
    seen = {}
    reps = {}
    frontier = []
    for bv in (None, ('BANNER', '450'), ('BANNER', '550'), ('BANNER', '421')):
        viols, key, obs, reached, closed, undef = judge_history(cfg, bv, [])
        res.evaluations += 1
        res.transitions += 1
        report(cfg, res, viols, bv, [])
        h = stable_hash(key)
        if h not in seen:
            seen[h] = (bv, [], closed)
            frontier.append(h)
    max_depth = 0
    while frontier:
        nxt = []
        for h in frontier:
            bv, hist, closed = seen[h]
            if closed:
                continue
            # is a transaction open (reference view)? recompute cheaply from the ref replay
            mail_open = ref_mail_open(cfg, bv, hist)
            for name in event_menu(cfg, mail_open):
                viols0, key0, obs0, reached, closed0, undef0 = judge_history(cfg, bv, hist + [(name, None)])
                todo = [(None, (viols0, key0, obs0, closed0))]
                for v in variants(reached)[1:]:
                    viols, key, obs, _, cl, _ = judge_history(cfg, bv, hist + [(name, v)])
                    todo.append((v, (viols, key, obs, cl)))
                for v, (viols, key, obs, cl) in todo:
                    res.evaluations += 1
                    res.transitions += 1
                    res.outcome((name, v, obs))
                    if obs[0] and (obs[0][0][0] in '45' or v is not None or cl):
                        res.interesting((h, name, v))
                    report(cfg, res, viols, bv, hist + [(name, v)])
                    if viols:
                        # implementation and reference have parted ways on this transition: what follows it says nothing
                        # new (and the product of two diverged state spaces would only make the search run away)
                        continue
                    h2 = stable_hash(key)
                    if h2 not in seen:
                        seen[h2] = (bv, hist + [(name, v)], cl)
                        nxt.append(h2)
                        max_depth = max(max_depth, len(hist) + 1)
                    elif seen[h2][1] != hist + [(name, v)]:
                        reps[h2] = (bv, hist + [(name, v)], cl)
        frontier = nxt
    res.states += len(seen)
    res.count('abstract_states', len(seen))
    res.count('bfs_depth_sum_over_configs', max_depth)
    # differential check of the merge
    for h2, (bv2, hist2, cl2) in reps.items():
        bv1, hist1, cl1 = seen[h2]
        if cl1 or cl2:
            continue
        for name, _ in EVENTS:
            a = judge_history(cfg, bv1, hist1 + [(name, None)])
            b = judge_history(cfg, bv2, hist2 + [(name, None)])
            res.evaluations += 2
            res.traces_validated += 1
            if (a[1], a[2]) != (b[1], b[2]):
                res.violation({'kind': 'merge-differential', 'event': name},
                              'two histories reach the same abstract state but differ on %s: %r -> %r  VS  %r -> %r'
                              % (name, hist1, a[2], hist2, b[2]),
                              {'cfg': cfg, 'banner': bv1, 'hist': [[n, list(v) if v else None] for n, v in hist1 + [(name, None)]],
                               'other': {'banner': bv2, 'hist': [[n, list(v) if v else None] for n, v in hist2 + [(name, None)]]}})
    return seen


def ref_mail_open(cfg, bv, hist):
    ref = make_ref(cfg)
    ref.connect(bv, [])
    for name, v in hist:
        if ref.closed:
            break
        ref.feed(EV[name], v, [])
    return ref.mail


def report(cfg, res, viols, bv, hist):
    for sig, msg in viols:
        sig = dict(sig)
        sig['tls'] = cfg['tls']
        res.violation(sig, 'config %r banner %r history %r: %s' % (cfg, bv, [(n, v[1] if v else None) for n, v in hist], msg),
                      {'cfg': cfg, 'banner': list(bv) if bv else None,
                       'hist': [[n, list(v) if v else None] for n, v in hist]})


def unmerged(cfg, res, depth, first=None):
    """every sequence of `depth` events (no verdicts), every prefix judged."""
    names = [n for n, _ in EVENTS]
    firsts = [first] if first else names
    for f in firsts:
        for rest in itertools.product(names, repeat=depth - 1):
            hist = [(f, None)] + [(n, None) for n in rest]
            viols, key, obs, reached, closed, undef = judge_history(cfg, None, hist)
            res.evaluations += 1
            res.transitions += 1
            res.outcome((hist[-1][0], None, obs))
            res.count('unmerged_sequences')
            report(cfg, res, viols, None, hist)


def configs(tier, seed):
    cfgs = []
    for auth in (False, True):
        for tls in ('none', 'starttls', 'immediate'):
            for size in (False, True):
                cfgs.append({'mode': 'bfs', 'auth': auth, 'tls': tls, 'size': size})
    d = 2 if tier == 'quick' else 3
    for c in list(cfgs):
        for name, _ in EVENTS:
            cfgs.append({'mode': 'unmerged', 'auth': c['auth'], 'tls': c['tls'], 'size': c['size'], 'depth': d, 'first': name})
    deep = {'auth': True, 'tls': 'starttls', 'size': True}
    for name, _ in EVENTS:
        cfgs.append(dict(deep, mode='unmerged', depth=d + 1, first=name))
    return cfgs


def run_config(cfg, tier, seed):
    res = Result()
    base = {'auth': cfg['auth'], 'tls': cfg['tls'], 'size': cfg['size']}
    if cfg['mode'] == 'bfs':
        seen = bfs(base, res, tier)
        k = sorted(seen)[len(seen) // 2]
        res.sample({'config': base, 'a_history_reaching_a_state': [(n, v) for n, v in seen[k][1]], 'banner': seen[k][0]})
    else:
        unmerged(base, res, cfg['depth'], cfg['first'])
    return res.as_dict()


def vacuity(counters, tier):
    if counters.get('abstract_states', 0) < 100:
        return ['fewer than 100 abstract states over all configurations']


def replay(rep):
    cfg = rep['cfg']
    bv = tuple(rep['banner']) if rep.get('banner') else None
    hist = [(n, tuple(v) if v else None) for n, v in rep['hist']]
    viols, key, obs, reached, closed, undef = judge_history(cfg, bv, hist)
    if viols:
        return True, viols[0][1]
    if rep.get('other'):
        # differential check of the state merge: the same event after two histories that reach the same abstract state
        o = rep['other']
        bv2 = tuple(o['banner']) if o.get('banner') else None
        hist2 = [(n, tuple(v) if v else None) for n, v in o['hist']]
        b = judge_history(cfg, bv2, hist2)
        if (key, obs) != (b[1], b[2]):
            return True, ('two histories reach the same abstract state but differ on their last event: %r -> state %r, %r  VS  %r -> state %r, %r'
                          % (hist, key[0], obs, hist2, b[1][0], b[2]))
    return False, 'last event judged correct by the reference: %r' % (obs,)
