"""C12 -- a queued message is attempted when due, never early, and never forgotten.

Queue world on the virtual loop with virtual time (due times compared exactly): enqueue, timer
expiry, flush(), start-up load, storage wait() announcements and relay/storage completions
interleaved by the explorer; monitors evaluated at every attempt and at every moment virtual time is
about to advance (a quiescent moment), plus obligations at final quiescence.
"""
from engine.core import explore, Chooser
from engine.result import Result
from worlds.queue_world import QueueWorld

PROPERTY = 'C12'
LEVEL = 'model_checking'
EXHAUSTIVE = True
KINDS = ('attempt-before-due', 'known-message-neither-scheduled-nor-in-flight', 'due-but-not-dispatched',
         'no-wakeup-before-due', 'flush-waited', 'flush-never-returned', 'flushed-message-not-attempted',
         'recipient-stranded')
MENU = dict(per_recipient=False, boom=False, reply_ok=False)

RULE = ('per configuration (backend, backoff sequence incl. 0 and equal due times, 1..2 (3 thorough) messages, driver script '
        'with flush at every position, 0..2 pre-stored messages, wait() announcements, pools): all schedules with <= d '
        'deviations x relay outcomes {ok,temp,perm} with <= dd non-default answers, quiescent states merged; monitors: no '
        'attempt before its due time unless flushed; nothing due left on the timetable when time advances; every stored '
        'message the queue knows is in flight or scheduled with a wake-up no later than the earliest due time; flush() '
        'returns without any timer or environment event and its messages are attempted before time advances; nothing '
        'outstanding at final quiescence.  Non-trivial = execution with a retry timer, a flush or a load.')
ASSUMPTIONS = ['the virtual gevent loop is bound to the real one by replaying scenarios (default schedule, scripted outcomes) on the real loop with scaled real time and comparing the attempt sequences', 'virtual clock; time.time() in slimta.queue is rebound to it', 'fake redis client for the redis configurations']


def BOUNDS(tier):
    return {'messages': 2 if tier == 'quick' else 3, 'flushes': '<=1' if tier == 'quick' else '<=2', 'd': 2 if tier == 'quick' else 3}


def configs(tier, seed):
    q = tier == 'quick'
    d = 2 if q else 3
    cfgs = []
    E0, E1, E2, F = ['enqueue', 0], ['enqueue', 1], ['enqueue', 2], ['flush']
    scripts = [[E0], [E0, E1], [E0, F], [F, E0], [E0, E1, F], [E0, F, E1]]
    if not q:
        scripts += [[E0, F, F], [E0, E1, E2], [E0, E1, F, E2], [E0, F, E1, F]]
    for bo in ('r0-10', 'r5-5', 'r10', 'r0x2'):
        for sc in scripts:
            cfgs.append(dict(backend='dict', backoff=bo, n=1, script=sc, d=d, dd=2, menu=MENU))
    # start-up load (+ flush, + later enqueue with an equal due time)
    for pre in (1, 2):
        cfgs.append(dict(backend='dict', backoff='r10', n=1, prestored=pre, prestored_due=10.0, script=[E0], d=d, dd=2, menu=MENU))
        cfgs.append(dict(backend='dict', backoff='r5-5', n=1, prestored=pre, prestored_due=0.0, script=[F], d=d, dd=2, menu=MENU))
        cfgs.append(dict(backend='dict', backoff='r5-5', n=1, prestored=pre, prestored_due=5.0, script=[F, E0], d=d, dd=2, menu=MENU))
    # wait() announcements: new id, already queued id, id in flight
    cfgs.append(dict(backend='dict', backoff='r10', n=1, harness_wait=True, script=[E0, ['announce', 0], F], d=d, dd=2, menu=MENU))
    cfgs.append(dict(backend='dict', backoff='r10', n=1, harness_wait=True, prestored=1, prestored_due=10.0,
                     script=[['announce', 0], E0, ['announce', 1]], d=d, dd=2, menu=MENU))
    # an announcement arriving while the retry bookkeeping is still being written (slow storage)
    cfgs.append(dict(backend='dict', backoff='r10', n=1, harness_wait=True, slow_ops=['set_timestamp', 'increment_attempts'],
                     script=[E0, ['announce', 0]], d=3, dd=1, menu=MENU))
    # ... with a bounded store pool whose slots are taken by the wait() listener and the bookkeeping itself
    for sp in (2, 3):
        cfgs.append(dict(backend='dict', backoff='r10', n=1, harness_wait=True, slow_ops=['set_timestamp', 'increment_attempts'], store_pool=sp,
                         script=[E0, ['announce', 0]], d=3, dd=1, menu=MENU))
    cfgs.append(dict(backend='redis', backoff='r10', n=1, redis_yields=['hset', 'hincrby'], store_pool=2, script=[E0], d=3, dd=1, menu=MENU))
    # the storage announces a new message before the writer has its reply, while another enqueue() comes and goes
    cfgs.append(dict(backend='redis', backoff='r10', n=1, redis_yields=['pipeline-reply'], script=[E0, E1], d=3, dd=1, menu=MENU))
    # pools
    cfgs.append(dict(backend='dict', backoff='r5-5', n=1, script=[E0, E1, F], relay_pool=1, d=d, dd=2, menu=MENU))
    cfgs.append(dict(backend='dict', backoff='r5-5', n=1, script=[E0, E1], store_pool=2, relay_pool=2, d=d, dd=2, menu=MENU))
    cfgs.append(dict(backend='dict', backoff='r10', n=1, harness_wait=True, script=[E0, ['announce', 0]], store_pool=1, d=d, dd=2, menu=MENU))
    # other backends: slow/yielding storage, redis ids
    for b in ('disk', 'redis', 'cloud'):
        cfgs.append(dict(backend=b, backoff='r5-5', n=1, script=[E0, E1, F], d=d, dd=2, menu=MENU))
        cfgs.append(dict(backend=b, backoff='r10', n=1, prestored=1, prestored_due=10.0, script=[E0], d=d, dd=2, menu=MENU))
    cfgs.append(dict(backend='redis', backoff='r10', n=1, prestored=2, prestored_due=10.0, keep_announcements=False, script=[E0], d=d, dd=2, menu=MENU))
    cfgs.append(dict(backend='cloud', cloud_mq=True, backoff='r10', n=1, prestored=1, script=[E0, F], d=d, dd=2, menu=MENU))
    cfgs.append(dict(backend='dict', backoff='r10', n=1, script=[E0, F], slow_ops=['get'], d=d, dd=2, menu=MENU))
    # the start-up listing is lazy (I/O per record on the real backends): enqueue / retry bookkeeping / announcements
    # may run between two records of load()
    cfgs.append(dict(backend='dict', backoff='r10', n=1, prestored=2, prestored_due=10.0, script=[E0], slow_ops=['load-step'], d=3, dd=1, menu=MENU))
    cfgs.append(dict(backend='dict', backoff='r10', n=1, prestored=2, prestored_due=0.0, harness_wait=True, script=[['announce', 0], F],
                     slow_ops=['load-step'], d=3, dd=1, menu=MENU))
    cfgs.append(dict(backend='redis', backoff='r10', n=1, prestored=2, prestored_due=10.0, keep_announcements=False, script=[E0],
                     redis_yields=['hget'], d=3, dd=1, menu=MENU))
    # a key prefix of the operator's choosing (constructor argument): start-up load must still find the stored messages
    for pre in ('outq-', 'a:b:', ''):
        cfgs.append(dict(backend='redis', redis_prefix=pre, backoff='r10', n=1, prestored=2, prestored_due=10.0, keep_announcements=False,
                         script=[E0], d=1, dd=1, menu=MENU))
    # restart over several due messages with a bounded store pool: the scheduler blocks in the middle of a dispatch pass
    # while retry bookkeeping of earlier messages re-enters the timetable
    cfgs.append(dict(backend='disk', backoff='r0x2', n=1, messages=0, prestored=4, prestored_due=0.0, store_pool=1, slow_ops=['load-step', 'get'],
                     d=d - 1, dd=1, menu=MENU, max_steps=2000))
    cfgs.append(dict(backend='dict', backoff='r0x2', n=1, messages=0, prestored=3, prestored_due=5.0, store_pool=1, relay_pool=1, slow_ops=['get'],
                     script=[F], d=d, dd=1, menu=MENU, max_steps=2000))
    # orderly restart of the queue process between a transient failure and its retry: the new queue learns the retry
    # time from storage (shelve-backed dict store, disk, redis, cloud)
    for b in ('shelf', 'disk', 'redis', 'cloud', 'dict'):
        cfgs.append(dict(backend=b, backoff='r10', n=1, script=[E0, ['restart']], d=d, dd=2, menu=MENU))
        cfgs.append(dict(backend=b, backoff='r10-20', n=1, script=[E0, ['restart'], ['restart']], d=d - 1, dd=2, menu=MENU))
    # retries run out inside a bounded store pool (the bounce needs storage slots of its own) while another message waits
    cfgs.append(dict(backend='dict', backoff='never', n=1, script=[E0, E1], store_pool=1, d=d, dd=2, menu=MENU))
    cfgs.append(dict(backend='dict', backoff='r0x2', n=1, script=[E0, E1, F], store_pool=2, d=d - 1, dd=3, menu=MENU))
    # a stored message damaged by an earlier crash (envelope file without meta file) must not hide the others from the start-up load
    for k in (0, 1):
        cfgs.append(dict(backend='disk', backoff='r10', n=1, messages=0, prestored=3, prestored_due=0.0, damage_meta=k, d=1, dd=1, menu=MENU))
    # the same id dispatched twice while a storage answer is late (copies handed out by shelve / disk)
    for b in ('shelf', 'disk'):
        cfgs.append(dict(backend=b, backoff='r10', n=1, harness_wait=True, slow_ops=['get-late'], script=[E0, ['announce', 0]], d=3, dd=1, menu=MENU))
        cfgs.append(dict(backend=b, backoff='r10', n=1, messages=0, prestored=1, harness_wait=True, slow_ops=['get-late'],
                         script=[['announce', 0], ['announce', 0]], d=3, dd=1, menu=MENU))
    # enqueue() blocked on a saturated relay pool while the storage announces the new message
    cfgs.append(dict(backend='dict', backoff='r10', n=1, harness_wait=True, relay_pool=1, script=[E0, E1, ['announce', 1], ['announce', 0]], d=d, dd=2, menu=MENU))
    cfgs.append(dict(backend='redis', backoff='r10', n=1, relay_pool=1, script=[E0, E1], d=d, dd=2, menu=MENU))
    cfgs.append(dict(backend='cloud', cloud_mq=True, backoff='r10', n=1, relay_pool=1, script=[E0, E1], d=d, dd=2, menu=MENU))
    nconf = 16 if tier == 'quick' else 32
    cfgs += [{'mode': 'conformance', 'k': k, 'of': nconf, 'take': 1 if tier == 'quick' else 6} for k in range(nconf)]
    return cfgs


def run_one(cfg, ch):
    cfg = dict(cfg)
    if 'script' in cfg:
        cfg['script'] = [tuple(a) for a in cfg['script']]
    qw = QueueWorld(ch, cfg)
    obs = qw.run()
    return qw, obs


def signature(cfg, qw, kind):
    errs = sorted(set(e[0] for e in qw.errors))
    script = ','.join(a[0] for a in cfg.get('script', []))
    return {'kind': kind, 'backend': cfg['backend'], 'exception': ','.join(errs) or 'none',
            'flush': any(a[0] == 'flush' for a in cfg.get('script', [])),
            'load': bool(cfg.get('prestored')), 'announce': any(a[0] == 'announce' for a in cfg.get('script', [])) or bool(cfg.get('cloud_mq')),
            'pools': '%s/%s' % (cfg.get('store_pool'), cfg.get('relay_pool'))}


def run_conformance(cfg, res):
    """virtual loop vs REAL gevent loop (scaled real time) on the same scenario"""
    from conformance.queue_real import scenarios, compare
    sc = list(scenarios())
    mine = sc[cfg['k']::cfg['of']][:cfg['take']]
    for wcfg, data in mine:
        err = compare(wcfg, data)
        res.traces_validated += 1
        res.evaluations += 2
        res.count('real_loop_replays')
        res.outcome(('conformance', tuple(data), err))
        if err:
            res.violation({'kind': 'virtual-loop-differs-from-real-loop'}, 'outcome choices %r: %s' % (data, err),
                          {'cfg': {'conformance': True, 'wcfg': wcfg, 'data': data}, 'choices': []})
    res.sample({'conformance': 'virtual loop vs real gevent loop', 'scenarios': [d for _, d in mine]})
    return res.as_dict()


def run_config(cfg, tier, seed):
    res = Result()
    if cfg.get('mode') == 'conformance':
        return run_conformance(cfg, res)
    wcfg = {k: v for k, v in cfg.items() if k not in ('d', 'dd')}

    def run(ch):
        qw, obs = run_one(wcfg, ch)
        if qw.flushes or any(a['attempts'] > 0 for a in qw.attempts) or wcfg.get('prestored'):
            res.interesting(obs)
        if qw.flushes:
            res.count('executions_with_flush')
        if any(a['attempts'] > 0 for a in qw.attempts):
            res.count('executions_with_retry_timer')
        seen = set()
        for kind, detail in qw.violations:
            if kind not in KINDS or kind in seen:
                continue
            seen.add(kind)
            res.violation(signature(wcfg, qw, kind),
                          '%s; attempts=%r; errors=%r' % (detail, [(a['qid'][-2:] if a['qid'] else None, round(a['t'], 3), a['outcome']) for a in qw.attempts], qw.errors[:3]),
                          {'cfg': wcfg, 'choices': ch.choices})
        return obs + (tuple((f['call'], f['ret']) for f in qw.flushes),)
    st = explore(run, d=cfg['d'], dd=cfg['dd'], merge=True)
    res.add_stats(st)
    res.sample({'config': cfg, 'executions': st.executions, 'states': len(st.states)})
    return res.as_dict()


def vacuity(counters, tier):
    p = []
    if counters.get('executions_with_flush', 0) < 100:
        p.append('fewer than 100 executions with a flush')
    if counters.get('executions_with_retry_timer', 0) < 100:
        p.append('fewer than 100 executions with a retry')
    return p


def replay(rep):
    if rep['cfg'].get('conformance'):
        from conformance.queue_real import compare
        err = compare(rep['cfg']['wcfg'], rep['cfg']['data'])
        return (True, err) if err else (False, 'virtual and real loop agree')
    ch = Chooser(rep['choices'])
    qw, obs = run_one(rep['cfg'], ch)
    viols = [v for v in qw.violations if v[0] in KINDS]
    if viols:
        return True, '%s: %s' % viols[0]
    return False, 'all scheduling monitors hold: %r' % (obs[0],)
