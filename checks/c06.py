"""C06 -- a relay hop preserves sender, recipients and content end to end.

The real StaticSmtpRelay (SmtpRelayClient + smtp.client.Client) talks over in-memory sockets to the
library's own SmtpEdge (Server + SmtpSession); the real StaticLmtpRelay to a boring reference LMTP
server; the real HttpRelay through http.client bytes and a byte-level WSGI adaptor (environ built the
way gevent.pywsgi builds it) to the real WsgiEdge.  Enumerated: envelopes from an address/header/body
grammar x server extension configurations x transports.  Oracle: the envelope captured by the edge's
queue equals the one given to Relay.attempt; the client saw exactly the advertised extensions; the
relay reports the reply the edge gave; what a configuration cannot carry is refused, never altered.
"""
import io
import itertools
import types

import gevent
import gevent.event

import engine.speedups  # noqa
import slimta.edge.smtp as edge_smtp
import slimta.edge.wsgi as edge_wsgi
from slimta.edge.smtp import SmtpEdge, SmtpValidators
from slimta.edge.wsgi import WsgiEdge
from slimta.smtp.server import Server
from slimta.relay.smtp.static import StaticSmtpRelay, StaticLmtpRelay
from slimta.relay.smtp.client import SmtpRelayClient
from slimta.relay.smtp.lmtpclient import LmtpRelayClient
from slimta.relay import PermanentRelayError, TransientRelayError, RelayError
from slimta.envelope import Envelope
from slimta.smtp.reply import Reply

from engine.core import Chooser
from engine.result import Result, b2s
from engine.vloop import World
from fakes.vsock import Net, VContext
from fakes.downstream import ScriptedPeer
from fakes.fakehttp import response
from worlds.edge_seq import FakePtrLookup
from worlds.relay_world import classify

PROPERTY = 'C06'
LEVEL = 'exploration'
EXHAUSTIVE = True

ADDRS = ['a@x.test', '"a b"@x.test', '"a>b"@x.test', '"a@b"@x.test', '"a\\"b"@x.test', 'café@x.test', 'a@café.test',
         'A.B+tag@X.Test']
SENDERS = ADDRS + ['']
HEADERS = [b'Subject: plain\r\nFrom: a@x.test\r\n', b'Subject: 8-bit caf\xc3\xa9 \xe9\r\nX-A: 1\r\n',
           b'Subject: folded\r\n line two\r\n\tline three\r\nX-Long: ' + b'x' * 60 + b'\r\n',
           b'',                  # no header fields at all: the content starts with the empty line
           # a line that is no header field ends the header block early (the parser hands the rest over as content)
           b'Subject: early end\r\nthis line is no header field\r\nX-After: 1\r\n']
BODIES = [b'', b'a', b'a\r\n', b'.\r\n', b'..\r\n.a\r\n', b'\r\n.\r\n', b'a\nb\rc\r\n', b'.', b'\r\n\r\n', b'caf\xc3\xa9 \xe9\xff\r\n',
          b'x' * 70 + b'\r\n', b'line\r\n.\r\nQUIT\r\n', b'first\n.second after a bare LF\nlast\r\n', b'\n.\n', b'a\r.b\r\n']
EXTS = ['PIPELINING', '8BITMIME', 'SMTPUTF8', 'SIZE', 'AUTH']

RULE = ('address sweep: 9 senders x 26 recipient lists (1..3 addresses incl. quoted local parts, UTF-8, duplicates) x 2 bodies; '
        'content sweep: 5 header blocks (one empty, one ended early by a non-header line) x 15 bodies x 2 address sets; each x SMTP server configurations (every single extension '
        'dropped, all, none, SIZE=50, AUTH, STARTTLS, HELO fallback, connection re-use, 7-bit conversion with an encoder) and x '
        'LMTP and HTTP transports.  Non-trivial = envelope with a quoted/UTF-8/null address, 8-bit or dot-leading content, or '
        'a configuration that cannot carry it.')
ASSUMPTIONS = ['in-memory sockets (a sample of the SMTP hops is replayed over real gevent sockets on the real loop and must give the same result) and fake TLS; WSGI environ built as gevent.pywsgi does (repeated headers joined with ",")',
               'an 8-bit header value without 8BITMIME is not judged; with a binary encoder only addresses and 7-bit-ness are judged']


def BOUNDS(tier):
    return {'addresses': len(ADDRS), 'max_recipients': 3, 'bodies': len(BODIES) if tier == 'quick' else len(thorough_bodies()), 'headers': len(HEADERS),
            'smtp_configurations': len(smtp_configs(tier))}


def rcpt_lists():
    out = [[a] for a in ADDRS]
    out += [[ADDRS[0], a] for a in ADDRS[1:]]
    out += [[ADDRS[1], ADDRS[2], ADDRS[3]], [ADDRS[5], ADDRS[0], ADDRS[6]], [ADDRS[0], ADDRS[0]], [ADDRS[4], ADDRS[7], ADDRS[4]]]
    out += [[a, ADDRS[0]] for a in ADDRS[1:]]
    return out


def envelopes(sweep, tier='quick'):
    if sweep == 'bodies':
        for b in thorough_bodies():
            yield ADDRS[0], [ADDRS[1], ADDRS[0]], HEADERS[0], b
        return
    if sweep == 'addr':
        for s in SENDERS:
            for rl in rcpt_lists():
                for b in (BODIES[2], BODIES[9]):
                    yield s, rl, HEADERS[0], b
    else:
        for h in HEADERS:
            for b in BODIES:
                for s, rl in ((ADDRS[0], [ADDRS[0]]), ('', [ADDRS[1], ADDRS[0]])):
                    yield s, rl, h, b


def make_env(sender, rcpts, hdr, body):
    e = Envelope(sender, list(rcpts))
    # header block parsed, body assigned as it is: the envelope handed to the relay must not depend on the parser that the
    # receiving edge is going to use on the same bytes
    e.parse(hdr + b'\r\n')
    if b'no header field' in hdr:
        e.message = e.message + body        # what the parser moved out of the header block stays in front of the body
    else:
        e.message = body
    e.client = {'ip': '192.0.2.9', 'name': 'client'}
    e.receiver = 'origin.test'
    e.timestamp = 0
    return e


SMTP_CONFIGS = [{'name': 'all', 'drop': []}, {'name': 'none', 'drop': ['PIPELINING', '8BITMIME', 'SMTPUTF8']}] + \
    [{'name': 'no-' + x, 'drop': [x]} for x in ('PIPELINING', '8BITMIME', 'SMTPUTF8')] + \
    [{'name': 'size50', 'drop': [], 'size': 50}, {'name': 'auth', 'drop': [], 'auth': True}, {'name': 'starttls', 'drop': [], 'tls': True},
     {'name': 'helo-fallback', 'drop': [], 'helo': True}, {'name': 'reuse', 'drop': [], 'reuse': True},
     {'name': 'no-8BITMIME+encoder', 'drop': ['8BITMIME'], 'encoder': True}, {'name': 'mx-forced', 'drop': [], 'mx': True}]


def smtp_configs(tier):
    if tier != 'thorough':
        return SMTP_CONFIGS
    extra = []
    names = ['PIPELINING', '8BITMIME', 'SMTPUTF8']
    for r in range(0, 4):
        for drop in itertools.combinations(names, r):
            for size in (None, 50):
                for auth in (False, True):
                    for tls in (False, True):
                        extra.append({'name': 'drop[%s]%s%s%s' % (','.join(drop), ' size50' if size else '', ' auth' if auth else '', ' starttls' if tls else ''),
                                      'drop': list(drop), 'size': size, 'auth': auth, 'tls': tls})
    return SMTP_CONFIGS + extra


def thorough_bodies():
    out = list(BODIES)
    for n in range(1, 4):
        for tup in itertools.product([b'.', b'\r', b'\n', b'a'], repeat=n):
            out.append(b''.join(tup))
    return out


class CaptureQueue(object):
    def __init__(self):
        self.got = []

    def enqueue(self, envelope):
        self.got.append((envelope.sender, list(envelope.recipients), envelope.flatten()))
        return [(envelope, 'id%d' % len(self.got))]


class VerdictQueue(CaptureQueue):
    """a queue that refuses every message with a QueueError carrying the given reply (None: without a reply)"""

    def __init__(self, code, text):
        CaptureQueue.__init__(self)
        self.code, self.text = code, text

    def enqueue(self, envelope):
        from slimta.queue import QueueError
        self.got.append((envelope.sender, list(envelope.recipients), envelope.flatten()))
        e = QueueError('refused by the queue')
        if self.code:
            e.reply = Reply(self.code, self.text)
        return [(envelope, e)]


VERDICTS = [('451', '4.3.0 try again later'), ('550', '5.7.1 refused by policy'), ('535', '5.7.8 authentication credentials invalid'),
            ('552', '5.3.4 message too big for the system'), ('450', '4.2.0 mailbox busy'), ('554', '5.6.0 content rejected'), (None, None)]


class _RealWorld(object):
    """Stand-in for World when a scenario is replayed on the real gevent loop with real sockets."""
    def __enter__(self):
        return self

    def __exit__(self, *a):
        return False

    def errors(self):
        return []


class _RealNet(object):
    def __init__(self):
        self.connections = 0

    def pair(self, peername=None):
        import gevent.socket
        self.connections += 1
        return gevent.socket.socketpair()


def run_smtp_hop(cfg, envs, real=False, queue=None):
    """-> list of (outcome, captured or None) per envelope, plus (client_exts, server_exts)"""
    info = {'client_exts': None, 'server_exts': None, 'errors': []}
    cq = queue or CaptureQueue()
    outcomes = []
    with (_RealWorld() if real else World(Chooser(), max_steps=5000)) as w:
        net = _RealNet() if real else Net(w)

        class Srv(Server):
            def __init__(self, *a, **k):
                Server.__init__(self, *a, **k)
                for x in cfg['drop']:
                    self.extensions.drop(x)
                info['server'] = self

        class V(SmtpValidators):
            def handle_ehlo(self, reply, ehlo_as):
                if cfg.get('helo'):
                    reply.code = '500'
                    reply.message = '5.5.2 EHLO not implemented'

            def handle_rcpt(self, reply, recipient, params):
                if cfg.get('rcpt_verdict'):
                    reply.code, reply.message = cfg['rcpt_verdict']
        saved = (edge_smtp.Server, edge_smtp.PtrLookup)
        edge_smtp.Server, edge_smtp.PtrLookup = Srv, FakePtrLookup
        try:
            edge = SmtpEdge(None, cq, max_size=cfg.get('size'), hostname='edge.test', auth=cfg.get('auth', False),
                            context=VContext() if cfg.get('tls') else None, validator_class=V)

            def creator(address):
                c, s = net.pair(peername=address)

                def serve():
                    try:
                        edge.handle(s, ('192.0.2.7', 5555))
                    except gevent.GreenletExit:
                        raise
                    except BaseException as e:
                        info['errors'].append('edge:' + type(e).__name__)
                gevent.spawn(serve)
                return c

            class RC(SmtpRelayClient):
                def _handshake(self):
                    SmtpRelayClient._handshake(self)
                    info['client_exts'] = dict(self.client.extensions.extensions)
                    srv = info.get('server')
                    if srv is not None:
                        info['server_exts'] = dict(srv.extensions.extensions)
            kw = {}
            if cfg.get('encoder'):
                from email.encoders import encode_base64
                kw['binary_encoder'] = encode_base64
            if cfg.get('mx'):
                # the MX relay in front of the same client: the next hop is chosen by the first recipient's domain
                from slimta.relay.smtp.mx import MxSmtpRelay
                relay = MxSmtpRelay(socket_creator=creator, ehlo_as='relay.test', client_class=RC, context=VContext(), **dict(kw, **cfg.get('relay_kw', {})))
                for dom in ('x.test', 'caf\u00e9.test'):
                    relay.force_mx(dom, 'edge.test', 25)
            else:
                relay = StaticSmtpRelay('edge.test', 25, socket_creator=creator, ehlo_as='relay.test', client_class=RC,
                                        context=VContext(), idle_timeout=5.0 if cfg.get('reuse') else None, **dict(kw, **cfg.get('relay_kw', {})))

            def go():
                for env in envs:
                    n0 = len(cq.got)
                    try:
                        o = ('returned', relay.attempt(env, 0))
                    except gevent.GreenletExit:
                        raise
                    except BaseException as e:
                        o = ('raised', e)
                    outcomes.append((o, cq.got[n0:]))
            g = gevent.spawn(go)
            if real:
                g.join(timeout=10)
            else:
                w.run_until_quiescent()
        finally:
            edge_smtp.Server, edge_smtp.PtrLookup = saved
        info['errors'] += [e[0] for e in w.errors()]
        info['connections'] = net.connections
    while len(outcomes) < len(envs):
        outcomes.append((None, []))
    return outcomes, info


def content_equal(sent, got):
    """byte-identical header block and body modulo the final CRLF of C05."""
    shdr, sbody = sent
    ghdr, gbody = got
    if shdr != ghdr:
        return False
    if sbody == gbody:
        return True
    if not sbody.endswith(b'\r\n') and gbody == sbody + b'\r\n':
        return True
    if sbody == b'' and gbody in (b'', b'\r\n'):
        return True
    return False


def judge_smtp(cfg, env, outcome, captured, info):
    out = []
    base = {'transport': 'smtp', 'config': cfg['name']}
    per, whole = classify(outcome, env)
    addrs = [env.sender] + list(env.recipients)
    needs_utf8 = any(any(ord(c) > 127 for c in a) for a in addrs)
    hdr, body = env.flatten()
    body8 = any(c > 127 for c in body)
    # after a HELO fallback the session is plain SMTP: no extension at all
    utf8_ok = 'SMTPUTF8' not in cfg['drop'] and not cfg.get('helo')
    eight_ok = '8BITMIME' not in cfg['drop'] and not cfg.get('helo')
    too_big = cfg.get('size') is not None and len(hdr) + len(body) > cfg['size']
    desc = 'config %s: sender %r rcpts %r headers %r body %r -> %s %r; edge captured %r; errors %r' % (
        cfg['name'], env.sender, env.recipients, hdr[:40], body[:40], whole, per,
        [(c[0], c[1]) for c in captured], info['errors'][:2])
    feature = 'quoted-escape' if any('\\' in a for a in addrs) else ('quoted' if any('"' in a for a in addrs) else
              ('utf8' if needs_utf8 else ('null-sender' if env.sender == '' else 'plain')))
    if whole == 'blocked':
        return [(dict(base, kind='attempt-never-returned'), desc)]
    if whole.startswith('raised:other'):
        return [(dict(base, kind='non-relay-exception', exception=whole.split(':')[-1], address=feature), desc)]
    must_refuse = None
    if needs_utf8 and not utf8_ok:
        must_refuse = 'non-ascii-address-without-SMTPUTF8'
    elif body8 and not eight_ok and not cfg.get('encoder'):
        must_refuse = '8bit-body-without-8BITMIME'
    elif too_big:
        must_refuse = 'over-size'
    delivered = [r for r, c in per.items() if c == 'delivered']
    if must_refuse:
        if delivered or captured:
            out.append((dict(base, kind='not-refused', rule=must_refuse), desc))
        elif must_refuse != 'over-size' and not all(c == 'perm' for c in per.values()):
            out.append((dict(base, kind='refusal-not-permanent', rule=must_refuse), desc))
        return out
    # must be delivered unchanged
    if len(captured) != 1 or len(delivered) != len(set(env.recipients)):
        out.append((dict(base, kind='not-delivered', address=feature), desc))
        return out
    gs, gr, gcontent = captured[0]
    if gs != env.sender:
        out.append((dict(base, kind='sender-changed', address=feature), desc))
    if gr != list(env.recipients):
        out.append((dict(base, kind='recipients-changed', address=feature), desc))
    if cfg.get('encoder') and body8 and not eight_ok:
        if any(c > 127 for c in gcontent[1]):
            out.append((dict(base, kind='8bit-passed-on-after-conversion'), desc))
    elif not content_equal((hdr, body), gcontent):
        out.append((dict(base, kind='content-changed', body_class='dot' if body.startswith(b'.') or b'\n.' in body else ('8bit' if body8 else 'other')), desc + ' got content %r' % (gcontent,)))
    for r, v in (outcome[1] or {}).items() if isinstance(outcome[1], dict) else []:
        if isinstance(v, Reply) and v.code != '250':
            out.append((dict(base, kind='reported-reply-differs'), desc))
    if info['client_exts'] is not None and info['server_exts'] is not None and not cfg.get('helo'):
        ce = set(info['client_exts'])
        se = set(info['server_exts'])
        if ce != se:
            out.append((dict(base, kind='extensions-differ'), desc + ' client saw %r, server advertised %r' % (sorted(ce), sorted(se))))
        elif cfg.get('size') and str(info['client_exts'].get('SIZE')) != str(cfg['size']):
            out.append((dict(base, kind='extension-parameter-differs'), desc + ' client SIZE %r' % (info['client_exts'].get('SIZE'),)))
    return out


# ------------------------------------------------------------------ LMTP
def run_lmtp_hop(env, reuse=False):
    res = {}
    peers = []
    with World(Chooser(), max_steps=5000) as w:
        net = Net(w)

        def creator(address):
            c, s = net.pair(peername=address)
            p = ScriptedPeer(s, {}, lmtp=True, tag_replies=False)
            p.extra_exts = ['SMTPUTF8']
            peers.append(p)
            gevent.spawn(p.run)
            return c
        relay = StaticLmtpRelay('lda.test', 24, socket_creator=creator, ehlo_as='relay.test', context=VContext(),
                                idle_timeout=5.0 if reuse else None)

        def go():
            try:
                if reuse:
                    # a first, fully accepted message on the same connection
                    first = make_env('first@x.test', ['p@x.test', 'q@x.test'], HEADERS[0], b'first\r\n')
                    relay.attempt(first, 0)
                res['o'] = ('returned', relay.attempt(env, 0))
            except gevent.GreenletExit:
                raise
            except BaseException as e:
                res['o'] = ('raised', e)
        gevent.spawn(go)
        w.run_until_quiescent()
    return res.get('o'), peers


def judge_lmtp(env, outcome, peers):
    per, whole = classify(outcome, env)
    base = {'transport': 'lmtp'}
    hdr, body = env.flatten()
    desc = 'LMTP: sender %r rcpts %r body %r -> %s %r' % (env.sender, env.recipients, body[:40], whole, per)
    if whole == 'blocked':
        return [(dict(base, kind='attempt-never-returned'), desc)]
    if whole.startswith('raised:other'):
        return [(dict(base, kind='non-relay-exception', exception=whole.split(':')[-1]), desc)]
    out = []
    tx = [t for p in peers for t in p.transactions if t['data'] is not None and t['sender'] != b'first@x.test']
    if len(tx) != 1:
        return [(dict(base, kind='not-delivered'), desc + ' transactions %r' % len(tx))]
    t = tx[0]
    if not all(c == 'delivered' for c in per.values()):
        out.append((dict(base, kind='reported-result-differs'), desc + ' although the LMTP server accepted every recipient'))
    if t['sender'].decode('utf-8') != env.sender:
        out.append((dict(base, kind='sender-changed'), desc + ' peer saw %r' % t['sender']))
    if [r.decode('utf-8') for r, ok in t['rcpts']] != list(env.recipients):
        out.append((dict(base, kind='recipients-changed'), desc + ' peer saw %r' % [r for r, ok in t['rcpts']]))
    data = t['data']
    want = hdr + body
    if not (data == want or (not want.endswith(b'\r\n') and data == want + b'\r\n') or (body == b'' and data in (hdr, hdr + b'\r\n'))):
        out.append((dict(base, kind='content-changed'), desc + ' peer got %r' % data))
    return out


# ------------------------------------------------------------------ HTTP
def wsgi_adaptor(edge, raw_request):
    """bytes of one HTTP request -> bytes of the response, building environ like gevent.pywsgi."""
    head, _, rest = raw_request.partition(b'\r\n\r\n')
    lines = head.split(b'\r\n')
    method, path, _ = lines[0].decode('latin-1').split(' ', 2)
    environ = {'REQUEST_METHOD': method, 'PATH_INFO': path, 'SCRIPT_NAME': '', 'QUERY_STRING': '', 'SERVER_NAME': 'edge.test',
               'SERVER_PORT': '8025', 'REMOTE_ADDR': '192.0.2.7', 'wsgi.url_scheme': 'http', 'wsgi.version': (1, 0),
               'wsgi.errors': io.StringIO(), 'wsgi.multithread': False, 'wsgi.multiprocess': False, 'wsgi.run_once': False}
    for l in lines[1:]:
        k, _, v = l.decode('latin-1').partition(':')
        k, v = k.strip(), v.strip()
        key = k.upper().replace('-', '_')
        if key in ('CONTENT_LENGTH', 'CONTENT_TYPE'):
            environ[key] = v
            continue
        key = 'HTTP_' + key
        environ[key] = (environ[key] + ',' + v) if key in environ else v
    clen = int(environ.get('CONTENT_LENGTH', '0') or 0)
    environ['wsgi.input'] = io.BytesIO(rest[:clen])
    st = {}

    def start_response(status, headers, exc_info=None):
        st['status'], st['headers'] = status, headers
    body = b''.join(x if isinstance(x, bytes) else x.encode('latin-1') for x in edge(environ, start_response))
    code, _, reason = st['status'].partition(' ')
    return response(int(code), reason, st['headers'], body)


def run_http_hop(env, reuse=False, queue=None):
    import slimta.http as shttp
    from slimta.relay.http import HttpRelay
    res = {}
    cq = queue or CaptureQueue()
    # an idle HttpRelayClient polls for ever (timer after timer): stop firing timers after 60 virtual seconds
    with World(Chooser(), max_steps=5000, horizon=60.0) as w:
        net = Net(w)
        saved = edge_wsgi.PtrLookup
        edge_wsgi.PtrLookup = FakePtrLookup
        try:
            edge = WsgiEdge(cq, hostname='edge.test')

            def create_connection(addr, timeout=None, source_address=None):
                c, s = net.pair(peername=addr)

                def serve():
                    buf = b''
                    while True:
                        d = s.recv(65536)
                        if not d:
                            return
                        buf += d
                        if b'\r\n\r\n' in buf:
                            head = buf.split(b'\r\n\r\n', 1)[0]
                            clen = 0
                            for l in head.split(b'\r\n')[1:]:
                                if l.lower().startswith(b'content-length:'):
                                    clen = int(l.split(b':', 1)[1])
                            if len(buf) >= len(head) + 4 + clen:
                                s.sendall(wsgi_adaptor(edge, buf))
                                buf = b''
                gevent.spawn(serve)
                return c
            w.patch(shttp, 'socket', types.SimpleNamespace(create_connection=create_connection))
            relay = HttpRelay('http://edge.test:8025/deliver', ehlo_as='relay.test', timeout=30.0,
                              idle_timeout=5.0 if reuse else None)

            def go():
                try:
                    if reuse:
                        first = make_env('first@x.test', ['p@x.test'], HEADERS[0], b'first\r\n')
                        relay.attempt(first, 0)
                        del cq.got[:]
                    res['o'] = ('returned', relay.attempt(env, 0))
                except gevent.GreenletExit:
                    raise
                except BaseException as e:
                    res['o'] = ('raised', e)
            gevent.spawn(go)
            w.run_until_quiescent()
            res['errors'] = w.errors()
        finally:
            edge_wsgi.PtrLookup = saved
    return res.get('o'), cq.got, res.get('errors', [])


def judge_http(env, outcome, captured, errors):
    per, whole = classify(outcome, env)
    base = {'transport': 'http'}
    hdr, body = env.flatten()
    desc = 'HTTP: sender %r rcpts %r body %r -> %s %r; edge captured %r; errors %r' % (env.sender, env.recipients, body[:40], whole, per,
                                                                                      [(c[0], c[1]) for c in captured], errors[:2])
    if whole == 'blocked':
        return [(dict(base, kind='attempt-never-returned'), desc)]
    if whole.startswith('raised:other'):
        return [(dict(base, kind='non-relay-exception', exception=whole.split(':')[-1]), desc)]
    out = []
    if len(captured) != 1 or not all(c == 'delivered' for c in per.values()):
        return [(dict(base, kind='not-delivered'), desc)]
    gs, gr, gcontent = captured[0]
    if gs != env.sender:
        out.append((dict(base, kind='sender-changed'), desc))
    if gr != list(env.recipients):
        out.append((dict(base, kind='recipients-changed'), desc))
    if gcontent != (hdr, body):
        out.append((dict(base, kind='content-changed'), desc + ' got %r' % (gcontent,)))
    v = outcome[1]
    if not (isinstance(v, Reply) and v.code == '250'):
        out.append((dict(base, kind='reported-reply-differs'), desc + ' result %r' % (v,)))
    return out


# ------------------------------------------------------------------ glue
def configs(tier, seed):
    cfgs = []
    for i in range(len(smtp_configs(tier))):
        for sweep in ('addr', 'content'):
            for k in range(2):
                cfgs.append({'t': 'smtp', 'cfg': i, 'sweep': sweep, 'k': k, 'of': 2})
    if tier == 'thorough':
        for i in (0, 1, 2, 3):
            cfgs.append({'t': 'smtp', 'cfg': i, 'sweep': 'bodies', 'k': 0, 'of': 1})
        cfgs.append({'t': 'lmtp', 'sweep': 'bodies'})
        cfgs.append({'t': 'http', 'sweep': 'bodies'})
    for sweep in ('addr', 'content'):
        cfgs.append({'t': 'lmtp', 'sweep': sweep})
        cfgs.append({'t': 'lmtp', 'sweep': sweep, 'reuse': True})
        cfgs.append({'t': 'http', 'sweep': sweep})
        cfgs.append({'t': 'http', 'sweep': sweep, 'reuse': True})
    cfgs.append({'t': 'verdict'})
    cfgs.append({'t': 'default-socket'})
    cfgs.append({'t': 'slow-reader'})
    return cfgs


def check_slow_reader(pause, window, res):
    """The library's own SMTP edge behind a small receive window stops reading for ``pause`` (virtual) seconds right after its
    354; the relay's data timeout is 13 s, its command timeout 11 s.  The attempt may fail (timeout) -- but whatever message the
    edge ends up accepting must be the message that was handed to the relay, byte for byte."""
    cq = CaptureQueue()
    info = {'errors': []}
    env = make_env('s@x.test', ['a@x.test'], HEADERS[0], b'line one\r\n' + b'x' * 300 + b'\r\nlast line\r\n')
    out = {}
    with World(Chooser(), max_steps=20000) as w:
        net = Net(w)
        saved = edge_smtp.PtrLookup
        edge_smtp.PtrLookup = FakePtrLookup
        try:
            edge = SmtpEdge(None, cq, hostname='edge.test', command_timeout=60.0, data_timeout=120.0)

            def creator(address):
                c, s_ = net.pair(peername=address, capacity=window)
                state = {'paused': False}
                orig_recv = s_.recv

                def recv(n=4096, *flags):
                    if not state['paused'] and any(d.startswith(b'354') for t, d in s_.sent_log):
                        state['paused'] = True
                        gevent.sleep(pause)             # the edge's host is busy: nothing is read for a while
                    return orig_recv(n, *flags)
                s_.recv = recv

                def serve():
                    try:
                        edge.handle(s_, ('192.0.2.7', 5555))
                    except gevent.GreenletExit:
                        raise
                    except BaseException as e:
                        info['errors'].append('edge:' + type(e).__name__)
                gevent.spawn(serve)
                return c
            relay = StaticSmtpRelay('edge.test', 25, socket_creator=creator, ehlo_as='relay.test', connect_timeout=7.0,
                                    command_timeout=11.0, data_timeout=13.0)

            def go():
                try:
                    out['o'] = ('returned', relay.attempt(env.copy(), 0))
                except gevent.GreenletExit:
                    raise
                except BaseException as e:
                    out['o'] = ('raised', e)
            gevent.spawn(go)
            w.run_until_quiescent()
        finally:
            edge_smtp.PtrLookup = saved
    res.evaluations += 1
    per, whole = classify(out.get('o'), env) if out.get('o') else ({}, 'blocked')
    want = env.flatten()
    viol = []
    rep = {'t': 'slow-reader', 'pause': pause, 'window': window}
    desc = 'edge stops reading for %g s after its 354 (receive window %d bytes); relay data timeout 13 s, command timeout 11 s: attempt -> %s; the edge accepted %d message(s)' % (
        pause, window, whole, len(cq.got))
    for sender, rcpts, (hdr, body) in cq.got:
        if not content_equal(want, (hdr, body)):
            viol.append(({'transport': 'smtp', 'config': 'slow-reader', 'kind': 'content-changed', 'reported': whole.split(':')[0]},
                         desc + '; it accepted header block %r body %r (%d bytes), handed over were %d body bytes' % (hdr[:60], body[:60], len(body), len(want[1]))))
            break
    if whole == 'blocked':
        viol.append(({'transport': 'smtp', 'config': 'slow-reader', 'kind': 'attempt-never-returned'}, desc))
    res.outcome(('slow-reader', whole, len(cq.got)))
    return [(sig, msg, rep) for sig, msg in viol]


def check_default_socket():
    """A relay built WITHOUT a socket_creator (the sockets the library opens itself) against a loopback SMTP server that
    answers the end of data 0.6 s late, connect timeout 0.2 s, command/data timeouts 8 s -- in a process of its own, real
    loop: the reply the server gave (250) is the result the relay reports."""
    import os
    import subprocess
    import sys
    here = os.path.dirname(os.path.dirname(os.path.abspath(__file__)))
    repo = os.environ.get('VERIF_REPO', '/repo')
    try:
        p = subprocess.run([sys.executable, os.path.join(here, 'conformance', 'default_socket.py'), repo, 'slow-eod'],
                           stdout=subprocess.PIPE, stderr=subprocess.DEVNULL, timeout=90)
    except subprocess.TimeoutExpired:
        return 'skipped', [({'transport': 'smtp', 'config': 'default-socket', 'kind': 'attempt-never-returned'},
                            'relay built without a socket_creator, server answers the end of data 0.6 s late: still blocked after 90 s')]
    out = p.stdout.decode('utf-8', 'replace')
    line = [l for l in out.splitlines() if l.startswith('RESULT ')]
    if not line and 'SKIP' in out:
        return 'skipped', []
    if not line:
        return 'failed', [({'transport': 'smtp', 'config': 'default-socket', 'kind': 'probe-failed'}, 'default-socket probe produced no result (exit %d)' % p.returncode)]
    what = line[0].split()[1]
    if what != 'returned':
        return what, [({'transport': 'smtp', 'config': 'default-socket', 'kind': 'reply-misreported', 'reported': what},
                       'relay built without a socket_creator (connect timeout 0.2 s, command/data timeouts 8 s); the server accepts the message '
                       'with 250 but answers the end of data 0.6 s late: the relay reports %s' % what)]
    return what, []


def run_config(cfg, tier, seed):
    res = Result()
    if cfg['t'] == 'verdict':
        check_verdicts(res)
        res.sample({'edge_queue_verdicts': [c for c, t in VERDICTS], 'transports': ['smtp', 'http']})
        return res.as_dict()
    if cfg['t'] == 'slow-reader':
        pauses = (5.0, 12.0, 15.0, 20.0, 23.0, 30.0) if tier != 'thorough' else tuple(float(x) for x in range(1, 41))
        for pause in pauses:
            for window in ((64, 200, 1000) if tier != 'thorough' else (16, 64, 200, 330, 1000, 5000)):
                res.interesting(('slow-reader', pause, window))
                res.count('slow_reader_cases')
                for sig, msg, rep in check_slow_reader(pause, window, res):
                    res.violation(sig, msg, rep)
        res.sample({'slow_reader': {'pauses': [5, 12, 15, 20, 23, 30], 'windows': [64, 200, 1000]}})
        return res.as_dict()
    if cfg['t'] == 'default-socket':
        what, vs = check_default_socket()
        res.evaluations += 1
        res.count('default_socket_probe_' + what)
        res.interesting(('default-socket', what))
        for sig, msg in vs:
            res.violation(sig, msg, {'t': 'default-socket'})
        res.sample({'default_socket_probe': what})
        return res.as_dict()
    items = list(envelopes(cfg['sweep']))
    if cfg['t'] == 'smtp':
        sc = smtp_configs(tier)[cfg['cfg']]
        for i, (s, rl, h, b) in enumerate(items):
            if i % cfg['of'] != cfg['k']:
                continue
            env = make_env(s, rl, h, b)
            envs = [env] if not sc.get('reuse') else [env, make_env(s, rl, h, b)]
            outcomes, info = run_smtp_hop(sc, [e.copy() for e in envs])
            res.evaluations += 1
            res.count('smtp_hops')
            if sc.get('reuse') and info.get('connections', 0) != 1:
                res.count('reuse_opened_more_than_one_connection')
            for (o, cap) in outcomes:
                vs = judge_smtp(sc, env, o, cap, info)
                res.outcome((sc['name'], classify(o, env)[1], len(cap)))
                for sig, msg in vs:
                    res.violation(sig, msg, {'t': 'smtp', 'cfg': cfg['cfg'], 'tier': tier, 'env': [s, rl, b2s(h), b2s(b)]})
            res.interesting((sc['name'], s, tuple(rl), b))
            if not sc.get('tls') and i % 19 == cfg['k']:
                # conformance of the in-memory sockets: same hop over real gevent sockets on the real loop
                r_out, r_info = run_smtp_hop(sc, [e.copy() for e in envs], real=True)
                res.traces_validated += 1
                res.count('real_socket_replays')
                a = [(classify(o, env), cap) for o, cap in outcomes]
                b_ = [(classify(o, env), cap) for o, cap in r_out]
                if a != b_:
                    res.violation({'transport': 'smtp', 'kind': 'in-memory-socket-differs-from-real-socket'},
                                  'config %s sender %r rcpts %r: virtual %r real %r' % (sc['name'], s, rl, a, b_),
                                  {'t': 'smtp', 'cfg': cfg['cfg'], 'env': [s, rl, b2s(h), b2s(b)]})
            if i % 150 == cfg['k']:
                res.sample({'transport': 'smtp', 'config': sc['name'], 'sender': s, 'recipients': rl, 'body': b2s(b)})
    else:
        for i, (s, rl, h, b) in enumerate(items):
            env = make_env(s, rl, h, b)
            if cfg['t'] == 'lmtp':
                o, peers = run_lmtp_hop(env.copy(), reuse=cfg.get('reuse', False))
                vs = judge_lmtp(env, o, peers)
                if cfg.get('reuse') and len(peers) != 1:
                    res.count('lmtp_reuse_opened_second_connection')
                res.count('lmtp_hops')
            else:
                o, cap, errors = run_http_hop(env.copy(), reuse=cfg.get('reuse', False))
                vs = judge_http(env, o, cap, errors)
                res.count('http_hops')
            res.evaluations += 1
            res.outcome((cfg['t'], classify(o, env)[1]))
            res.interesting((cfg['t'], s, tuple(rl), b))
            for sig, msg in vs:
                res.violation(sig, msg, {'t': cfg['t'], 'reuse': cfg.get('reuse', False), 'env': [s, rl, b2s(h), b2s(b)]})
            if i % 200 == 0:
                res.sample({'transport': cfg['t'], 'sender': s, 'recipients': rl, 'body': b2s(b)})
    return res.as_dict()


def reported_replies(outcome):
    """(code, message) of every reply the relay reports for this attempt"""
    kind, val = outcome if outcome else (None, None)
    out = []
    vals = [val] if not isinstance(val, dict) else list(val.values())
    for v in vals:
        r = getattr(v, 'reply', v)
        if isinstance(r, Reply):
            out.append((r.code, r.message))
    return out


class SlowQueue(CaptureQueue):
    """takes its time to store the message (longer than the relay's command timeout, shorter than its data timeout)"""

    def enqueue(self, envelope):
        gevent.sleep(12.0)
        return CaptureQueue.enqueue(self, envelope)


def check_verdicts(res):
    """the edge's queue refuses the message with a given reply: that reply (code and text) is what the relay must report"""
    env0 = make_env('s@x.test', ['a@x.test', 'b@x.test'], HEADERS[0], b'refused\r\n')
    # the edge refuses every recipient at RCPT: that reply, not the follow-on refusal of DATA, is what the relay reports
    for code, text in (('450', '4.2.1 greylisted, try again'), ('550', '5.1.1 no such user')):
        for drop in ([], ['PIPELINING']):
            outcomes, info = run_smtp_hop({'name': 'rcpt-verdict', 'drop': drop, 'rcpt_verdict': (code, text)}, [env0.copy()])
            o = outcomes[0][0]
            per, whole = classify(o, env0)
            got = reported_replies(o)
            res.evaluations += 1
            res.count('edge_verdict_hops')
            res.outcome(('smtp', 'rcpt', code, whole, tuple(got)))
            want_class = 'perm' if code[0] == '5' else 'temp'
            if not all(v == want_class for v in per.values()) or not got or not all(g[0] == code for g in got):
                res.violation({'transport': 'smtp', 'kind': 'reported-reply-differs', 'verdict': 'rcpt-' + code},
                              'SMTP hop%s, the edge answers every RCPT with %s %s: the relay reports %s %r' % (' without PIPELINING' if drop else '', code, text, whole, got),
                              {'t': 'verdict', 'transport': 'smtp', 'code': 'rcpt-' + code})
    # an edge that answers the end of data late but inside the data timeout: its 250 is the result
    for drop in ([], ['PIPELINING']):
        q = SlowQueue()
        outcomes, info = run_smtp_hop({'name': 'slow-queue', 'drop': drop, 'relay_kw': {'command_timeout': 10.0, 'data_timeout': 30.0}}, [env0.copy()], queue=q)
        o = outcomes[0][0]
        per, whole = classify(o, env0)
        res.evaluations += 1
        res.count('edge_verdict_hops')
        res.outcome(('smtp', 'slow', whole))
        if not (q.got and all(v == 'delivered' for v in per.values())):
            res.violation({'transport': 'smtp', 'kind': 'reported-reply-differs', 'verdict': 'slow-250'},
                          'SMTP hop%s, the edge takes 12 s to queue the message and answers 250 (relay: command timeout 10 s, data timeout 30 s): '
                          'the relay reports %s %r, the edge captured %d message(s)' % (' without PIPELINING' if drop else '', whole, reported_replies(o), len(q.got)),
                          {'t': 'verdict', 'transport': 'smtp', 'code': 'slow'})
    for transport in ('smtp', 'http'):
        for code, text in VERDICTS:
            q = VerdictQueue(code, text)
            if transport == 'smtp':
                outcomes, info = run_smtp_hop({'name': 'all', 'drop': []}, [env0.copy()], queue=q)
                o = outcomes[0][0]
            else:
                o, cap, errors = run_http_hop(env0.copy(), queue=q)
            res.evaluations += 1
            res.count('edge_verdict_hops')
            per, whole = classify(o, env0)
            got = reported_replies(o)
            res.outcome((transport, code, whole, tuple(got)))
            res.interesting((transport, 'verdict', code))
            desc = '%s hop, the edge\'s queue refuses with %s %s: the relay reports %s %r' % (transport.upper(), code, text, whole, got)
            rep = {'t': 'verdict', 'transport': transport, 'code': code}
            if whole == 'blocked' or whole.startswith('raised:other') or any(v == 'delivered' for v in per.values()):
                res.violation({'transport': transport, 'kind': 'refusal-not-reported', 'verdict': str(code)}, desc, rep)
                continue
            if code is None:
                continue                # the edge chooses the reply itself; only "not delivered" is required
            want_class = 'perm' if code[0] == '5' else 'temp'
            if not all(v == want_class for v in per.values()) or not got or not all(g[0] == code and text.split(' ', 1)[1] in (g[1] or '') for g in got):
                res.violation({'transport': transport, 'kind': 'reported-reply-differs', 'verdict': str(code)}, desc, rep)


def vacuity(counters, tier):
    p = []
    for k, n in (('smtp_hops', 2000), ('lmtp_hops', 200), ('http_hops', 200)):
        if counters.get(k, 0) < n:
            p.append('%s=%d' % (k, counters.get(k, 0)))
    return p


def replay(rep):
    if rep.get('t') == 'slow-reader':
        res = Result()
        vs = check_slow_reader(rep['pause'], rep['window'], res)
        if vs:
            return True, vs[0][1]
        return False, 'whatever the edge accepted is the message that was handed over'
    if rep.get('t') == 'default-socket':
        what, vs = check_default_socket()
        if vs:
            return True, vs[0][1]
        return False, 'the relay reports the reply the server gave (%s)' % what
    if rep.get('t') == 'verdict':
        res = Result()
        check_verdicts(res)
        mine = [v for v in res.violations if v['replay'].get('transport') == rep['transport'] and v['replay'].get('code') == rep['code']]
        if mine:
            return True, mine[0]['message']
        return False, 'the relay reports the reply the edge gave'
    s, rl, h, b = rep['env']
    env = make_env(s, rl, h.encode('latin-1'), b.encode('latin-1'))
    if rep['t'] == 'smtp':
        sc = smtp_configs(rep.get('tier', 'quick'))[rep['cfg']]
        envs = [env] if not sc.get('reuse') else [env, env.copy()]
        outcomes, info = run_smtp_hop(sc, [e.copy() for e in envs])
        vs = []
        for o, cap in outcomes:
            vs += judge_smtp(sc, env, o, cap, info)
    elif rep['t'] == 'lmtp':
        o, peers = run_lmtp_hop(env.copy(), reuse=rep.get('reuse', False))
        vs = judge_lmtp(env, o, peers)
    else:
        o, cap, errors = run_http_hop(env.copy(), reuse=rep.get('reuse', False))
        vs = judge_http(env, o, cap, errors)
    if vs:
        return True, vs[0][1]
    return False, 'envelope arrived unchanged'
