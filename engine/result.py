"""Accumulator for what one configuration of a check covered."""
from .core import stable_hash


class Result(object):
    def __init__(self, max_violations=40, max_samples=3):
        self.evaluations = 0
        self.states = 0
        self.transitions = 0
        self.traces_validated = 0
        self.outcomes = set()
        self.nontrivial = set()
        self.violations = []
        self.samples = []
        self.counters = {}
        self.caps = []
        self._sigs = {}
        self.max_violations = max_violations
        self.max_samples = max_samples

    def count(self, name, n=1):
        self.counters[name] = self.counters.get(name, 0) + n

    def outcome(self, obs):
        self.outcomes.add(stable_hash(obs))

    def interesting(self, case):
        self.nontrivial.add(stable_hash(case))

    def sample(self, s):
        if len(self.samples) < self.max_samples:
            self.samples.append(s)

    def violation(self, signature, message, replay):
        key = repr(sorted(signature.items()))
        n = self._sigs.get(key, 0)
        self._sigs[key] = n + 1
        if n < 2 and len(self.violations) < self.max_violations:
            self.violations.append({'signature': signature, 'message': message, 'replay': replay})
        self.count('violating_cases')

    def add_stats(self, st):
        """Merge engine.core.Stats of one explore() call."""
        self.evaluations += st.executions
        self.states += len(st.states)
        self.transitions += st.transitions
        self.outcomes |= st.outcomes
        if st.cap_hit:
            self.caps.append(st.cap_hit)
        if st.horizon_hits:
            self.count('horizon_hits', st.horizon_hits)
        self.count('pruned_by_state_merge', st.pruned)

    def as_dict(self):
        return dict(evaluations=self.evaluations, states=self.states, transitions=self.transitions,
                    traces_validated=self.traces_validated, outcomes=self.outcomes,
                    nontrivial=self.nontrivial, violations=self.violations, samples=self.samples,
                    counters=self.counters, caps=self.caps)


def b2s(b):
    """bytes -> JSON-safe str (latin-1) ; s2b is the inverse."""
    return b.decode('latin-1')


def s2b(s):
    return s.encode('latin-1')
