"""Choice recorder / replayer and the deviation-bounded depth-first explorer.

Everything in /verif that explores (E1 virtual loop, E2 scripted socket, E3 crash
enumerator, plain operation-sequence BFS) goes through this module, so that every
execution is identified by a *choice list* that can be replayed deterministically.

Terminology
  choice point   a call ``ch.choose(n, label, kind)``; option 0 is the default
                 ("environment does the simplest thing").
  kind           'sched' = environment *timing* (which event/timer next, short read,
                 slow completion) -- bounded by the deviation bound ``d``;
                 'data'  = the property's data alphabet (relay outcome, fault kind)
                 -- bounded by ``dd`` (None = exhaustive, not counted).
  deviation      a non-zero choice.
"""
import hashlib


class HarnessError(Exception):
    """The machinery itself misbehaved (replay divergence, fake self check)."""


class Prune(BaseException):
    """Raised inside an execution to abandon it (state already expanded)."""


class Horizon(BaseException):
    """Raised inside an execution when its step horizon is exceeded."""


class Point(object):
    __slots__ = ('n', 'label', 'kind', 'choice', 'key')

    def __init__(self, n, label, kind, choice, key=None):
        self.n, self.label, self.kind, self.choice, self.key = n, label, kind, choice, key

    def __repr__(self):
        return '%s[%d/%d]%s' % (self.kind[0], self.choice, self.n, self.label)


class Chooser(object):
    """Replays ``prefix`` then answers 0.  Records every point."""

    def __init__(self, prefix=(), labels=None, max_points=100000):
        self.prefix = list(prefix)
        self.expect_labels = labels
        self.points = []
        self.max_points = max_points
        self.on_state = None      # callable(key, depth) -> may raise Prune

    def choose(self, n, label='', kind='sched', key=None):
        i = len(self.points)
        if i >= self.max_points:
            raise Horizon()
        if n <= 0:
            raise HarnessError('choice point with no options: %r' % (label,))
        if i < len(self.prefix):
            c = self.prefix[i]
            if c >= n:
                raise HarnessError('replay divergence at point %d: choice %d of %d (%s); trace=%r'
                                   % (i, c, n, label, self.points[-6:]))
            if self.expect_labels is not None and i < len(self.expect_labels) \
                    and self.expect_labels[i] != label:
                raise HarnessError('replay divergence at point %d: label %r != recorded %r'
                                   % (i, label, self.expect_labels[i]))
        else:
            c = 0
            if key is not None and self.on_state is not None:
                self.on_state(key, i)
        self.points.append(Point(n, label, kind, c, key))
        return c

    @property
    def choices(self):
        return [p.choice for p in self.points]

    @property
    def labels(self):
        return [p.label for p in self.points]

    def trace(self):
        return ['%s=%d/%d' % (p.label, p.choice, p.n) for p in self.points]


def stable_hash(obj):
    """64-bit hash of a repr()-able canonical object, stable across processes."""
    return int.from_bytes(hashlib.blake2b(repr(obj).encode('utf-8', 'backslashreplace'),
                                          digest_size=8).digest(), 'big')


class Stats(object):
    def __init__(self):
        self.executions = 0
        self.pruned = 0
        self.horizon_hits = 0
        self.states = set()
        self.transitions = 0
        self.outcomes = set()
        self.max_depth = 0
        self.points = 0
        self.cap_hit = None

    def as_dict(self):
        return dict(executions=self.executions, pruned=self.pruned, horizon_hits=self.horizon_hits,
                    states=len(self.states), transitions=self.transitions,
                    outcomes=len(self.outcomes), max_depth=self.max_depth, cap_hit=self.cap_hit)


def explore(run, d=0, dd=None, merge=True, max_exec=None, on_result=None, order=None):
    """Deviation-bounded DFS by re-execution.

    run(chooser) -> observation (any repr()-able object) ; may raise Prune/Horizon.
    d   bound on non-zero 'sched' choices ; dd bound on non-zero 'data' choices (None: unbounded).
    on_result(chooser, obs) is called for every completed execution (oracles live in ``run``
    or here).  Returns Stats.
    """
    st = Stats()
    seen = {}

    def used(points, upto):
        s = t = 0
        for p in points[:upto]:
            if p.choice:
                if p.kind == 'sched':
                    s += 1
                else:
                    t += 1
        return s, t

    stack = [[]]
    while stack:
        prefix = stack.pop()
        if max_exec is not None and st.executions >= max_exec:
            st.cap_hit = 'max_exec=%d' % max_exec
            break
        ch = Chooser(prefix)
        if merge:
            def on_state(key, depth, ch=ch):
                s, t = used(ch.points, depth)
                rem = (d - s, (dd - t) if dd is not None else 0)
                h = stable_hash(key)
                old = seen.get(h)
                if old is not None and old[0] >= rem[0] and old[1] >= rem[1]:
                    st.pruned += 1
                    raise Prune()
                seen[h] = rem if old is None else (max(old[0], rem[0]), max(old[1], rem[1]))
                st.states.add(h)
            ch.on_state = on_state
        st.executions += 1
        obs = None
        try:
            obs = run(ch)
            completed = True
        except Prune:
            completed = False
        except Horizon:
            st.horizon_hits += 1
            completed = False
        pts = ch.points
        st.points += len(pts)
        st.transitions += max(0, len(pts) - len(prefix))
        st.max_depth = max(st.max_depth, len(pts))
        if completed:
            st.outcomes.add(stable_hash(obs))
            if on_result is not None:
                on_result(ch, obs)
        # children: deviate at every point after the prefix
        kids = []
        s, t = used(pts, len(prefix))
        for i in range(len(prefix), len(pts)):
            p = pts[i]
            if p.n > 1:
                if p.kind == 'sched':
                    ok = s + 1 <= d
                else:
                    ok = dd is None or t + 1 <= dd
                if ok:
                    base = [q.choice for q in pts[:i]]
                    alts = list(range(1, p.n))
                    if order is not None:
                        order.shuffle(alts)
                    for alt in alts:
                        kids.append(base + [alt])
            if p.choice:
                if p.kind == 'sched':
                    s += 1
                else:
                    t += 1
        stack.extend(reversed(kids))
    return st
