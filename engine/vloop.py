"""E1: a pure-Python virtual event loop for gevent.

A fresh ``Hub(loop=VirtualLoop(...))`` is installed for every execution.  All of gevent's
own machinery (Greenlet, Event, Semaphore, AsyncResult, Pool, Timeout, sleep, link, kill)
runs unmodified on top of it.  The loop owns the two sources of nondeterminism gevent code
has: *which pending environment event or timer happens next* (a choice point whenever no
callback is ready) and *virtual time* (the clock only moves when a timer is fired).

Ready callbacks are dispatched FIFO exactly as gevent does; that order is platform
semantics and is not permuted.
"""
import itertools
import sys
import time as _real_time
import types

import gevent
import gevent.event
import gevent.hub
from gevent.hub import Hub, set_hub
from gevent.event import AsyncResult
from gevent.greenlet import Greenlet

from .core import Prune, Horizon, HarnessError

EPOCH = 1000000.0


class _Callback(object):
    __slots__ = ('func', 'args', 'pending_')

    def __init__(self, func, args):
        self.func, self.args, self.pending_ = func, args, True

    @property
    def pending(self):
        return self.pending_

    def stop(self):
        self.pending_ = False
        self.func = None
        self.args = None
    close = stop

    def __bool__(self):
        return self.pending_


class _Timer(object):
    def __init__(self, loop, after, repeat=0.0, ref=True):
        self.loop, self.after, self.repeat, self.ref = loop, max(after or 0.0, 0.0), repeat, ref
        self.callback = None
        self.args = ()
        self.active = False
        self.due = None
        self.seq = None

    @property
    def pending(self):
        return False

    def start(self, callback, *args, **kw):
        self.callback, self.args = callback, args
        self.due = self.loop._now + self.after
        self.seq = next(self.loop._seq)
        if not self.active:
            self.active = True
            self.loop._timers.append(self)

    def again(self, callback, *args, **kw):
        self.stop()
        self.start(callback, *args, **kw)

    def stop(self):
        if self.active:
            self.active = False
            try:
                self.loop._timers.remove(self)
            except ValueError:
                pass
        self.callback = None
        self.args = ()

    def close(self):
        self.stop()

    def __enter__(self):
        return self

    def __exit__(self, *a):
        self.close()


class EnvEvent(object):
    """A pending environment event: ``fire()`` is run in the hub when the explorer picks it."""
    __slots__ = ('label', 'fire', 'seq', 'info')

    def __init__(self, label, fire, seq, info=None):
        self.label, self.fire, self.seq, self.info = label, fire, seq, info


class VirtualLoop(object):
    default = True
    approx_timer_resolution = 0.0
    MAXPRI = 2
    MINPRI = -2

    def __init__(self, chooser=None, state_key=None, max_steps=5000, horizon=None):
        self._callbacks = []
        self._timers = []
        self._now = EPOCH
        self._seq = itertools.count()
        self.error_handler = None
        self.chooser = chooser
        self.state_key = state_key          # callable() -> canonical state or None
        self.env_events = []
        self.trace = []
        self.steps = 0
        self.max_steps = max_steps
        self.horizon = horizon              # virtual seconds after EPOCH
        self.teardown = False
        self.abort = None
        self.on_step = None                 # callable(kind, label) after each env/timer step
        self.before_timer = None            # callable(due) before time advances

    # --- ILoop subset used by gevent
    def now(self):
        return self._now

    def update_now(self):
        pass
    update = update_now

    def destroy(self):
        pass

    def run_callback(self, func, *args):
        cb = _Callback(func, args)
        self._callbacks.append(cb)
        return cb
    run_callback_threadsafe = run_callback

    def timer(self, after, repeat=0.0, ref=True, priority=None):
        return _Timer(self, after, repeat, ref)

    def io(self, *a, **k):
        raise NotImplementedError('virtual loop has no fd io')

    def closing_fd(self, fd):
        return False

    def async_(self, *a, **k):
        raise NotImplementedError('virtual loop has no async watchers')

    def handle_error(self, context, t, v, tb):
        if self.error_handler is not None:
            self.error_handler.handle_error(context, t, v, tb)

    # --- environment events
    def add_event(self, label, fire, info=None):
        ev = EnvEvent(label, fire, next(self._seq), info)
        self.env_events.append(ev)
        return ev

    def cancel_event(self, ev):
        try:
            self.env_events.remove(ev)
        except ValueError:
            pass

    def env_wait(self, label, info=None):
        """Block the calling greenlet until the explorer fires this event."""
        r = AsyncResult()
        ev = self.add_event(label, lambda: r.set(None), info)
        try:
            r.get()
        finally:
            self.cancel_event(ev)

    def _run_callbacks(self):
        cbs = self._callbacks
        while cbs:
            cb = cbs.pop(0)
            if not cb.pending_:
                continue
            func, args = cb.func, cb.args
            cb.stop()
            try:
                func(*args)
            except (Prune, Horizon):
                raise
            except BaseException:
                self.handle_error((func, args), *sys.exc_info())

    def earliest_timers(self):
        if not self._timers:
            return []
        m = min(t.due for t in self._timers)
        return sorted([t for t in self._timers if t.due == m], key=lambda t: t.seq)

    def run(self, nowait=False, once=False):
        try:
            self._run()
        except (Prune, Horizon, HarnessError) as e:
            # carry the abort to the main greenlet: returning makes gevent raise LoopExit there
            self.abort = e
            self._callbacks[:] = []
            return

    def _run(self):
        while True:
            self._run_callbacks()
            if self.teardown:
                return
            options = [('env', ev) for ev in self.env_events]
            tms = self.earliest_timers()
            if tms and (self.horizon is None or tms[0].due <= EPOCH + self.horizon):
                for t in tms:
                    options.append(('timer', t))
            if not options:
                return
            self.steps += 1
            if self.steps > self.max_steps:
                raise Horizon()
            if len(options) == 1 or self.chooser is None:
                idx = 0
                if self.chooser is not None and self.state_key is not None:
                    pass
            else:
                labels = '|'.join(o[1].label if o[0] == 'env' else 'T+%g' % (o[1].due - self._now)
                                  for o in options)
                key = self.state_key() if self.state_key is not None else None
                idx = self.chooser.choose(len(options), labels, 'sched', key)
            kind, obj = options[idx]
            if kind == 'timer':
                if self.before_timer is not None and obj.due > self._now:
                    self.before_timer(obj.due)
                self._now = max(self._now, obj.due)
                cb, args = obj.callback, obj.args
                obj.stop()
                self.trace.append(('timer', round(self._now - EPOCH, 6)))
                try:
                    cb(*args)
                except (Prune, Horizon):
                    raise
                except BaseException:
                    self.handle_error((cb, args), *sys.exc_info())
                if self.on_step is not None:
                    self.on_step('timer', None)
            else:
                self.env_events.remove(obj)
                self.trace.append(('env', obj.label))
                try:
                    obj.fire()
                except (Prune, Horizon):
                    raise
                except BaseException:
                    self.handle_error((obj.fire, ()), *sys.exc_info())
                if self.on_step is not None:
                    self.on_step('env', obj.label)


class RecordingHub(Hub):
    """Hub that records exceptions escaping greenlets instead of printing them."""

    def handle_error(self, context, type, value, tb):
        if issubclass(type, (Prune, Horizon)):
            return
        self.errors.append((type.__name__, str(value)))
        self.error_objs.append(value)

    def print_exception(self, *a, **k):
        pass


class VirtualTime(object):
    """Stand-in for the ``time`` module inside library modules."""

    def __init__(self, loop):
        self._loop = loop
        for name in ('strftime', 'gmtime', 'localtime', 'mktime', 'struct_time', 'timezone', 'sleep'):
            setattr(self, name, getattr(_real_time, name))

    def time(self):
        return self._loop._now


_TIME_MODULES = ('slimta.queue', 'slimta.edge', 'slimta.bounce', 'slimta.relay.smtp.mx',
                 'slimta.util.ptrlookup', 'slimta.redisstorage')


def reset_mutable_defaults(*classes):
    """A mutable default argument is state shared by every object built without that argument, and by every execution
    of a worker process.  Emptied before an execution so that executions stay independent (the sharing itself is then
    observed within one execution: by building two objects and using both).  -> names of the defaults that held something."""
    dirty = []
    for cls in classes:
        for name in ('__init__', 'apply', 'attempt'):
            fn = getattr(cls, name, None)
            fn = getattr(fn, '__func__', fn)
            for d in (getattr(fn, '__defaults__', None) or ()):
                if isinstance(d, (list, dict, set)) and len(d):
                    dirty.append('%s.%s' % (cls.__name__, name))
                    d.clear()
            for d in (getattr(fn, '__kwdefaults__', None) or {}).values():
                if isinstance(d, (list, dict, set)) and len(d):
                    dirty.append('%s.%s' % (cls.__name__, name))
                    d.clear()
    return dirty


def snapshot_reply_constants():
    """module-level Reply objects of the library (pre-defined responses shared by every session of the process)"""
    mod = sys.modules.get('slimta.smtp.reply')
    out = []
    if mod is not None:
        for k, v in sorted(vars(mod).items()):
            if isinstance(v, mod.Reply):
                out.append((k, v, dict(vars(v))))
    return out


def restore_reply_constants(snap):
    """-> [(name, before, after)] of the constants modified since ``snap``; restores them."""
    out = []
    for k, v, saved in snap:
        if vars(v) != saved:
            out.append((k, '%s %s' % (saved.get('_code'), saved.get('_message')), '%s %s' % (v._code, v._message)))
            vars(v).clear()
            vars(v).update(saved)
    return out


class World(object):
    """One execution on a fresh hub + virtual loop.

    with World(chooser) as w:
        ... build real objects, spawn greenlets, register env events ...
        w.run_until_quiescent()
    """

    def __init__(self, chooser=None, state_key=None, max_steps=5000, horizon=None, uuid_modules=()):
        self.loop = VirtualLoop(chooser, state_key, max_steps, horizon)
        self.chooser = chooser
        self.hub = None
        self.greenlets = []
        self._saved = []
        self.uuid_modules = uuid_modules
        self._uuid_counter = itertools.count()

    @property
    def now(self):
        return self.loop._now - EPOCH

    def _on_spawn(self, g):
        self.greenlets.append(g)

    def fake_uuid4(self):
        # uuid_repeat_at = k: the k-th answer (counting from 0) repeats the one before it -- a collision with a live id,
        # which the stores guard against by drawing again
        k = getattr(self, '_uuid_calls', 0)
        self._uuid_calls = k + 1
        if k and k == getattr(self, 'uuid_repeat_at', None):
            return types.SimpleNamespace(hex=self._uuid_last)
        self._uuid_last = '%032x' % (next(self._uuid_counter) + 0xa0)
        return types.SimpleNamespace(hex=self._uuid_last)

    def patch(self, module, name, value):
        mod = module if not isinstance(module, str) else sys.modules[module]
        self._saved.append((mod, name, getattr(mod, name)))
        setattr(mod, name, value)

    def __enter__(self):
        hub = RecordingHub(loop=self.loop)
        hub.errors = []
        hub.error_objs = []
        self._old_hub = gevent.hub._get_hub()
        set_hub(hub)
        self.hub = hub
        Greenlet.add_spawn_callback(self._on_spawn)
        vt = VirtualTime(self.loop)
        self.vtime = vt
        for m in _TIME_MODULES:
            if m in sys.modules and hasattr(sys.modules[m], 'time'):
                self.patch(m, 'time', vt)
        fu = types.SimpleNamespace(uuid4=self.fake_uuid4)
        for m in self.uuid_modules:
            if m in sys.modules:
                self.patch(m, 'uuid', fu)
        self._constants = self._snapshot_constants()
        return self

    @staticmethod
    def _snapshot_constants():
        return snapshot_reply_constants()

    def changed_constants(self):
        """-> [(name, before, after)] for every shared pre-defined Reply that was modified during this execution;
        the objects are restored (a later execution must not inherit the modification)."""
        return restore_reply_constants(getattr(self, '_constants', ()))

    def __exit__(self, et, ev, tb):
        try:
            self.teardown()
        finally:
            self.changed_constants()
            Greenlet.remove_spawn_callback(self._on_spawn)
            for mod, name, val in reversed(self._saved):
                setattr(mod, name, val)
            self._saved = []
            set_hub(self._old_hub)
        return False

    def teardown(self):
        loop = self.loop
        loop.teardown = True
        loop.env_events[:] = []
        for t in list(loop._timers):
            t.stop()
        live = [g for g in self.greenlets if not g.dead]
        for g in live:
            try:
                g.kill(block=False)
            except Exception:
                pass
        # let the kills be delivered
        for _ in range(3):
            if not loop._callbacks:
                break
            try:
                gevent.sleep(0)
            except BaseException:
                break
        self.greenlets = []

    def errors(self):
        return list(self.hub.errors)

    def spawn(self, f, *a, **k):
        return gevent.spawn(f, *a, **k)

    def add_event(self, label, fire, info=None):
        return self.loop.add_event(label, fire, info)

    def env_wait(self, label, info=None):
        return self.loop.env_wait(label, info)

    def run_until_quiescent(self):
        """Run the loop from the main greenlet until nothing can happen any more."""
        self.loop.abort = None
        try:
            gevent.event.Event().wait()
        except gevent.hub.LoopExit:
            pass
        if self.loop.abort is not None:
            e = self.loop.abort
            self.loop.abort = None
            raise e

    def run_steps(self, n=1):
        """Not supported: executions always run to quiescence or horizon."""
        raise NotImplementedError
