"""E3: in-memory POSIX-like file system with an effect log, bound to slimta.diskstorage through its
module-level names ``os``, ``mkstemp``, ``aio_read``, ``aio_write``.

Every mutating effect (create temp file, write chunk, rename, unlink) appends
``(description, snapshot of the whole FS)`` to ``log``; a process kill can leave the disk in exactly
the states ``snapshot(k)`` for k = 0..len(log) (the kernel keeps completed writes when only the
process dies), so "every crash point" = every prefix of the log.
"""
import errno
import os as _os
import types


class MemFS(object):
    def __init__(self, dirs=('/q/env', '/q/meta', '/q/tmp'), files=None, complete=None):
        self.dirs = set(dirs)
        self.files = dict(files or {})      # path -> bytes
        self.fds = {}
        self.next_fd = 100
        self.tmp_counter = 0
        self.log = []                       # (effect string, files snapshot)
        self.base = dict(self.files)
        self.complete = complete            # callable(fn, label): schedule completion of an aio op
        self.on_effect = None               # callable(k) after the k-th effect was applied
        self.short_chooser = None           # Chooser: an aio request may complete for fewer bytes than asked (legal for pyaio)
        self.keeper_missing = []            # aio requests that were in flight without a live keep-awake greenlet
        self.fail_at = None                 # int k: the k-th counted request (create temp file, aio write, rename) fails with ENOSPC
        self.io_count = 0
        self.O_RDONLY = _os.O_RDONLY

    # ---- effect log
    def _effect(self, what):
        self.log.append((what, dict(self.files)))
        if self.on_effect is not None:
            self.on_effect(len(self.log))

    def snapshot(self, k):
        """FS contents after the first k effects."""
        return dict(self.base) if k == 0 else dict(self.log[k - 1][1])

    def _faulty(self):
        """True when this counted request is the one chosen to fail"""
        k = self.io_count
        self.io_count += 1
        return self.fail_at is not None and k == self.fail_at

    # ---- os shim
    def os_module(self):
        fs = self
        path = types.SimpleNamespace(join=_os.path.join, lexists=lambda p: p in fs.files or p in fs.dirs,
                                     exists=lambda p: p in fs.files or p in fs.dirs)
        return types.SimpleNamespace(open=fs.open, close=fs.close, rename=fs.rename, remove=fs.remove,
                                     listdir=fs.listdir, path=path, strerror=_os.strerror,
                                     O_RDONLY=_os.O_RDONLY)

    def open(self, path, flags, mode=0o777):
        if path not in self.files:
            raise OSError(errno.ENOENT, _os.strerror(errno.ENOENT), path)
        fd = self.next_fd
        self.next_fd += 1
        self.fds[fd] = path
        return fd

    def close(self, fd):
        self.fds.pop(fd, None)

    def rename(self, src, dst):
        if src not in self.files:
            raise OSError(errno.ENOENT, _os.strerror(errno.ENOENT), src)
        if self._faulty():
            raise OSError(errno.ENOSPC, _os.strerror(errno.ENOSPC), dst)
        if src.split('/')[1] != dst.split('/')[1]:
            # every top-level directory is a file system of its own (the queue directories share one, the system's
            # temporary directory is another): rename(2) does not cross them
            raise OSError(errno.EXDEV, _os.strerror(errno.EXDEV), dst)
        self.files[dst] = self.files.pop(src)
        for fd, p in list(self.fds.items()):
            if p == src:
                self.fds[fd] = dst
        self._effect('rename %s -> %s' % (src, dst))

    def remove(self, path):
        if path not in self.files:
            raise OSError(errno.ENOENT, _os.strerror(errno.ENOENT), path)
        del self.files[path]
        self._effect('unlink %s' % path)

    def listdir(self, d):
        d = d.rstrip('/')
        return sorted(p[len(d) + 1:] for p in self.files if p.startswith(d + '/') and '/' not in p[len(d) + 1:])

    def mkstemp(self, dir=None, **kw):
        d = dir or '/tmp'
        if self._faulty():
            raise OSError(errno.ENOSPC, _os.strerror(errno.ENOSPC), d)
        self.tmp_counter += 1
        path = '%s/tmp%06d' % (d.rstrip('/'), self.tmp_counter)
        self.files[path] = b''
        fd = self.next_fd
        self.next_fd += 1
        self.fds[fd] = path
        self._effect('create %s' % path)
        return fd, path

    # ---- pyaio shims
    def _keeper_alive(self, when, label):
        """pyaio completions are only delivered while the loop is kept awake: a request in flight needs the keep-awake greenlet"""
        try:
            import slimta.diskstorage as ds
            t = ds.AioFile._keep_awake_thread
        except Exception:
            return
        if t is None or getattr(t, 'dead', False):
            self.keeper_missing.append('%s %s' % (when, label))

    def _schedule(self, fn, label):
        self._keeper_alive('issued', label)
        fn0 = fn

        def fn():
            self._keeper_alive('completing', label)
            fn0()
        if self.complete is not None:
            self.complete(fn, label)
        else:
            import gevent
            gevent.get_hub().loop.run_callback(fn)

    def _short(self, kind, n):
        """how many of the n requested bytes this request completes for: all (default), half, one"""
        if self.short_chooser is None or n <= 1:
            return n
        c = self.short_chooser.choose(3, 'short-' + kind, 'sched')
        return [n, max(1, n // 2), 1][c]

    def aio_write(self, fd, piece, offset, callback):
        piece = bytes(piece)

        def done():
            nonlocal piece
            path = self.fds.get(fd)
            if path is None or path not in self.files:
                callback(-1, errno.EBADF)
                return
            if self._faulty():
                callback(-1, errno.ENOSPC)
                return
            piece = piece[:self._short('write', len(piece))]
            cur = self.files[path]
            if len(cur) < offset:
                cur = cur + b'\x00' * (offset - len(cur))
            self.files[path] = cur[:offset] + piece + cur[offset + len(piece):]
            self._effect('write %s @%d +%d' % (path, offset, len(piece)))
            callback(len(piece), 0)
        self._schedule(done, 'aio_write fd%d@%d' % (fd, offset))

    def aio_read(self, fd, offset, size, callback):
        def done():
            path = self.fds.get(fd)
            if path is None or path not in self.files:
                callback(b'', -1, errno.EBADF)
                return
            buf = self.files[path][offset:offset + size]
            buf = buf[:self._short('read', len(buf))]
            callback(buf, len(buf), 0)
        self._schedule(done, 'aio_read fd%d@%d' % (fd, offset))


def bind(world, fs, chunk_size=None):
    """Rebind slimta.diskstorage's module-level names to ``fs`` for the lifetime of ``world``."""
    import slimta.diskstorage as ds
    from gevent.lock import Semaphore
    world.patch(ds, 'os', fs.os_module())
    world.patch(ds, 'mkstemp', fs.mkstemp)
    world.patch(ds, 'aio_write', fs.aio_write)
    world.patch(ds, 'aio_read', fs.aio_read)
    # the 1 ms keep-awake poller only matters for real kernel AIO; it would make the loop never quiescent
    # (the start/stop reference counting itself stays real: it is shared state between overlapping operations)
    import gevent.event
    world.patch(ds.AioFile, '_keep_awake', classmethod(lambda cls: gevent.event.Event().wait()))
    world.patch(ds.AioFile, '_keep_awake_lock', Semaphore(1))
    world.patch(ds.AioFile, '_keep_awake_thread', None)
    world.patch(ds.AioFile, '_keep_awake_refs', 0)
    if chunk_size is not None:
        world.patch(ds.AioFile, 'chunk_size', chunk_size)
