"""E2: exploration of blocking sequential code fed by a scripted socket.

Two modes over the same ``body(sock) -> observation`` function:

* cut-bounded  : ``engine.core.explore`` with the socket's recv size as a 'sched' choice
                 (choice 0 = everything available; a deviation is a short read).
* all segmentations (continuation-merged): depth-first re-execution where every recv() call is a
  state whose key is (bytes consumed, output so far, canonical form of every Python frame between
  the recv call and the harness boundary).  result(state) = set of terminal observations reachable
  from it, memoised.  Segmentation independence  <=>  |result(initial)| == 1.
"""
import io
import re
import sys

from .core import Chooser, HarnessError, stable_hash


class OverRead(Exception):
    """The code under test called recv() although nothing is owed to it (script says so)."""


class Abort(BaseException):
    pass


def canon(o, seen=None, depth=0):
    if seen is None:
        seen = {}
    if o is None or isinstance(o, (bool, int, float, str, bytes)):
        return o
    if isinstance(o, (bytearray, memoryview)):
        return ('ba', bytes(o))
    oid = id(o)
    if oid in seen:
        return ('cycle', seen[oid])
    seen[oid] = len(seen)
    if depth > 12:
        return ('deep', type(o).__name__)
    if isinstance(o, type):
        return ('class', o.__module__, o.__qualname__)
    if hasattr(o, '__canon__'):
        return o.__canon__()
    if isinstance(o, (list, tuple)):
        return (type(o).__name__, tuple(canon(x, seen, depth + 1) for x in o))
    if isinstance(o, dict):
        return ('dict', tuple(sorted(((repr(k), canon(v, seen, depth + 1)) for k, v in o.items()),
                                     key=lambda kv: kv[0])))
    if isinstance(o, (set, frozenset)):
        return ('set', tuple(sorted(repr(x) for x in o)))
    if isinstance(o, re.Match):
        return ('match', o.span(), o.groups())
    if isinstance(o, re.Pattern):
        return ('pat', o.pattern)
    if isinstance(o, io.BytesIO):
        return ('bio', o.getvalue())
    if isinstance(o, type):
        return ('type', o.__qualname__)
    if isinstance(o, BaseException):
        return ('exc', type(o).__name__, str(o))
    d = getattr(o, '__dict__', None)
    if d is not None and not callable(o):
        return (type(o).__name__, canon(d, seen, depth + 1))
    if callable(o):
        return ('fn', getattr(o, '__qualname__', type(o).__name__))
    return ('opaque', type(o).__name__)


class ScriptSocket(object):
    """In-memory socket whose recv()/recv_into() sizes are chosen by ``ctl.take(sock, avail)``.

    ``stream``  bytes the peer will ever send (EOF afterwards unless ``owed`` is used).
    ``gate``    optional callable(sock) -> number of stream bytes currently *available* (so that
                a reply only becomes readable after the command that causes it was sent); when
                nothing is available and the gate says nothing more will come before the next
                send, recv raises OverRead.
    """

    def __init__(self, stream, ctl, gate=None, peer=('192.0.2.1', 4321), eof=True, tls_stream=None):
        self.stream = stream
        self.tls_stream = tls_stream    # None: transparent fake TLS (same stream continues)
        self.in_tls = False
        self.clear_len = None
        self.tls_marks = []             # indexes into self.out written through the TLS wrapper
        self.recv_log = []              # (pos, len(out)) at every recv call
        self.pos = 0
        self.out = []
        self.ctl = ctl
        self.gate = gate
        self.peer = peer
        self.eof = eof
        self.closed = False
        self.recv_calls = 0

    def __canon__(self):
        return ('ScriptSocket', self.pos, len(self.out), self.closed)

    # -- receiving
    def _available(self):
        limit = len(self.stream)
        if self.gate is not None:
            limit = min(limit, self.gate(self))
        return max(0, limit - self.pos)

    def switch_to_tls(self):
        """Called by FakeContext.wrap_socket: the handshake happens here."""
        if self.tls_stream is not None:
            if self.pos < len(self.stream):
                from gevent.ssl import SSLError
                raise SSLError(1, 'handshake failure: %d clear-text bytes in the way' % (len(self.stream) - self.pos))
            self.clear_len = len(self.stream)
            self.stream = self.stream + self.tls_stream
        self.in_tls = True

    def recv(self, n=4096, *flags):
        self.recv_calls += 1
        self.recv_log.append((self.pos, len(self.out)))
        avail = min(n, self._available())
        if avail <= 0:
            if self.gate is not None and self.pos < len(self.stream):
                raise OverRead('recv() with nothing owed at stream pos %d' % self.pos)
            if self.gate is not None and not self.eof:
                raise OverRead('recv() past the last reply owed')
            return b''
        take = self.ctl.take(self, avail) if avail > 1 else 1
        data = self.stream[self.pos:self.pos + take]
        self.pos += take
        return data

    def recv_into(self, view, nbytes=0, *flags):
        n = nbytes or len(view)
        d = self.recv(n)
        view[:len(d)] = d
        return len(d)

    # -- sending
    def sendall(self, data, *flags):
        self.out.append(bytes(data))

    def send(self, data, *flags):
        self.sendall(data)
        return len(data)

    def sent(self):
        return b''.join(self.out)

    # -- misc socket API used by slimta
    def fileno(self):
        return -1

    def getpeername(self):
        return self.peer

    def getsockname(self):
        return ('192.0.2.2', 25)

    def close(self):
        self.closed = True

    def shutdown(self, *a):
        pass

    def settimeout(self, t):
        pass

    def setsockopt(self, *a):
        pass

    def unread(self):
        return self.stream[self.pos:]


class CutCtl(object):
    """recv size from a Chooser: choice 0 = all available, choice k = avail-k bytes."""

    def __init__(self, chooser):
        self.ch = chooser

    def take(self, sock, avail):
        return avail - self.ch.choose(avail, 'recv@%d/%d' % (sock.pos, avail), 'sched')


class FixedCtl(object):
    """Pre-set segmentation: 'all' | 'byte' | 'line' | list of cut positions (absolute)."""

    def __init__(self, mode, stream=None):
        self.mode = mode
        self.stream = stream

    def take(self, sock, avail):
        if self.mode == 'all':
            return avail
        if self.mode == 'byte':
            return 1
        if self.mode == 'line':
            i = sock.stream.find(b'\n', sock.pos, sock.pos + avail)
            return (i - sock.pos + 1) if i >= 0 else avail
        for c in self.mode:
            if sock.pos < c <= sock.pos + avail:
                return c - sock.pos
        return avail


class _MergedCtl(object):
    def __init__(self, ex):
        self.ex = ex

    def take(self, sock, avail):
        ex = self.ex
        if ex.i < len(ex.prefix):
            c = ex.prefix[ex.i]
            ex.i += 1
            if c > avail:
                raise HarnessError('merged replay divergence: take %d > avail %d at %d' % (c, avail, sock.pos))
            return c
        if ex.tail is not None:
            return ex.tail.take(sock, avail)
        # frontier: fingerprint the continuation
        f = sys._getframe(2)   # caller of ScriptSocket.recv
        frames = []
        boundary = ex.boundary
        while f is not None and f.f_code is not boundary:
            frames.append((f.f_code.co_name, f.f_lasti, canon(dict(f.f_locals), {})))
            f = f.f_back
        key = stable_hash((sock.pos, tuple(sock.out), tuple(frames)))
        ex.hit = (key, avail)
        raise Abort()


class _Diverged(Exception):
    pass


class AllSegmentations(object):
    """Explore every segmentation of ``stream`` for ``body(sock)``."""

    def __init__(self, body, stream, make_sock=None, validate_every=16, max_transitions=400000):
        self.body = body
        self.stream = stream
        self.make_sock = make_sock or (lambda ctl: ScriptSocket(stream, ctl))
        self.memo = {}
        self.execs = 0
        self.transitions = 0
        self.merged_hits = 0
        self.validated = 0
        self.validate_every = validate_every
        self.validation_failures = []
        self.max_transitions = max_transitions
        self.capped = False
        self.boundary = self._call.__code__
        self.tail = None
        self.terminals = set()
        self.max_outcomes = 4
        self.diverged = False

    def _call(self, sock):
        return self.body(sock)

    def run(self, prefix, tail=None):
        self.prefix, self.i, self.hit, self.tail = prefix, 0, None, tail
        self.execs += 1
        sock = self.make_sock(_MergedCtl(self))
        try:
            return self._call(sock)
        except Abort:
            return None

    def explore(self, prefix=()):
        """All terminal observations.  Stops early (``diverged``) as soon as more than ``max_outcomes``
        different observations have been seen: for a segmentation-independence oracle two are already a
        violation, and code that is not segmentation independent makes the state space explode."""
        try:
            return self._explore(prefix)
        except _Diverged:
            self.diverged = True
            return frozenset(self.terminals)

    def _explore(self, prefix=()):
        obs = self.run(prefix)
        if self.hit is None:
            self.terminals.add(obs)
            if len(self.terminals) > self.max_outcomes:
                raise _Diverged()
            return frozenset([obs])
        key, avail = self.hit
        if key in self.memo:
            self.merged_hits += 1
            if self.validate_every and self.merged_hits % self.validate_every == 0:
                self._validate(prefix, key)
            return self.memo[key]
        res = set()
        for take in range(avail, 0, -1):
            self.transitions += 1
            if self.transitions > self.max_transitions:
                self.capped = True
                break
            res |= self._explore(prefix + (take,))
        self.memo[key] = frozenset(res)
        return self.memo[key]

    def _validate(self, prefix, key):
        """Differential check of the merge: continue this very branch un-memoised with two fixed
        segmentations; the observations must belong to the memoised result set."""
        for mode in ('all', 'byte'):
            obs = self.run(prefix, tail=FixedCtl(mode))
            self.validated += 1
            if obs not in self.memo[key]:
                self.validation_failures.append((prefix, mode, obs, sorted(map(repr, self.memo[key]))[:3]))


def segmentations_upto(n, k):
    """All cut-position tuples with <= k cuts in a stream of n bytes (positions 1..n-1)."""
    import itertools
    for r in range(0, k + 1):
        for comb in itertools.combinations(range(1, n), r):
            yield comb
