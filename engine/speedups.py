"""Harness-side memoisation of third-party set-up costs (no behavioural change).

pysasl scans importlib entry points on every SASLAuth.named()/defaults() call (~11 ms); the set of
installed mechanisms cannot change during a run, so the (entry point name -> class) list is cached
and fresh mechanism objects are built from it on each call.
"""
import pysasl
from pysasl import SASLAuth, mechanism
from importlib.metadata import entry_points

_cache = []


def _get_builtin_mechanisms(cls):
    if not _cache:
        for ep in entry_points(group=mechanism.__package__):
            _cache.append((ep.load(), ep.name))
    for mech_cls, name in _cache:
        yield mech_cls(name)


def install():
    SASLAuth._get_builtin_mechanisms = classmethod(_get_builtin_mechanisms)


install()
