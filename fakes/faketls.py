"""Fake TLS for scripted sockets (E2).

``IO.encrypted`` is ``isinstance(sock, gevent.ssl.SSLSocket)``, so the fake is a subclass created
without running SSLSocket.__init__.  The wrapped ScriptSocket carries two byte channels: the clear
stream (``stream``) and the TLS stream (``tls_stream``).  After ``wrap_socket`` all reads come from
the TLS channel only.  A real handshake fed clear-text bytes fails, so unread clear bytes at wrap
time raise SSLError -- the only way clear bytes can survive a handshake is through the library's own
buffers, which is exactly what C08 looks for.
"""
import gevent.ssl
from gevent.ssl import SSLError


class FakeSSLSocket(gevent.ssl.SSLSocket):
    def __new__(cls, *a, **k):
        return object.__new__(cls)

    def __init__(self, inner, server_side):
        self._in = inner
        self._server_side = server_side
        self.tls_out = []

    def __canon__(self):
        return ('FakeSSLSocket', self._in.__canon__(), len(self.tls_out))

    # reads come from the TLS channel of the script
    def recv(self, n=4096, *flags):
        return self._in.recv(n)

    def recv_into(self, view, nbytes=0, *flags):
        return self._in.recv_into(view, nbytes)

    def sendall(self, data, *flags):
        self._in.out.append(bytes(data))
        self._in.tls_marks.append(len(self._in.out) - 1)

    def send(self, data, *flags):
        self.sendall(data)
        return len(data)

    def unwrap(self):
        return self._in

    def close(self):
        self._in.close()

    def fileno(self):
        return -1

    def getpeername(self):
        return self._in.getpeername()

    def getsockname(self):
        return self._in.getsockname()

    def settimeout(self, t):
        pass

    def shutdown(self, *a):
        pass

    def __del__(self):
        pass


class FakeContext(object):
    """Stands in for ssl.SSLContext on scripted sockets."""

    def __init__(self, fail=False):
        self.fail = fail
        self.wraps = 0

    def __canon__(self):
        return ('FakeContext', self.fail, self.wraps)

    def session_stats(self):
        return {}

    def wrap_socket(self, sock, server_side=False, server_hostname=None, **kw):
        self.wraps += 1
        if self.fail:
            raise SSLError(1, 'scripted handshake failure')
        switch = getattr(sock, 'switch_to_tls', None)
        if switch is None:
            raise SSLError(1, 'socket cannot do TLS')
        switch()          # raises SSLError when clear-text bytes are still unread
        return FakeSSLSocket(sock, server_side)
