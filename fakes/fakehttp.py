"""Scripted HTTP/1.1 origin server over a VSocket: reads one request (headers + Content-Length body),
records it, and answers with scripted bytes -- or stalls / drops the connection."""
import gevent
import gevent.event


class HttpPeer(object):
    def __init__(self, sock, responder):
        """responder(request_dict, k) -> bytes | ('partial', bytes) | 'drop' | 'stall' | ('stall-after', bytes) | ('trickle-body', head, body, dt)"""
        self.sock = sock
        self.responder = responder
        self.requests = []
        self.buf = b''

    def _fill(self):
        d = self.sock.recv(65536)
        if not d:
            raise EOFError()
        self.buf += d

    def run(self):
        try:
            while True:
                while b'\r\n\r\n' not in self.buf:
                    self._fill()
                head, self.buf = self.buf.split(b'\r\n\r\n', 1)
                lines = head.split(b'\r\n')
                headers = []
                for l in lines[1:]:
                    k, _, v = l.partition(b':')
                    headers.append((k.strip().decode('latin-1'), v.strip().decode('latin-1')))
                clen = int(dict((k.lower(), v) for k, v in headers).get('content-length', '0'))
                while len(self.buf) < clen:
                    self._fill()
                body, self.buf = self.buf[:clen], self.buf[clen:]
                req = {'line': lines[0].decode('latin-1'), 'headers': headers, 'body': body}
                k = len(self.requests)
                self.requests.append(req)
                r = self.responder(req, k)
                if r == 'drop':
                    self.sock.close()
                    return
                if r == 'stall':
                    gevent.event.Event().wait()
                if isinstance(r, tuple) and r[0] == 'partial':
                    self.sock.sendall(r[1])
                    self.sock.close()
                    return
                if isinstance(r, tuple) and r[0] == 'trickle-body':
                    # ('trickle-body', head, body, dt): the header block at once, then one body byte every dt seconds
                    self.sock.sendall(r[1])
                    for i in range(len(r[2])):
                        gevent.sleep(r[3])
                        self.sock.sendall(r[2][i:i + 1])
                    continue
                if isinstance(r, tuple) and r[0] == 'stall-after':
                    self.sock.sendall(r[1])
                    gevent.event.Event().wait()
                self.sock.sendall(r)
        except (EOFError, OSError):
            pass


def response(status, reason, headers=(), body=b''):
    out = ('HTTP/1.1 %d %s\r\n' % (status, reason)).encode()
    hs = list(headers) + [('Content-Length', str(len(body)))]
    for k, v in hs:
        out += ('%s: %s\r\n' % (k, v)).encode('latin-1')
    return out + b'\r\n' + body
