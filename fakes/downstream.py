"""Scripted SMTP / LMTP peer for relay-client worlds (C11, C14, C19, C01-real-relays).

``script`` maps a stage name to an outcome; every stage not mentioned answers with its normal 2xx/3xx
reply.  Stages: banner, ehlo, helo, starttls, tls (the handshake itself), auth, mail, rcpt<i>, data,
eod (SMTP) / eod<i> (LMTP, i = index among the accepted recipients), rset, quit.
Outcomes: '2' success, '4' -> 451, '5' -> 550, '500' (EHLO: triggers HELO fallback), '5+close' / '4+close' (the reply, then the connection is closed at once), 'malformed'
(a line that is no reply), 'badcode' (three digits outside 1xx-5xx), 'disconnect', 'stall' (never
answer), '334-bad' (AUTH: a 334 challenge that is not base64), ('trickle', dt) (one byte of the reply every dt seconds), ('delay', dt) (the normal reply, dt
seconds late), '251' (RCPT: accepted with 251), 'stall-after-334' (AUTH).
The peer records what it positively accepted so that the oracle can compute the truth.
"""
import gevent
import gevent.event

from gevent.ssl import SSLError

CODES = {'banner': '220', 'ehlo': '250', 'helo': '250', 'starttls': '220', 'auth': '235', 'mail': '250',
         'rcpt': '250', 'data': '354', 'eod': '250', 'rset': '250', 'quit': '221'}


class Disconnect(Exception):
    pass


def _addr(line):
    """address between the first '<' and the matching '>' ('>' inside a quoted string does not count)."""
    try:
        i = line.index(b'<') + 1
    except ValueError:
        return line
    j, quoted = i, False
    while j < len(line):
        c = line[j:j + 1]
        if c == b'\\' and quoted:
            j += 2
            continue
        if c == b'"':
            quoted = not quoted
        elif c == b'>' and not quoted:
            return line[i:j]
        j += 1
    return line[i:]


class ScriptedPeer(object):
    def __init__(self, sock, script=None, lmtp=False, context=None, pipelining=True, auth=False,
                 size=None, eightbit=True, name='mx', tag_replies=True, tls_immediately=False, eightbit_after_tls=None, extra_exts=()):
        self.sock = sock
        self.script = dict(script or {})
        self.lmtp = lmtp
        self.context = context
        self.pipelining = pipelining
        self.auth = auth
        self.size = size
        self.eightbit = eightbit
        self.extra_exts = list(extra_exts)
        self.eightbit_after_tls = eightbit if eightbit_after_tls is None else eightbit_after_tls
        self.tls_immediately = tls_immediately
        self.buf = b''
        self.log = []                 # (stage, outcome)
        self.commands = []
        self.transactions = []        # dicts: sender, rcpts(list of (rcpt, accepted)), data(bytes or None), results
        self.cur = None
        self.violations = []
        self.need_reset = False
        self.tls = False
        self.closed = False
        self.stalled = None
        self.tag_replies = tag_replies
        self.push_after_ehlo = None
        self.after_transaction = None  # callable(peer) -> True: push a 421 and close after a message (C19)

    # ---- io helpers
    def _send(self, data):
        try:
            self.sock.sendall(data)
        except Exception:
            raise Disconnect()

    def _readline(self):
        while b'\n' not in self.buf:
            try:
                d = self.sock.recv(4096)
            except SSLError:
                raise Disconnect()
            except Exception:
                raise Disconnect()
            if not d:
                raise Disconnect()
            self.buf += d
        line, self.buf = self.buf.split(b'\n', 1)
        return line.rstrip(b'\r')

    def _reply(self, stage, base, text, multi=None):
        """Send the scripted outcome for ``stage``; returns the outcome class actually given."""
        txn = max(0, len(self.transactions) - 1)
        out = self.script.get('%s@%d' % (stage, txn), self.script.get(stage, '2'))
        self.log.append((stage, out, txn))
        code = CODES[base]
        if out == '2':
            lines = multi if multi is not None else [text]
        elif out == '251':
            code, lines = '251', ['2.1.5 user not local; will forward']
            self._send(self._format(code, lines))
            return '2'
        elif isinstance(out, (tuple, list)) and out[0] == 'delay':
            gevent.sleep(out[1])            # the whole (normal) reply, late
            self._send(self._format(code, multi if multi is not None else [text]))
            return '2'
        elif out == '4':
            code, lines = '451', ['4.3.0 scripted temporary failure at %s%s' % (stage, self._tag())]
        elif out == '5':
            code, lines = '550', ['5.3.0 scripted permanent failure at %s%s' % (stage, self._tag())]
        elif out in ('5+close', '4+close'):
            # the reply, then the peer hangs up at once (the client finds the connection gone when it sends its next command)
            code = '554' if out[0] == '5' else '451'
            self._send(self._format(code, ['%s.3.0 scripted failure at %s, closing connection%s' % (out[0], stage, self._tag())]))
            self.sock.close()
            self.closed = True
            raise Disconnect()
        elif out in ('5x', '4x'):
            # an ordinary failure code whose text starts with a status-code look-alike of a class that does not exist
            code, lines = ('550', ['0.0.0 odd status at %s%s' % (stage, self._tag())]) if out == '5x' else ('451', ['7.1.1 odd status at %s%s' % (stage, self._tag())])
            self._send(self._format(code, lines))
            return out[0]
        elif out == '500':
            code, lines = '500', ['5.5.2 command not recognized']
        elif out == '421':
            code, lines = '421', ['4.3.2 scripted shutdown at %s' % stage]
        elif out == 'malformed':
            self._send(b'this is not an SMTP reply\r\n')
            return out
        elif out == 'badcode':
            self._send(b'999 code outside the defined classes\r\n')
            return out
        elif out == '334-extra':
            self._send(b'334 bW9yZQ==\r\n')      # one more (well-formed) challenge than the mechanism has, then the verdict
            self._readline()
            self._send(self._format(code, [text]))
            return '2'
        elif out == '334-bad':
            self._send(b'334 abc\r\n')           # a challenge that is not base64 (wrong padding)
            return out
        elif out == 'disconnect':
            self.sock.close()
            self.closed = True
            raise Disconnect()
        elif out == 'stall':
            self.stalled = stage
            gevent.event.Event().wait()
        elif isinstance(out, (tuple, list)) and out[0] == 'trickle':
            lines = multi if multi is not None else [text]
            data = self._format(code, lines)
            for i in range(len(data)):
                gevent.sleep(out[1])
                self._send(data[i:i + 1])
            return '2'
        else:
            raise ValueError(out)
        self._send(self._format(code, lines))
        return out

    def _tag(self):
        """' for <sender>' inside a transaction: lets an oracle see whose transaction a reply belongs to"""
        if self.tag_replies and self.cur is not None and self.cur.get('sender') is not None:
            return ' for ' + self.cur['sender'].decode('latin-1')
        return ''

    @staticmethod
    def _format(code, lines):
        data = b''
        for i, l in enumerate(lines):
            data += code.encode() + (b' ' if i == len(lines) - 1 else b'-') + l.encode('utf-8') + b'\r\n'
        return data

    # ---- session
    def run(self):
        try:
            self._run()
        except Disconnect:
            pass
        finally:
            self.closed = True

    def _handshake(self):
        out = self.script.get('tls', '2')
        self.log.append(('tls', out, 0))
        if out == 'stall':
            self.stalled = 'tls'
            gevent.event.Event().wait()
        try:
            self.sock = self.context.wrap_socket(self.sock, server_side=True)
        except SSLError:
            raise Disconnect()
        self.tls = True
        self.buf = b''

    def _run(self):
        import gevent.event  # noqa
        if self.tls_immediately:
            self._handshake()
        self._reply('banner', 'banner', 'mx ESMTP scripted')
        while True:
            line = self._readline()
            self.commands.append(line)
            up = line.upper()
            word = up.split(b' ', 1)[0]
            if word in (b'EHLO', b'LHLO'):
                exts = ['mx.test']
                if (self.eightbit_after_tls if self.tls else self.eightbit):
                    exts.append('8BITMIME')
                if self.pipelining:
                    exts.append('PIPELINING')
                if self.size:
                    exts.append('SIZE %d' % self.size)
                if self.context is not None and not self.tls:
                    exts.append('STARTTLS')
                if self.auth:
                    # auth=True: the usual line; a string: that line (mechanisms the client may not know, or none at all)
                    exts.append('AUTH PLAIN LOGIN' if self.auth is True else self.auth)
                exts.append('ENHANCEDSTATUSCODES')
                exts.extend(getattr(self, 'extra_exts', []))
                self._reply('ehlo', 'ehlo', None, multi=exts)
                self.cur = None
                if self.push_after_ehlo:
                    self._send(self.push_after_ehlo)       # unsolicited bytes (e.g. the start of a 421 line)
            elif word == b'HELO':
                self._reply('helo', 'helo', 'mx.test')
                self.cur = None
            elif word == b'STARTTLS':
                if self._reply('starttls', 'starttls', '2.0.0 ready') == '2':
                    self._handshake()
            elif word == b'AUTH':
                if self.script.get('auth') == 'stall-after-334':
                    self._send(b'334 \r\n')
                    self.stalled = 'auth-334'
                    gevent.event.Event().wait()
                self._reply('auth', 'auth', '2.7.0 ok')
            elif word == b'MAIL':
                if self.cur is not None and self.cur.get('open'):
                    self.violations.append('MAIL inside an open transaction')
                if self.need_reset:
                    self.violations.append('MAIL after a failed transaction without RSET')
                self.cur = {'sender': _addr(line), 'rcpts': [], 'data': None, 'results': None, 'open': False, 'mail_ok': False}
                self.transactions.append(self.cur)
                if self._reply('mail', 'mail', '2.1.0 sender ok') == '2':
                    self.cur['open'] = True
                    self.cur['mail_ok'] = True
            elif word == b'RCPT':
                i = len(self.cur['rcpts']) if self.cur else 0
                ok = False
                if self.cur is None or not self.cur['mail_ok']:
                    self._send(('503 5.5.1 need MAIL first%s\r\n' % self._tag()).encode('latin-1'))
                else:
                    ok = self._reply('rcpt%d' % i, 'rcpt', '2.1.5 recipient ok') == '2'
                if self.cur is not None:
                    self.cur['rcpts'].append((_addr(line), ok))
            elif word == b'DATA':
                acc = [r for r, ok in self.cur['rcpts'] if ok] if self.cur and self.cur['mail_ok'] else []
                if not acc and self.script.get('data354') and self.cur is not None:
                    # a server that answers DATA with 354 although it refused every recipient (some do); whatever follows the
                    # data is scripted as stage 'eod'
                    self._send(b'354 go ahead (no valid recipients)\r\n')
                    self._read_data()
                    self._reply('eod', 'eod', '5.5.1 no valid recipients')
                    self.need_reset = True
                    continue
                if not acc:
                    self._send(('503 5.5.1 no valid recipients%s\r\n' % self._tag()).encode('latin-1'))
                    self.need_reset = True
                    continue
                if self._reply('data', 'data', 'go ahead') != '2':
                    self.need_reset = True
                    continue
                if self.script.get('read_pause'):
                    # the peer said 354 and then does not read for a while (its receive window fills up)
                    self.stalled = 'content'
                    gevent.sleep(self.script['read_pause'])
                body = self._read_data()
                self.cur['data'] = body
                tag = ''
                if self.tag_replies:
                    tag = ' for ' + self.cur['sender'].decode('latin-1')
                if self.lmtp:
                    res = []
                    self.cur['results'] = res          # filled as the replies go out (a reply may be the last thing the peer does)
                    for j, r in enumerate(acc):
                        res.append((r, self._reply('eod%d' % j, 'eod', '2.0.0 delivered' + tag) == '2'))
                    if not all(ok for _, ok in res):
                        self.need_reset = True
                else:
                    ok = self._reply('eod', 'eod', '2.0.0 queued' + tag) == '2'
                    self.cur['results'] = [(r, ok) for r in acc]
                    if not ok:
                        self.need_reset = True
                self.cur['open'] = False
                if self.after_transaction is not None and self.after_transaction(self):
                    # server-initiated shutdown between messages
                    self._send(b'421 4.4.2 idle, closing connection\r\n')
                    self.sock.close()
                    raise Disconnect()
            elif word == b'RSET':
                self._reply('rset', 'rset', 'ok')
                self.need_reset = False
                if self.cur is not None:
                    self.cur['open'] = False
            elif word == b'NOOP':
                self._send(b'250 ok\r\n')
            elif word == b'QUIT':
                self._reply('quit', 'quit', 'bye')
                self.sock.close()
                return
            else:
                self._send(b'500 5.5.2 unknown\r\n')

    def _read_data(self):
        """raw message content up to the end-of-data line; bare CR / LF inside the content are kept as they are."""
        while True:
            if self.buf.startswith(b'.\r\n'):
                raw, self.buf = b'', self.buf[3:]
                break
            i = self.buf.find(b'\r\n.\r\n')
            if i >= 0:
                raw, self.buf = self.buf[:i + 2], self.buf[i + 5:]
                break
            try:
                d = self.sock.recv(4096)
            except Exception:
                raise Disconnect()
            if not d:
                raise Disconnect()
            self.buf += d
        # undo dot-stuffing: a dot at the start of a line (after LF or at the very beginning)
        out = bytearray()
        at_line_start = True
        for b in raw:
            if at_line_start and b == 0x2e:
                at_line_start = False
                continue
            out.append(b)
            at_line_start = b == 0x0a
        return bytes(out)

    # ---- truth for the oracle
    def accepted(self):
        """set of (sender, rcpt) the peer positively accepted (RCPT 2xx and end-of-data 2xx)."""
        acc = set()
        for t in self.transactions:
            for r, ok in (t['results'] or []):
                if ok:
                    acc.add((t['sender'], r))
        return acc
