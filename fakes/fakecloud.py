"""In-memory object store / message queue with the semantics of slimta.cloudstorage.aws
(SimpleStorageService / SimpleQueueService), which cannot be imported here (boto 2.49 is broken on
Python 3.12).  Envelope pickled on write, metadata JSON round-tripped, an unset 'attempts' or
'delivered_indexes' is *absent* from the returned meta dict exactly as in aws.py, ids are
``prefix + str(uuid4())``; unknown ids raise KeyError.
"""
import json
import pickle
import uuid as _uuid


class FakeObjectStore(object):
    def __init__(self, uuid4=None, yield_hook=None):
        self.objects = {}       # id -> {'body': bytes, 'meta': {name: json str}}
        self.uuid4 = uuid4 or _uuid.uuid4
        self.yield_hook = yield_hook
        self.prefix = 'msg-'

    def _tick(self, name):
        if self.yield_hook is not None:
            self.yield_hook(name)

    def _get(self, id):
        o = self.objects.get(id)
        if o is None:
            raise KeyError(id)
        return o

    def write_message(self, envelope, timestamp):
        self._tick('write_message')
        id = self.prefix + str(getattr(self.uuid4(), 'hex', None) or self.uuid4())
        raw = pickle.dumps(envelope, pickle.HIGHEST_PROTOCOL)
        self.objects[id] = {'body': raw, 'meta': {'timestamp': json.dumps(timestamp), 'attempts': '',
                                                   'delivered_indexes': ''}}
        return id

    def set_message_meta(self, id, timestamp=None, attempts=None, delivered_indexes=None):
        self._tick('set_message_meta')
        o = self._get(id)
        if timestamp is not None:
            o['meta']['timestamp'] = json.dumps(timestamp)
        if attempts is not None:
            o['meta']['attempts'] = json.dumps(attempts)
        if delivered_indexes is not None:
            o['meta']['delivered_indexes'] = json.dumps(delivered_indexes)

    def delete_message(self, id):
        self._tick('delete_message')
        self._get(id)
        del self.objects[id]

    def _meta(self, o):
        meta = {'timestamp': json.loads(o['meta']['timestamp'])}
        if o['meta']['attempts']:
            meta['attempts'] = json.loads(o['meta']['attempts'])
        if o['meta']['delivered_indexes']:
            meta['delivered_indexes'] = json.loads(o['meta']['delivered_indexes'])
        return meta

    def get_message(self, id):
        self._tick('get_message')
        o = self._get(id)
        return pickle.loads(o['body']), self._meta(o)

    def get_message_meta(self, id):
        self._tick('get_message_meta')
        return self._meta(self._get(id))

    def list_messages(self):
        self._tick('list_messages')
        # aws.py does ``timestamp, attempts = self.get_message_meta(id)`` (unpacks the dict's keys!);
        # the documented contract is (timestamp, id) pairs, which is what this fake yields.
        for id in list(self.objects):
            yield (self._meta(self.objects[id])['timestamp'], id)


class FakeMessageQueue(object):
    """poll() yields what was queued; sleep() blocks until something new is queued."""

    def __init__(self):
        self.pending = []
        self.deleted = []
        self.waiters = []

    def queue_message(self, storage_id, timestamp):
        self.pending.append((timestamp, storage_id, 'm%d' % (len(self.deleted) + len(self.pending))))
        ws, self.waiters = self.waiters, []
        for w in ws:
            w.set(None)

    def poll(self):
        msgs, self.pending = self.pending, []
        for m in msgs:
            yield m

    def delete(self, message_id):
        self.deleted.append(message_id)

    def sleep(self):
        from gevent.event import AsyncResult
        if self.pending:
            return
        w = AsyncResult()
        self.waiters.append(w)
        w.get()
