"""In-memory stand-in for the redis-py client, limited to the commands slimta.redisstorage uses.

Replies follow redis-py defaults (decode_responses=False): values and keys come back as ``bytes``,
counters as ``int``.  Numbers given as values are stored the way redis-py encodes them
(``repr(float)``, ``str(int)``).  A hash command on a list key raises ResponseError (WRONGTYPE) as a
real server does.  ``yield_hook`` (if set) is called at the start of every command: the world uses it
to turn each command into an environment event (overlapping operations).
No redis server exists in this image, so this fake cannot be replayed against the real thing; that
is recorded as an assumption in the evidence of every check that uses it.
"""
import fnmatch

try:
    from redis.exceptions import ResponseError
except Exception:                                  # pragma: no cover
    class ResponseError(Exception):
        pass


def _enc(v):
    if isinstance(v, bytes):
        return v
    if isinstance(v, bool):
        raise TypeError('redis-py refuses bool')
    if isinstance(v, float):
        return repr(v).encode()
    if isinstance(v, int):
        return str(v).encode()
    if isinstance(v, str):
        return v.encode('utf-8')
    raise TypeError('Invalid input of type %s' % type(v).__name__)


class FakeRedis(object):
    def __init__(self, world=None):
        self.data = {}            # key(bytes) -> dict(field bytes -> value bytes) | list of bytes
        self.world = world
        self.yield_hook = None
        self.blocked = []         # AsyncResults of blpop waiters
        self.commands = 0

    def _tick(self, name):
        self.commands += 1
        if self.yield_hook is not None:
            self.yield_hook(name)

    def _hash(self, key, create=False):
        key = _enc(key)
        v = self.data.get(key)
        if v is None:
            if not create:
                return None
            v = self.data[key] = {}
        if not isinstance(v, dict):
            raise ResponseError('WRONGTYPE Operation against a key holding the wrong kind of value')
        return v

    # ---- hash commands
    def hsetnx(self, key, field, value):
        self._tick('hsetnx')
        h = self._hash(key, True)
        f = _enc(field)
        if f in h:
            return 0
        h[f] = _enc(value)
        if len(h) == 1 and getattr(self, 'on_new_hash', None) is not None:
            self.on_new_hash(key)          # harness bookkeeping: a new record exists from this instant on
        return 1

    def hset(self, key, field, value):
        self._tick('hset')
        h = self._hash(key, True)
        f = _enc(field)
        new = 0 if f in h else 1
        h[f] = _enc(value)
        return new

    def hmset(self, key, mapping):
        self._tick('hmset')
        h = self._hash(key, True)
        for f, v in mapping.items():
            h[_enc(f)] = _enc(v)
        return True

    def hget(self, key, field):
        self._tick('hget')
        h = self._hash(key)
        if h is None:
            return None
        return h.get(_enc(field))

    def hmget(self, key, *fields):
        self._tick('hmget')
        if len(fields) == 1 and isinstance(fields[0], (list, tuple)):
            fields = fields[0]
        h = self._hash(key) or {}
        return [h.get(_enc(f)) for f in fields]

    def hincrby(self, key, field, amount=1):
        self._tick('hincrby')
        h = self._hash(key, True)
        f = _enc(field)
        n = int(h.get(f, b'0')) + amount
        h[f] = str(n).encode()
        return n

    # ---- generic
    def keys(self, pattern='*'):
        self._tick('keys')
        pat = _enc(pattern).decode('latin-1')
        return [k for k in list(self.data) if fnmatch.fnmatchcase(k.decode('latin-1'), pat)]

    def delete(self, *keys):
        self._tick('delete')
        n = 0
        for k in keys:
            if self.data.pop(_enc(k), None) is not None:
                n += 1
        return n

    # ---- list commands
    def rpush(self, key, *values):
        self._tick('rpush')
        key = _enc(key)
        lst = self.data.setdefault(key, [])
        if not isinstance(lst, list):
            raise ResponseError('WRONGTYPE Operation against a key holding the wrong kind of value')
        lst.extend(_enc(v) for v in values)
        self._wake()
        return len(lst)

    def _wake(self):
        waiters, self.blocked = self.blocked, []
        for w in waiters:
            w.set(None)

    def blpop(self, keys, timeout=0):
        self._tick('blpop')
        from gevent.event import AsyncResult
        if isinstance(keys, (str, bytes)):
            keys = [keys]
        while True:
            for k in keys:
                kk = _enc(k)
                lst = self.data.get(kk)
                if isinstance(lst, list) and lst:
                    v = lst.pop(0)
                    if not lst:
                        del self.data[kk]
                    return (kk, v)
            w = AsyncResult()
            self.blocked.append(w)
            w.get()           # blocks until the next rpush (timeout 0 = forever)

    def pipeline(self):
        return _Pipe(self)


class ConcurrentUse(Exception):
    """stands for gevent.exceptions.ConcurrentObjectUseError"""


class _Pipe(object):
    def __init__(self, r):
        self.r = r
        self.ops = []
        self.in_flight = False

    def __getattr__(self, name):
        def add(*a, **k):
            self.ops.append((name, a, k))
            return self
        return add

    def execute(self):
        # as redis-py does it: the queued commands are taken (packed) when execute() is called, the round trip may yield, and
        # the pipeline object hands itself back empty afterwards -- whatever was queued on it in the meantime is gone
        stack = list(self.ops)
        if self.in_flight:
            # one pipeline object holds one connection while it executes; gevent refuses a second waiter on that socket
            raise ConcurrentUse('This socket is already used by another greenlet')
        self.in_flight = True
        try:
            if not stack:
                return []
            self.r._tick('pipeline-execute')
            hook, self.r.yield_hook = self.r.yield_hook, None     # MULTI/EXEC is atomic
            try:
                out = [getattr(self.r, n)(*a, **k) for n, a, k in stack]
            finally:
                self.r.yield_hook = hook
            self.r._tick('pipeline-reply')        # the commands have taken effect on the server, the reply is still on its way
            return out
        finally:
            self.in_flight = False
            self.ops = []


def make_storage(world, prefix='slimta:'):
    """A RedisStorage built by its own constructor; only the client library underneath is the fake."""
    import types
    import slimta.redisstorage as rs
    fake = FakeRedis()
    world.patch(rs, 'redis', types.SimpleNamespace(ConnectionPool=lambda **kw: ('pool', kw),
                                                   StrictRedis=lambda connection_pool=None, **kw: fake))
    st = rs.RedisStorage(prefix=prefix)
    assert st.redis is fake
    return st, fake
