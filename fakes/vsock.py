"""In-memory duplex stream sockets for the virtual loop (E1), with a fake TLS layer.

Each direction is a list of segments ``[tag, bytearray]`` with tag 'c' (clear) or 't' (TLS).  A TLS
socket that meets clear bytes raises SSLError; a clear socket that meets TLS bytes receives garbage
(like reading ciphertext).  ``VContext.wrap_socket`` performs a two-way hello exchange, so a peer that
never starts the handshake makes it block (stall points of C14).  recv() blocks the calling greenlet
on a gevent Event until data, EOF or close; an optional ``chooser`` decides short reads.
"""
import io
import socket as _socket

import gevent
import gevent.ssl
from gevent.event import Event
from gevent.ssl import SSLError

HELLO = b'\x16HELLO'


class _Dir(object):
    def __init__(self):
        self.segs = []          # [tag, bytearray]
        self.eof = False
        self.ev = Event()
        self.total = 0
        self.chunked = False        # True: every sendall() stays a segment of its own (recv returns at most one)
        self.cap = None             # int: at most this many unread bytes fit (the peer's window); sendall() blocks beyond
        self.space_ev = Event()

    def put(self, tag, data):
        if self.segs and self.segs[-1][0] == tag and not self.chunked:
            self.segs[-1][1] += data
        else:
            self.segs.append([tag, bytearray(data)])
        self.total += len(data)
        self.ev.set()

    def avail(self):
        return sum(len(s[1]) for s in self.segs)


class VSocket(object):
    def __init__(self, rx, tx, name, net=None, peername=('192.0.2.10', 25), chooser=None):
        self.rx, self.tx, self.name = rx, tx, name
        self.net = net
        self.peername = peername
        self.chooser = chooser
        self.is_closed = False
        self.sent_log = []
        self.timeout = None
        self._io_refs = 0
        self.on_send = None

    # --- receiving
    def _wait_readable(self):
        while not self.rx.segs and not self.rx.eof and not self.is_closed:
            self.rx.ev.clear()
            self.rx.ev.wait()

    def _take(self, n, want_tag):
        self._wait_readable()
        if self.is_closed:
            raise _socket.error(9, 'Bad file descriptor')
        if not self.rx.segs:
            return b''
        tag, buf = self.rx.segs[0]
        if tag != want_tag:
            if want_tag == 't':
                raise SSLError(1, '[SSL: WRONG_VERSION_NUMBER] clear-text bytes on a TLS channel')
            data = bytes(b ^ 0xA5 for b in buf[:n])       # ciphertext seen as garbage
            del buf[:len(data)]
            if not buf:
                self.rx.segs.pop(0)
            return data
        avail = min(n, len(buf))
        take = avail
        if self.chooser is not None and avail > 1:
            take = avail - self.chooser.choose(avail, 'recv:%s' % self.name, 'sched')
        data = bytes(buf[:take])
        del buf[:take]
        if not buf:
            self.rx.segs.pop(0)
        self.rx.space_ev.set()
        return data

    def recv(self, n=4096, *flags):
        return self._take(n, 'c')

    def recv_into(self, view, nbytes=0, *flags):
        d = self.recv(nbytes or len(view))
        view[:len(d)] = d
        return len(d)

    def readable(self):
        return bool(self.rx.segs) or self.rx.eof

    # --- sending
    def _put(self, tag, data):
        if self.is_closed:
            raise _socket.error(9, 'Bad file descriptor')
        if self.tx.eof:
            raise _socket.error(32, 'Broken pipe')
        data = bytes(data)
        self.sent_log.append((tag, data))
        if self.on_send is not None:
            self.on_send(self, tag, data)
        self.tx.put(tag, data)

    def sendall(self, data, *flags):
        if self.tx.cap is None:
            self._put('c', data)
            return
        # a peer that does not read: what does not fit waits (a gevent.Timeout around the call fires inside this wait, with
        # part of the data already gone)
        data = bytes(data)
        while data:
            space = self.tx.cap - self.tx.avail()
            if space <= 0:
                if self.is_closed:
                    raise _socket.error(9, 'Bad file descriptor')
                if self.rx.eof:
                    raise _socket.error(32, 'Broken pipe')       # the peer is gone: nobody will ever make room
                self.tx.space_ev.clear()
                self.tx.space_ev.wait()
                continue
            self._put('c', data[:space])
            data = data[space:]

    def send(self, data, *flags):
        self._put('c', data)
        return len(data)

    # --- misc
    def close(self):
        if self.is_closed:
            return
        self.is_closed = True
        self.tx.eof = True
        self.tx.ev.set()
        self.rx.ev.set()
        self.rx.space_ev.set()
        self.tx.space_ev.set()
        if self.net is not None:
            self.net.closed(self)

    def shutdown(self, how=None):
        self.tx.eof = True
        self.tx.ev.set()

    def fileno(self):
        return -1

    def getpeername(self):
        return self.peername

    def getsockname(self):
        return ('192.0.2.20', 40000)

    def settimeout(self, t):
        self.timeout = t

    def gettimeout(self):
        return self.timeout

    def setsockopt(self, *a):
        pass

    def setblocking(self, b):
        pass

    # http.client needs makefile()
    def makefile(self, mode='r', buffering=None, **kw):
        raw = _socket.SocketIO(self, 'rb' if 'r' in mode else 'wb')
        self._io_refs += 1
        if 'r' in mode:
            return io.BufferedReader(raw, 8192)
        return io.BufferedWriter(raw, 8192)

    def _decref_socketios(self):
        if self._io_refs > 0:
            self._io_refs -= 1


class VSSLSocket(gevent.ssl.SSLSocket):
    """TLS view of a VSocket: same buffers, 't' tagged."""

    def __new__(cls, *a, **k):
        return object.__new__(cls)

    def __init__(self, inner):
        self._in = inner

    def recv(self, n=4096, *flags):
        return self._in._take(n, 't')

    def recv_into(self, view, nbytes=0, *flags):
        d = self.recv(nbytes or len(view))
        view[:len(d)] = d
        return len(d)

    def sendall(self, data, *flags):
        self._in._put('t', data)

    def send(self, data, *flags):
        self._in._put('t', data)
        return len(data)

    def unwrap(self):
        return self._in

    def close(self):
        self._in.close()

    def shutdown(self, how=None):
        self._in.shutdown(how)

    def fileno(self):
        return -1

    def getpeername(self):
        return self._in.getpeername()

    def getsockname(self):
        return self._in.getsockname()

    def settimeout(self, t):
        self._in.settimeout(t)

    def gettimeout(self):
        return self._in.gettimeout()

    def setsockopt(self, *a):
        pass

    def makefile(self, mode='r', buffering=None, **kw):
        raw = _socket.SocketIO(self, 'rb' if 'r' in mode else 'wb')
        self._in._io_refs += 1
        return io.BufferedReader(raw, 8192) if 'r' in mode else io.BufferedWriter(raw, 8192)

    def _decref_socketios(self):
        self._in._decref_socketios()

    @property
    def sent_log(self):
        return self._in.sent_log

    def readable(self):
        return self._in.readable()

    def __del__(self):
        pass


class VContext(object):
    """Stand-in for ssl.SSLContext on VSockets.  ``fail`` makes the handshake fail."""

    def __init__(self, fail=False):
        self.fail = fail
        self.wrapped = 0

    def session_stats(self):
        return {}

    def wrap_socket(self, sock, server_side=False, server_hostname=None, **kw):
        inner = sock._in if isinstance(sock, VSSLSocket) else sock
        if self.fail:
            raise SSLError(1, 'scripted handshake failure')
        inner._put('t', HELLO)
        got = b''
        while len(got) < len(HELLO):
            d = inner._take(len(HELLO) - len(got), 't')     # blocks until the peer says hello
            if d == b'':
                raise SSLError(8, 'EOF occurred in violation of protocol')
            got += d
        if got != HELLO:
            raise SSLError(1, 'bad handshake')
        self.wrapped += 1
        return VSSLSocket(inner)


class Net(object):
    """Connection factory + bookkeeping of open connections (C19's live-connection bound)."""

    def __init__(self, world=None):
        self.world = world
        self.open = set()
        self.max_open = 0
        self.connections = 0
        self.log = []

    def pair(self, peername=('192.0.2.10', 25), chooser=None, chunked=False, capacity=None, capacity_back=None):
        a, b = _Dir(), _Dir()
        a.chunked = b.chunked = chunked
        b.cap = capacity            # client -> server direction
        a.cap = capacity_back       # server -> client direction (a client that does not read its replies)
        client = VSocket(a, b, 'client%d' % self.connections, self, peername, chooser)
        server = VSocket(b, a, 'server%d' % self.connections, self, ('192.0.2.20', 40000), chooser)
        client.peer, server.peer = server, client
        self.connections += 1
        self.open.add(client)
        self.max_open = max(self.max_open, len(self.open))
        return client, server

    def closed(self, sock):
        self.open.discard(sock)
        self.open.discard(getattr(sock, 'peer', None)) if False else None
