"""Stand-in for gevent.subprocess inside slimta.relay.pipe: Popen objects answer from a script."""
import gevent
import gevent.event


class FakeSubprocess(object):
    PIPE = -1

    def __init__(self, script):
        """script: callable(args, stdin, k) -> (returncode, stdout, stderr) | 'block' | ('sleep', seconds, (rc, out, err)) ; k = call index"""
        self.script = script
        self.calls = []

    def Popen(self, args, stdin=None, stdout=None, stderr=None, **kw):
        return _P(self, args)


class _P(object):
    def __init__(self, sp, args):
        self.sp = sp
        self.args = args
        self.pid = 4000 + len(sp.calls)
        self.returncode = None

    def communicate(self, stdin=None):
        k = len(self.sp.calls)
        self.sp.calls.append((list(self.args), stdin))
        r = self.sp.script(self.args, stdin, k)
        if r == 'block':
            gevent.event.Event().wait()
        if isinstance(r, tuple) and r and r[0] == 'sleep':
            gevent.sleep(r[1])                 # a slow but not stuck command: ('sleep', seconds, (rc, out, err))
            r = r[2]
        self.returncode, out, err = r
        return out, err
