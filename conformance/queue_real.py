"""Conformance of the virtual gevent loop: the same queue scenario (real Queue, DictStorage, scripted
relay outcomes, default schedule) is run once on the virtual loop and once on the REAL gevent loop
with real (scaled) time; the sequences of relay attempts and the final storage must agree."""
import itertools
import time as _time

import gevent

from slimta.queue import Queue
from slimta.queue.dict import DictStorage
from slimta.relay import Relay, TransientRelayError, PermanentRelayError
from slimta.smtp.reply import Reply

from engine.core import Chooser
from worlds.queue_world import QueueWorld, make_envelope, outcome_menu, BACKOFFS

SCALE = 100.0     # virtual seconds per real second of back-off


class DataChooser(Chooser):
    """default schedule (0) everywhere, data choices from a list"""

    def __init__(self, data):
        Chooser.__init__(self)
        self.data = list(data)

    def choose(self, n, label='', kind='sched', key=None):
        if kind == 'data':
            c = self.data.pop(0) if self.data else 0
            c = min(c, n - 1)
            self.prefix = self.choices + [c]
        return Chooser.choose(self, n, label, kind, key)


def run_virtual(cfg, data):
    ch = DataChooser(data)
    qw = QueueWorld(ch, dict(cfg))
    qw.run()
    return [(a['rcpts'], a['attempts'], a['outcome']) for a in qw.attempts if not qw.ledger.get(a['qid'], {}).get('bounce')], \
        sorted(qw.stored_ids())


def run_real(cfg, data):
    data = list(data)
    attempts = []
    store = DictStorage()
    n = cfg.get('n', 2)
    waits = BACKOFFS[cfg.get('backoff', 'never')]

    class R(Relay):
        def attempt(self, envelope, attempts_):
            bounce = envelope.sender == ''
            rc = list(envelope.recipients)
            menu = outcome_menu(len(rc), **cfg.get('menu', {}))
            c = min(data.pop(0) if data else 0, len(menu) - 1)
            o = menu[c]
            if not bounce:
                attempts.append((tuple(rc), attempts_, o))
            gevent.sleep(0)
            if o in ('ok',):
                return None
            if o == 'ok-reply':
                return Reply('250', '2.0.0 ok')
            if o == 'temp':
                raise TransientRelayError('t', Reply('450', '4.0.0 temp'))
            if o == 'perm':
                raise PermanentRelayError('p', Reply('550', '5.0.0 perm'))
            if o == 'boom':
                raise RuntimeError('boom')
            kind, assign = o.split(':')
            vals = []
            for j, cch in enumerate(assign):
                tag = str(j % 2)
                vals.append(None if cch == 'o' else (TransientRelayError('t', Reply('450', '4.0.0 temp' + tag)) if cch == 't'
                                                      else PermanentRelayError('p', Reply('550', '5.0.0 perm' + tag))))
            return dict(zip(rc, vals)) if kind == 'map' else list(vals)

    def backoff(envelope, att):
        return (waits[att - 1] / SCALE) if 0 < att <= len(waits) else None
    q = Queue(store, R(), backoff=backoff)
    q.start()
    for i in range(cfg.get('messages', 1)):
        gevent.spawn(q.enqueue, make_envelope(i, n))
        gevent.sleep(0)
    # quiescence: nothing scheduled and nothing in flight for a while
    deadline = _time.time() + 5.0
    idle = 0
    while _time.time() < deadline and idle < 6:
        gevent.sleep(0.05)
        idle = idle + 1 if (not q.queued and not q.active_ids) else 0
    q.kill()
    return attempts, sorted(store.env_db)


def scenarios():
    cfg = dict(backend='dict', backoff='r10-20', n=2, messages=1, menu=dict(sequences=False, boom=False))
    menu = outcome_menu(2, sequences=False, boom=False)
    idx = {o: i for i, o in enumerate(menu)}
    picks = ['ok', 'temp', 'perm', 'map:ot', 'map:tp', 'map:tt', 'map:po']
    for n in (1, 2, 3):
        for seq in itertools.product(picks, repeat=n):
            yield cfg, [idx[o] for o in seq]


def compare(cfg, data):
    va, vs = run_virtual(cfg, data)
    ra, rs = run_real(cfg, data)
    # ids differ (uuid); compare counts of stored messages that are originals/bounces only by number
    if va != ra or len(vs) != len(rs):
        return 'virtual attempts %r stored %d  VS  real attempts %r stored %d' % (va, len(vs), ra, len(rs))
    return None
