"""Stand-alone conformance probe (run in a process of its own, with an outer time limit): a relay built WITHOUT a
socket_creator talks to a loopback listener that never answers.  The attempt must end with a transient error inside its
command timeout; if the default sockets were not cooperative (gevent) the timeout could never fire and the process would
hang -- the caller's time limit then reports that.
usage: default_socket.py <repo_dir> <smtp|lmtp>      prints 'RESULT <class> <seconds>'
       default_socket.py <repo_dir> slow-eod        a loopback SMTP server that answers everything at once except the end of
                                                    data (0.6 s late); relay with connect_timeout 0.2 s, command/data timeouts 8 s:
                                                    the attempt must be reported as delivered (prints 'RESULT returned <seconds>')"""
import sys
import time
import warnings
warnings.filterwarnings('ignore')
sys.path.insert(0, sys.argv[1])
import logging
logging.disable(logging.CRITICAL)
import socket as std_socket

import gevent
from slimta.relay import TransientRelayError, PermanentRelayError
from slimta.relay.smtp.static import StaticSmtpRelay, StaticLmtpRelay
from slimta.envelope import Envelope

if sys.argv[2] == 'slow-eod':
    from gevent.server import StreamServer

    def handle(sock, addr):
        f = sock.makefile('rb')
        sock.sendall(b'220 mx ESMTP\r\n')
        in_data = False
        while True:
            line = f.readline()
            if not line:
                return
            if in_data:
                if line == b'.\r\n':
                    in_data = False
                    gevent.sleep(0.6)
                    sock.sendall(b'250 2.0.0 queued\r\n')
                continue
            w = line.split(b' ')[0].strip().upper()
            if w == b'EHLO':
                sock.sendall(b'250-mx\r\n250 8BITMIME\r\n')
            elif w == b'DATA':
                in_data = True
                sock.sendall(b'354 go\r\n')
            elif w == b'QUIT':
                sock.sendall(b'221 bye\r\n')
                return
            else:
                sock.sendall(b'250 ok\r\n')
    try:
        srv = StreamServer(('127.0.0.1', 0), handle)
        srv.start()
    except OSError as e:
        print('SKIP no loopback: %s' % e)
        sys.exit(0)
    relay = StaticSmtpRelay('127.0.0.1', srv.server_port, connect_timeout=0.2, command_timeout=8.0, data_timeout=8.0, ehlo_as='relay.test')
    env = Envelope('s@x', ['r@y'])
    env.parse(b'Subject: t\r\n\r\nb\r\n')
    t0 = time.time()
    try:
        relay.attempt(env, 0)
        out = 'returned'
    except TransientRelayError as e:
        out = 'transient'
    except PermanentRelayError:
        out = 'permanent'
    except BaseException as e:
        out = 'other:' + type(e).__name__
    print('RESULT %s %.2f' % (out, time.time() - t0))
    sys.exit(0)
try:
    lst = std_socket.socket()
    lst.bind(('127.0.0.1', 0))
    lst.listen(5)                  # connections complete in the kernel; nobody ever accepts or answers
except OSError as e:
    print('SKIP no loopback: %s' % e)
    sys.exit(0)
port = lst.getsockname()[1]
cls = StaticLmtpRelay if sys.argv[2] == 'lmtp' else StaticSmtpRelay
relay = cls('127.0.0.1', port, connect_timeout=0.5, command_timeout=0.5, data_timeout=0.5, ehlo_as='relay.test')
env = Envelope('s@x', ['r@y'])
env.parse(b'Subject: t\r\n\r\nb\r\n')
t0 = time.time()
try:
    relay.attempt(env, 0)
    out = 'returned'
except TransientRelayError:
    out = 'transient'
except PermanentRelayError:
    out = 'permanent'
except BaseException as e:
    out = 'other:' + type(e).__name__
print('RESULT %s %.2f' % (out, time.time() - t0))
