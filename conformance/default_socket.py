"""Stand-alone conformance probe (run in a process of its own, with an outer time limit): a relay built WITHOUT a
socket_creator talks to a loopback listener that never answers.  The attempt must end with a transient error inside its
command timeout; if the default sockets were not cooperative (gevent) the timeout could never fire and the process would
hang -- the caller's time limit then reports that.
usage: default_socket.py <repo_dir> <smtp|lmtp>      prints 'RESULT <class> <seconds>'"""
import sys
import time
import warnings
warnings.filterwarnings('ignore')
sys.path.insert(0, sys.argv[1])
import logging
logging.disable(logging.CRITICAL)
import socket as std_socket

import gevent
from slimta.relay import TransientRelayError, PermanentRelayError
from slimta.relay.smtp.static import StaticSmtpRelay, StaticLmtpRelay
from slimta.envelope import Envelope

try:
    lst = std_socket.socket()
    lst.bind(('127.0.0.1', 0))
    lst.listen(5)                  # connections complete in the kernel; nobody ever accepts or answers
except OSError as e:
    print('SKIP no loopback: %s' % e)
    sys.exit(0)
port = lst.getsockname()[1]
cls = StaticLmtpRelay if sys.argv[2] == 'lmtp' else StaticSmtpRelay
relay = cls('127.0.0.1', port, connect_timeout=0.5, command_timeout=0.5, data_timeout=0.5, ehlo_as='relay.test')
env = Envelope('s@x', ['r@y'])
env.parse(b'Subject: t\r\n\r\nb\r\n')
t0 = time.time()
try:
    relay.attempt(env, 0)
    out = 'returned'
except TransientRelayError:
    out = 'transient'
except PermanentRelayError:
    out = 'permanent'
except BaseException as e:
    out = 'other:' + type(e).__name__
print('RESULT %s %.2f' % (out, time.time() - t0))
