#!/venv/bin/python
"""Re-applies every kept seed (seeded/<name>/patch.diff) to a scratch worktree of /repo's HEAD and re-runs the property's
quick check: tools/seed_recheck.py [name-prefix].  Prints one line per seed: CAUGHT / MISSED / STALE (patch no longer applies
because a later fix rewrote the lines)."""
import json, os, subprocess, sys, shutil
HERE = os.path.dirname(os.path.dirname(os.path.abspath(__file__)))
WT = os.environ.get('SEED_WT', '/tmp/wt-recheck')
pref = tuple(sys.argv[1].split(',')) if len(sys.argv) > 1 else ('',)       # one or more name prefixes, comma separated


def sh(cmd, **kw):
    p = subprocess.run(cmd, stdout=subprocess.PIPE, stderr=subprocess.DEVNULL, **kw)
    return p.returncode, p.stdout.decode('utf-8', 'replace')


sh(['git', '-C', '/repo', 'worktree', 'remove', '--force', WT])
shutil.rmtree(WT, ignore_errors=True)
rc, out = sh(['git', '-C', '/repo', 'worktree', 'add', '--detach', WT, 'HEAD'])
assert rc == 0, out
summary = []
head = sh(['git', '-C', '/repo', 'rev-parse', 'HEAD'])[1].strip()
try:
    for name in sorted(os.listdir(os.path.join(HERE, 'seeded'))):
        d = os.path.join(HERE, 'seeded', name)
        if not os.path.isdir(d) or not name.startswith(pref):
            continue
        meta = json.load(open(os.path.join(d, 'meta.json')))
        sh(['git', '-C', WT, 'reset', '--hard', '-q'])
        # a seed that a later library fix made harmless is re-checked against the tree it was written for
        sh(['git', '-C', WT, 'checkout', '-q', '--detach', meta.get('base') or head])
        rc, out = sh(['git', '-C', WT, 'apply', os.path.join(d, 'patch.diff')])
        if rc:
            # same change, context moved by later fixes: let patch(1) place the hunks with some fuzz
            sh(['git', '-C', WT, 'reset', '--hard', '-q'])
            p = subprocess.run(['patch', '-p1', '-s', '-F3', '--no-backup-if-mismatch', '-i', os.path.join(d, 'patch.diff')], cwd=WT,
                               stdout=subprocess.DEVNULL, stderr=subprocess.DEVNULL)
            rc = p.returncode
            if rc:
                sh(['git', '-C', WT, 'reset', '--hard', '-q'])
                sh(['git', '-C', WT, 'clean', '-fdq'])
        if rc:
            print(name, 'STALE (patch does not apply to HEAD any more)', flush=True)
            summary.append((name, 'STALE'))
            continue
        # normally the property's own check; a seed recorded as caught only by other checks is re-run with those
        checks = [meta['property']] if meta['property'] in meta.get('caught_by', [meta['property']]) else list(meta.get('caught_by', []))
        verdict = 'MISSED'
        for c in checks:
            rc, out = sh(['/venv/bin/python', os.path.join(HERE, 'run_check.py'), c, 'quick'], env=dict(os.environ, VERIF_REPO=WT))
            if rc == 1 and 'VIOLATION property=' in out:
                verdict = 'CAUGHT' + ('' if c == meta['property'] else ' (by %s)' % c)
                break
            if rc == 2:
                verdict = 'HARNESS-ERROR'
        print(name, verdict, flush=True)
        summary.append((name, verdict))
finally:
    sh(['git', '-C', '/repo', 'worktree', 'remove', '--force', WT])
    sh(['git', '-C', '/repo', 'worktree', 'prune'])
print(dict((v, sum(1 for _, x in summary if x == v)) for v in set(x for _, x in summary)))
