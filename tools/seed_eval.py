#!/venv/bin/python
"""Evaluate a sub-agent's seeded change: tools/seed_eval.py <worktree> <m1|m2> <PROPERTY> [--all]
Applies <worktree>/out/<m>.diff in the worktree, runs the pinned baseline, the demo (must exit 1), the
property's quick check (VERIF_REPO=worktree); reverts, runs the demo again (must exit 0); stores
patch, demo and meta.json under /verif/seeded/<PROPERTY>-<m>/ when the change is valid."""
import json, os, re, shutil, subprocess, sys
HERE = os.path.dirname(os.path.dirname(os.path.abspath(__file__)))
wt, m, prop = sys.argv[1], sys.argv[2], sys.argv[3]
run_all = '--all' in sys.argv


def sh(cmd, **kw):
    p = subprocess.run(cmd, stdout=subprocess.PIPE, stderr=subprocess.STDOUT, **kw)
    return p.returncode, p.stdout.decode('utf-8', 'replace')


sh(['git', '-C', wt, 'checkout', '--', '.'])
rc, out = sh(['git', '-C', wt, 'apply', 'out/%s.diff' % m])
if rc:
    print('patch does not apply:', out); sys.exit(2)
meta = {'property': prop, 'mutation': m, 'source': 'independent sub-agent given only the property text and a scratch worktree'}
try:
    rc, out = sh(['/venv/bin/python', os.path.join(HERE, 'tools', 'baseline_check.py'), wt])
    meta['baseline_with_change'] = out.splitlines()[0] if out else '?'
    rc, out = sh(['/venv/bin/python', 'out/%s_demo.py' % m], cwd=wt)
    meta['demo_with_change'] = {'exit': rc, 'last_line': (out.strip().splitlines() or [''])[-1][:300]}
    checks = [prop]
    for a in sys.argv:
        if a.startswith('--checks='):
            checks = a.split('=', 1)[1].split(',')
    if run_all:
        checks = [c['property_id'] for c in json.load(open(os.path.join(HERE, 'MANIFEST.json')))['checks']]
    meta['checks'] = {}
    for c in checks:
        rc, out = sh(['/venv/bin/python', os.path.join(HERE, 'run_check.py'), c, 'quick'], env=dict(os.environ, VERIF_REPO=wt))
        sigs = re.findall(r'signature=(\{.*?\}) x', out)
        meta['checks'][c] = {'exit': rc, 'violation_signatures': len(sigs), 'first': sigs[0][:200] if sigs else ''}
finally:
    sh(['git', '-C', wt, 'checkout', '--', '.'])
rc, out = sh(['/venv/bin/python', 'out/%s_demo.py' % m], cwd=wt)
meta['demo_without_change'] = {'exit': rc}
valid = meta['baseline_with_change'].startswith('baseline: 449/449') and meta['demo_with_change']['exit'] == 1 and meta['demo_without_change']['exit'] == 0
meta['valid'] = valid
meta['caught_by'] = [c for c, r in meta['checks'].items() if r['exit'] == 1]
try:
    meta['needs_to_manifest'] = open(os.path.join(wt, 'out', m + '.md')).read()[:1500]
except Exception:
    pass
meta['ran'] = 'git apply; tools/baseline_check.py <worktree>; demo with/without the change; VERIF_REPO=<worktree> run_check.py %s quick' % ','.join(meta['checks'])
print(json.dumps({k: meta[k] for k in ('property', 'mutation', 'valid', 'baseline_with_change', 'demo_with_change', 'demo_without_change', 'caught_by')}, indent=None))
for c, r in meta['checks'].items():
    print('  ', c, 'exit', r['exit'], r['first'][:160])
if valid:
    name = '%s-%s' % (prop, m)
    for a in sys.argv:
        if a.startswith('--name='):
            name = a.split('=', 1)[1]
    d = os.path.join(HERE, 'seeded', name)
    os.makedirs(d, exist_ok=True)
    shutil.copy(os.path.join(wt, 'out', m + '.diff'), os.path.join(d, 'patch.diff'))
    shutil.copy(os.path.join(wt, 'out', m + '_demo.py'), os.path.join(d, 'demo.py'))
    json.dump(meta, open(os.path.join(d, 'meta.json'), 'w'), indent=1)
