#!/usr/bin/env python3
"""Regenerates seeded/README.md from the meta.json files (table) + seeded/missed.md (hand-written notes)."""
import json, os
HERE = os.path.dirname(os.path.dirname(os.path.abspath(__file__)))
sd = os.path.join(HERE, 'seeded')
rows = []
own = []
for name in sorted(os.listdir(sd)):
    mp = os.path.join(sd, name, 'meta.json')
    if not os.path.exists(mp):
        continue
    m = json.load(open(mp))
    title = (m.get('needs_to_manifest') or '').strip().splitlines()[0].lstrip('# ').strip()[:120] if m.get('needs_to_manifest') else ''
    first = ''
    for c in m.get('caught_by', []):
        first = m['checks'][c].get('first', '')[:120]
        if first:
            break
    own.append(m['property'] in m.get('caught_by', []))
    rows.append('| %s | %s | %s | %s | %s / %s | %s | `%s` |' % (
        name, m['property'], title.replace('|', '/'), m.get('baseline_with_change', '').replace('baseline: ', ''),
        m['demo_with_change']['exit'], m['demo_without_change']['exit'],
        ','.join(m.get('caught_by', [])) or ('none (benign for the property as read, see missed.md)' if m.get('benign') else '**none**'), first))
n_other = sum(1 for r, o in zip(rows, own) if not o and 'none (benign' not in r)
n_benign = sum(1 for r in rows if 'none (benign' in r)
head = ('# Changes seeded by independent sub-agents\n\nEach sub-agent saw only the text of one property and a scratch worktree of /repo '
        '(nothing from /verif). For every change: `patch.diff`, the agent\'s stand-alone `demo.py` (exit 1 with the change, 0 without) and '
        '`meta.json` (what it needs to manifest, what was run, which checks caught it; `base` when a later library fix made the change '
        'harmless and it is kept against the tree it was written for). All were re-verified here with `tools/seed_eval.py` (apply, pinned '
        'baseline, demo with/without, quick check with VERIF_REPO pointing at the patched tree).  Seeds named `-w3` ... `-w6` come from the '
        'later waves (see DESIGN.md 10.4).  %d seeds: %d reported by the quick check of their own property, %d only by other checks, '
        '%d benign for the property as it is read (see missed.md).\n\n'
        '| seed | property | change | suite with change | demo with / without | caught by | first violation signature |\n|---|---|---|---|---|---|---|\n'
        % (len(rows), sum(own), n_other, n_benign))
missed = open(os.path.join(sd, 'missed.md')).read() if os.path.exists(os.path.join(sd, 'missed.md')) else ''
open(os.path.join(sd, 'README.md'), 'w').write(head + '\n'.join(rows) + '\n\n' + missed)
print(len(rows), 'seeds')
