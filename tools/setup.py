#!/venv/bin/python
"""setup_cmd: nothing to build (pure Python run from source); self-test determinism of the engines."""
import os, subprocess, sys
HERE = os.path.dirname(os.path.dirname(os.path.abspath(__file__)))
os.makedirs(os.path.join(HERE, 'build'), exist_ok=True)
os.makedirs(os.path.join(HERE, 'evidence'), exist_ok=True)
r = subprocess.run(['/venv/bin/python', '-c', 'import gevent, pysasl, pyaio, redis; import sys; sys.path.insert(0, "/repo"); import slimta.queue'],
                   stdout=subprocess.PIPE, stderr=subprocess.STDOUT)
if r.returncode:
    print(r.stdout.decode()); sys.exit(1)
st = os.path.join(HERE, 'tools', 'selftest.py')
if os.path.exists(st):
    sys.exit(subprocess.call(['/venv/bin/python', st]))
print('setup ok')
