#!/venv/bin/python
"""Hand-made mutation table: applies each mutation to a scratch copy of /repo (outside /repo and
/verif, removed afterwards), runs the pinned baseline suite and the property's quick check against
it, and writes MUTATIONS.md.   usage: tools/mutate.py [ID ...]   (default: all)"""
import json
import os
import re
import shutil
import subprocess
import sys
import tempfile

HERE = os.path.dirname(os.path.dirname(os.path.abspath(__file__)))

# (mutation id, property, file, old, new, description)
M = [
 ('M01a', 'C01', 'slimta/queue/__init__.py', "                self._perm_fail(None, group_env, reply)\n            self._remove(id)\n            return False",
  "                pass\n            self._remove(id)\n            return False", 'retry exhaustion drops the message without bouncing'),
 ('M01b', 'C01', 'slimta/queue/__init__.py', "        except TransientRelayError as e:\n            self._pool_spawn('store', self._retry_later, id, envelope, e.reply)",
  "        except TransientRelayError as e:\n            self._remove(id)", 'message removed on a transient failure'),
 ('M02a', 'C02', 'slimta/queue/__init__.py', "            thread.join()\n            ret.append(thread.exception or thread.value)", "            ret.append(thread.exception or thread.value)",
  'enqueue no longer waits for the storage writes'),
 ('M02b', 'C02', 'slimta/edge/smtp.py', "        for _, result in results:\n            if isinstance(result, (QueueError, RelayError)):\n                error = result\n                break\n        if isinstance(error, QueueError):\n            default_reply = Reply('451'",
  "        if isinstance(error, QueueError):\n            default_reply = Reply('451'", 'SMTP edge looks at the first enqueue result only'),
 # (the former M03a, "_dequeue ignores the in-flight set", became equivalent once _add_queued and enqueue() kept in-flight
 # and early-announced ids off the timetable: nothing can reach _dequeue for an id in flight any more)
 ('M03a', 'C03', 'slimta/queue/__init__.py', "        self.active_ids.add(id)\n        try:\n            envelope, attempts = self.store.get(id)\n        except KeyError:\n            self.active_ids.discard(id)\n            return\n        except BaseException:\n            self.active_ids.discard(id)\n            raise",
  "        try:\n            envelope, attempts = self.store.get(id)\n        except KeyError:\n            return\n        self.active_ids.add(id)", 'the in-flight mark is set only after the envelope has been read'),
 ('M03b', 'C03', 'slimta/queue/__init__.py', "        for index in sorted(rcpt_indexes, reverse=True):", "        for index in sorted(rcpt_indexes):", 'delivered recipients deleted in ascending index order'),
 ('M04a', 'C04', 'slimta/diskstorage/__init__.py', "            except OSError:\n                logging.log_exception(__name__, queue_id=id)", "            except KeyError:\n                logging.log_exception(__name__, queue_id=id)",
  'start-up scan no longer tolerates a missing meta file'),
 ('M04b', 'C04', 'slimta/diskstorage/__init__.py', "                self.ops.write_env(id, envelope)\n                self.ops.write_meta(id, meta)", "                self.ops.write_meta(id, meta)\n                self.ops.write_env(id, envelope)",
  'write() stores the meta file before the envelope file (benign for C04: the id is not acknowledged yet -- expected MISSED)'),
 ('M05a', 'C05', 'slimta/smtp/datasender.py', "        if not last_two or last_two == b'\\r\\n':", "        if not last_two or last_two.endswith(b'\\n'):", 'end marker chosen by LF instead of CRLF'),
 ('M05b', 'C05', 'slimta/smtp/datareader.py', "        after_data_lines = self.lines[self.EOD+1:]", "        after_data_lines = self.lines[self.EOD+2:]", 'first pipelined line after the end of data is dropped'),
 ('M06a', 'C06', 'slimta/smtp/server.py', "        address = arg[start:end].decode('utf-8')\n\n        if not self.have_mailfrom:", "        address = arg[start:end].decode('latin-1')\n\n        if not self.have_mailfrom:",
  'RCPT address decoded as latin-1'),
 ('M06b', 'C06', 'slimta/smtp/extensions.py', "                    lines.append(' '.join((k, value_str)))", "                    lines.append(k)", 'extension parameters not advertised'),
 ('M07a', 'C07', 'slimta/smtp/server.py', "        if not self.have_mailfrom:\n            bad_sequence.send(self.io)\n            return\n\n        params = self._gather_params(arg[end+1:])\n\n        reply = Reply('250', '2.1.5 Recipient",
  "        params = self._gather_params(arg[end+1:])\n\n        reply = Reply('250', '2.1.5 Recipient", 'RCPT accepted without MAIL'),
 ('M07b', 'C07', 'slimta/smtp/server.py', "        self.have_mailfrom = None\n        self.have_rcptto = None\n\n        self._check_close_code(reply)", "        self.have_mailfrom = None\n\n        self._check_close_code(reply)",
  'recipient flag survives a completed message'),
 ('M08a', 'C08', 'slimta/smtp/io.py', "            self.socket = context.wrap_socket(self.socket, server_side=True)\n            self.recv_buffer = b''", "            self.socket = context.wrap_socket(self.socket, server_side=True)",
  'server keeps the receive buffer across STARTTLS'),
 ('M08b', 'C08', 'slimta/smtp/server.py', "            self.ehlo_as = None\n            self.have_mailfrom = None", "            self.have_mailfrom = None", 'EHLO identity survives STARTTLS'),
 ('M09a', 'C09', 'slimta/smtp/datareader.py', "        self.add_lines(self.io.recv_buffer)\n        self.io.recv_buffer = b''", "        self.add_lines(self.io.recv_buffer.lstrip(b'\\r\\n'))\n        self.io.recv_buffer = b''",
  'leading blank lines of already-buffered content are dropped'),
 ('M09b', 'C09', 'slimta/smtp/io.py', "            if match:\n                self.recv_buffer = input[match.end(0):]\n                return match.group(1)\n            self.buffered_recv()",
  "            if match:\n                self.recv_buffer = input[match.end(0):]\n                return match.group(1)\n            self.recv_buffer = self.recv_buffer.lstrip(b' ')\n            self.buffered_recv()",
  'partial command line loses leading spaces when more data is awaited'),
 ('M10a', 'C10', 'slimta/smtp/client.py', "                reply = self.reply_queue.pop(0)", "                reply = self.reply_queue.pop()", 'replies taken from the wrong end of the queue'),
 ('M10b', 'C10', 'slimta/smtp/client.py', "    def send_data(self, *data):\n        ret = []\n        for address, rcptto_reply in self.rcpttos:\n            if rcptto_reply.code.startswith('2'):",
  "    def send_data(self, *data):\n        ret = []\n        for address, rcptto_reply in self.rcpttos:\n            if not rcptto_reply.code.startswith('5'):", 'LMTP expects a data reply for 4xx-rejected recipients'),
 ('M11a', 'C11', 'slimta/relay/smtp/client.py', "        if data.is_error():\n            raise SmtpRelayError.factory(data)", "        if data.code[0] == '5':\n            raise SmtpRelayError.factory(data)", 'a 4xx reply to DATA is not treated as a failure'),
 ('M11b', 'C11', 'slimta/relay/http.py', "        if status.startswith('2'):\n            result.set(smtp_reply)", "        if status.startswith('2') or status.startswith('3'):\n            result.set(smtp_reply)", 'HTTP 3xx treated as delivered'),
 ('M12a', 'C12', 'slimta/queue/__init__.py', "            bisect.insort(self.queued, entry)\n            self.queued_ids.add(id)\n            self.wake.set()", "            bisect.insort(self.queued, entry)\n            self.queued_ids.add(id)",
  'scheduler not woken when an entry is added'),
 ('M12b', 'C12', 'slimta/queue/__init__.py', "            pass\n        self.queued_ids.discard(entry[1])", "            pass", 'a dispatched entry stays in queued_ids (stale de-duplication set)'),
 ('M13a', 'C13', 'slimta/queue/__init__.py', "                if replies[i] == reply:", "                if replies[i].code == reply.code:", 'bounces grouped by reply code only'),
 ('M13b', 'C13', 'slimta/queue/__init__.py', "        if envelope.sender:  # Can't bounce to null-sender.\n            self._pool_spawn", "        if True:\n            self._pool_spawn", 'null-sender guard removed'),
 ('M14a', 'C14', 'slimta/smtp/server.py', "        with Timeout(self.data_timeout):\n            try:\n                data = reader.recv()", "        with Timeout(None):\n            try:\n                data = reader.recv()", 'no data timeout on the server'),
 ('M14b', 'C14', 'slimta/relay/smtp/client.py', "        with Timeout(self.command_timeout):\n            return self.client.rcptto(rcpt)", "        return self.client.rcptto(rcpt)", 'RCPT exchange outside any timeout'),
 ('M15a', 'C15', 'slimta/diskstorage/__init__.py', "        meta['timestamp'] = timestamp\n        self.ops.write_meta(id, meta)", "        meta = {'timestamp': timestamp, 'attempts': meta['attempts']}\n        self.ops.write_meta(id, meta)",
  'disk set_timestamp drops the delivered marks'),
 ('M15b', 'C15', 'slimta/cloudstorage/__init__.py', "        self.obj_store.set_message_meta(id, timestamp=timestamp)", "        self.obj_store.set_message_meta(id, timestamp=timestamp, attempts=0)", 'cloud set_timestamp resets the attempt counter'),
 ('M16a', 'C16', 'slimta/policy/split.py', "        return domain.lower()", "        return domain", 'domain split is case sensitive'),
 ('M16b', 'C16', 'slimta/queue/__init__.py', "                results.remove(current)\n                results.extend(ret)", "                results.extend(ret)", 'the replaced envelope is also written'),
 ('M17a', 'C17', 'slimta/smtp/io.py', "            to_send.write(b''.join((code, b'-', line, b'\\r\\n')))", "            to_send.write(b''.join((code, b' ', line, b'\\r\\n')))", 'multi-line replies written without continuation dashes'),
 ('M17b', 'C17', 'slimta/smtp/io.py', "                    if code and code != match.group(2):\n                        raise BadReply(match.group(1))", "                    pass", 'differing codes inside a multi-line reply accepted'),
 ('M18a', 'C18', 'slimta/util/proxyproto.py', "            try_read = min(len(where), 1 if read.endswith(b'\\r') else 2)", "            try_read = min(len(where), 2)", 'v1 reader may read past the CRLF'),
 ('M18b', 'C18', 'slimta/util/proxyproto.py', "        assert port_num >= 0 and port_num <= 65535, \\", "        assert port_num >= 0 and port_num <= 65536, \\", 'port range off by one'),
 ('M19a', 'C19', 'slimta/relay/pool.py', "        if not self.pool_size or len(self.pool) < self.pool_size:", "        if not self.pool_size or len(self.pool) <= self.pool_size:", 'pool bound off by one'),
 ('M19b', 'C19', 'slimta/relay/smtp/client.py', "                    self.queue.appendleft((result, envelope))\n                    break", "                    break", 'request dropped when the server had timed out'),
 ('M20a', 'C20', 'slimta/envelope/__init__.py', "_HEADER_BOUNDARY = re.compile(br'(?:\\A|\\r?\\n)\\s*?\\n')", "_HEADER_BOUNDARY = re.compile(br'(?:\\A|\\r?\\n)\\s*\\n')", 'greedy header boundary eats leading blank lines of the body'),
 ('M20b', 'C20', 'slimta/envelope/__init__.py', "        new_env = copy.deepcopy(self)", "        new_env = copy.copy(self)", 'copy() is shallow'),
]


def run_one(m):
    mid, prop, path, old, new, desc = m
    tmp = tempfile.mkdtemp(prefix='mut-', dir='/tmp')
    repo = os.path.join(tmp, 'repo')
    try:
        shutil.copytree('/repo', repo, ignore=shutil.ignore_patterns('.git', '__pycache__'))
        p = os.path.join(repo, path)
        src = open(p).read()
        if src.count(old) != 1:
            return dict(id=mid, prop=prop, desc=desc, status='NOT APPLICABLE (pattern count %d)' % src.count(old))
        open(p, 'w').write(src.replace(old, new))
        b = subprocess.run(['/venv/bin/python', os.path.join(HERE, 'tools', 'baseline_check.py'), repo], stdout=subprocess.PIPE, stderr=subprocess.STDOUT, env=dict(os.environ, BASELINE_TEST_TIMEOUT='60'))
        suite = b.stdout.decode().splitlines()[0] if b.stdout else '?'
        env = dict(os.environ, VERIF_REPO=repo)
        c = subprocess.run(['/venv/bin/python', os.path.join(HERE, 'run_check.py'), prop, 'quick'], env=env, stdout=subprocess.PIPE, stderr=subprocess.STDOUT)
        out = c.stdout.decode()
        sigs = re.findall(r'signature=(\{.*?\}) x', out)
        return dict(id=mid, prop=prop, desc=desc, file=path, suite=suite, exit=c.returncode, n_sigs=len(sigs), first=sigs[0][:160] if sigs else '',
                    status='CAUGHT' if c.returncode == 1 else ('harness error' if c.returncode == 2 else 'MISSED'))
    finally:
        shutil.rmtree(tmp, ignore_errors=True)


def main():
    only = set(sys.argv[1:])
    rows = []
    for m in M:
        if only and m[0] not in only and m[1] not in only:
            continue
        r = run_one(m)
        rows.append(r)
        print(r['id'], r['prop'], r['status'], r.get('suite', ''), r.get('first', ''), flush=True)
    if not only:
        with open(os.path.join(HERE, 'MUTATIONS.md'), 'w') as f:
            f.write('# Hand-made mutations of the anchored mechanisms\n\nEach mutation is applied to a scratch copy of /repo (removed afterwards); "suite" is the pinned '
                    'baseline on the mutant (449 stable tests), "check" the result of the property\'s quick check run with VERIF_REPO pointing at the mutant.\n'
                    'Regenerate with `tools/mutate.py`.\n\n| id | property | mutation | file | suite on mutant | check | first violation signature |\n|---|---|---|---|---|---|---|\n')
            for r in rows:
                f.write('| %s | %s | %s | %s | %s | %s | `%s` |\n' % (r['id'], r['prop'], r['desc'], r.get('file', ''), r.get('suite', ''), r['status'], r.get('first', '').replace('|', '/')))
    return 0


if __name__ == '__main__':
    sys.exit(main())
