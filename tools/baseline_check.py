#!/venv/bin/python
"""Run the pinned baseline suite on a repo tree (default /repo) and compare with BASELINE.json's stable_pass list.
usage: baseline_check.py [repo_dir]   -> exit 0 iff all 449 stable tests pass."""
import json, os, subprocess, sys, tempfile, xml.etree.ElementTree as ET
repo = sys.argv[1] if len(sys.argv) > 1 else '/repo'
base = json.load(open('/root/.vp/BASELINE.json'))
fd, xmlp = tempfile.mkstemp(suffix='.xml'); os.close(fd)
env = dict(os.environ); env.pop('SLIMTA_VERIF', None)
p = subprocess.run(['/venv/bin/python', '-m', 'pytest', '-ra', '-q', '-p', 'no:cacheprovider', '--timeout=' + os.environ.get('BASELINE_TEST_TIMEOUT', '900'),
                    '--continue-on-collection-errors', '--junitxml=' + xmlp], cwd=repo, env=env,
                   stdout=subprocess.PIPE, stderr=subprocess.STDOUT)
passed = set()
for tc in ET.parse(xmlp).getroot().iter('testcase'):
    if not list(tc):
        passed.add('%s::%s' % (tc.get('classname'), tc.get('name')))
os.unlink(xmlp)
missing = [t for t in base['stable_pass'] if t not in passed]
print('baseline: %d/%d stable tests pass' % (len(base['stable_pass']) - len(missing), len(base['stable_pass'])))
for m in missing[:20]:
    print('  NOT PASSING:', m)
sys.exit(1 if missing else 0)
