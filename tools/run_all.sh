#!/bin/bash
# usage: tools/run_all.sh [quick|thorough] [ids...]   -- runs the registered checks one after another
tier=${1:-quick}; shift
ids=${@:-$(/venv/bin/python -c "import json; print(' '.join(c['property_id'] for c in json.load(open('/verif/MANIFEST.json'))['checks']))")}
rc=0
for id in $ids; do
  s=$(date +%s)
  out=$(/venv/bin/python /verif/run_check.py $id $tier 2>&1); code=$?
  e=$(date +%s)
  echo "$id exit=$code $((e-s))s | $(echo "$out" | grep "^$id $tier" | cut -c1-200)"
  if [ $code -ne 0 ]; then rc=1; echo "$out" | grep -v "^KNOWN" | head -5 | cut -c1-400; fi
done
exit $rc
