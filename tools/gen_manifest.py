#!/venv/bin/python
"""Generates /verif/MANIFEST.json from the table below (single source of truth)."""
import json, os
HERE = os.path.dirname(os.path.dirname(os.path.abspath(__file__)))
PY = '/venv/bin/python'
ALL = ['C%02d' % i for i in range(1, 21)]

CHECKS = {
 'C01': dict(level='model_checking', engine='E1-vloop',
   text='Deviation-bounded exhaustive exploration of a real Queue on the virtual gevent loop with each real storage backend (dict, disk on in-memory FS, redis on fake client, cloud on fake object store), a scripted relay whose outcome per attempt is enumerated over the documented contract (None/Reply, transient, permanent, other exception, every complete per-recipient mapping, sequences), 6 backoff functions, 1-2 messages x 1-2 (3 thorough) recipients, bounded/unbounded pools, bounce factory/queue variants, null sender, pre-stored message; bounces are delivered through the same relay.  All outcome histories with <= dd non-default outcomes x all loop-level schedules with <= d deviations, quiescent states merged; recipient-ledger obligations at quiescence (nothing stranded, nothing removed while outstanding, attempts carry exactly the outstanding recipients, failed recipients bounced).',
   note='Scripted relay restricted to the documented Relay.attempt contract; fake redis (no server in the image) and fake object store with aws.py semantics; gevent FIFO dispatch is platform semantics; real relay classes feeding the queue are covered by C11.',
   technique='stateless deviation-bounded model checking of the real queue on a virtual event loop with quiescent-state merging and a ledger oracle',
   design='5/C01'),
 'C03': dict(level='model_checking', engine='E1-vloop',
   text='Queue world (real Queue on the virtual loop, all four backends) with a scripted relay answering per-recipient mappings {ok,temp,perm}^n over up to 3 rounds, n=1..3 (4 thorough), backoff 0 and 10, bounded relay pool, slow storage operations, and double announcements of an id (start-up load, storage wait() announcements injected by the driver / produced by redis / by the cloud message queue, flush, retry due).  All outcome histories with <= dd non-default outcomes x all schedules with <= d deviations, quiescent states merged.  Monitors on every Relay.attempt: recipients disjoint from the settled set and covering the outstanding set; attempts of one id never overlap.',
   note='Same fakes as C01; wait() announcements for the dict backend are injected by the driver.',
   technique='stateless deviation-bounded model checking of the real queue on a virtual event loop with online monitors',
   design='5/C03'),
 'C04': dict(level='fault_enumeration', engine='E3-crash',
   text='Every well-formed history of <= 4 (quick) / 5 (thorough) storage operations over two messages {write, increment_attempts, set_timestamp, set_recipients_delivered, remove} is run on the real DiskStorage over an in-memory file system that logs every mutating effect (temp-file creation, each 48-byte chunk write, rename, unlink); EVERY prefix of that effect log is a crash state.  For each one a fresh DiskStorage must load() without raising, list every message whose write had returned and whose remove had not started, return sender/content/outstanding recipients/attempt count consistent with the completed and the single in-progress operation, and a fresh Queue started over it must attempt it.  Thorough adds pairs of operations overlapping in time (aio completions interleaved, <= 2 deviations).  Histories are replayed on the real file system with the real pyaio and compared (traces_validated_against_impl).',
   note='Process death, not power loss (the kernel keeps completed writes), so crash states are exactly the prefixes of the effect log; rename/unlink atomic.',
   technique='exhaustive crash-point enumeration over an in-memory FS effect log with recovery checked against a reference store; conformance replay on the real FS',
   design='5/C04'),
 'C05': dict(level='exploration', engine='E2-stategraph',
   text='Exhaustive over every message over {., CR, LF, a} up to length 6 (quick) / 8 (thorough), every split into sender parts, five pipelined suffixes, every recv_buffer/socket division and ALL segmentations (explicit state graph of the real DataReader fed through the real IO.raw_recv). Inside these bounds the property is decided, not sampled.',
   note='Bytes outside the alphabet are assumed to behave like "a" (one 8-bit symbol added in thorough); max_size=None (size limit is C09). "Randomly beyond the bound" is not done (sampling is outside this family).',
   technique='explicit-state exploration of the real DataReader over all inputs up to a length bound and all segmentations',
   design='5/C05'),
 'C17': dict(level='exploration', engine='E2-seq',
   text='Real Reply.send/IO.send_reply output parsed back by the real IO.recv_reply/Reply.recv under ALL segmentations (continuation-merged search, differentially validated) for every code 200..599, every text over an 8-unit alphabet up to 4/5 units, every sequence of up to 3 pipelined replies (exact consumption); plus every malformed byte string over an 8-symbol alphabet up to 5/6 bytes against a strict three-valued reference parser.',
   note='Continuation canonicaliser validated differentially (not proved); text symbols outside the alphabet assumed to behave like "a"; codes outside 1xx-5xx and bare "250<CRLF>" are undefined by the property and accepted either way.',
   technique='exhaustive enumeration of replies/malformed inputs x all segmentations (continuation-merged re-execution) against a reference parser',
   design='5/C17'),
 'C09': dict(level='model_checking', engine='E2-seq',
   text='912 session byte streams generated exhaustively from a grammar (1-2 transactions, 6 body shapes incl. command-looking content, lone dots and bodies over SIZE, RSET/NOOP, QUIT/EOF, SIZE on/off) are run through the real Server.handle; quick explores ALL segmentations of the 48 single-transaction streams (state graph by continuation-merged re-execution) and burst/byte/line/every-single-cut for the rest, thorough ALL segmentations of every stream.  Oracle: exactly one (replies, callback trace incl. content) per stream, equal to an independent reference parse of the byte stream.',
   note='State = one recv() call keyed by (bytes consumed, output, canonicalised continuation frames); the canonicaliser is validated differentially on every 16th merged hit (traces_validated_against_impl) and a failure falls back to cut-bounded enumeration. Sizes between SIZE and SIZE+slack are not generated.',
   technique='explicit-state model checking of the real server over all segmentations of grammar-generated streams (continuation-merged re-execution) with a reference session automaton',
   design='5/C09'),
 'C06': dict(level='exploration', engine='E1-vloop',
   text='The real StaticSmtpRelay (SmtpRelayClient + Client) delivers over in-memory sockets to the library\'s own SmtpEdge (Server + SmtpSession) with a capturing queue; the real StaticLmtpRelay to a reference LMTP server; the real HttpRelay through http.client bytes and a byte-level WSGI adaptor (environ as gevent.pywsgi builds it) to the real WsgiEdge.  Finite product, completely enumerated: address sweep (9 senders incl. null, quoted local parts with space / > / @ / escaped quote, UTF-8 local part and domain x 26 recipient lists x 2 bodies) and content sweep (3 header blocks incl. 8-bit and folded x 12 bodies incl. dot lines, bare CR/LF, 8-bit, no final CRLF) x 11 SMTP server configurations (each extension dropped, all, none, SIZE=50, AUTH, STARTTLS, HELO fallback, connection re-use, 7-bit conversion with encoder) + LMTP + HTTP.  Oracle: captured envelope equals the sent one (sender, recipients in order, byte-identical content modulo final CRLF), client extensions == advertised, reported reply == the edge\'s, what cannot be carried is refused permanently and never altered.',
   note='In-memory sockets and fake TLS; an 8-bit header value without 8BITMIME is not judged; with a binary encoder only addresses and 7-bit-ness are judged.',
   technique='exhaustive enumeration of an envelope grammar x server configurations through the real client and the real edge, end-to-end equality oracle',
   design='5/C06'),
 'C07': dict(level='model_checking', engine='E2-seq',
   text='Breadth-first search to closure over the real SmtpEdge+SmtpSession+Server driven one client event at a time (31 events incl. malformed variants x validator verdicts accept/450/550/421 for each callback reached, 4 banner verdicts, 12 configurations auth x TLS x SIZE); a state is the event history replayed on fresh objects, canonicalised from the real session flags, extension set and envelope under construction, paired with the state of a reference automaton that judges every transition (reply classes, callback order and arguments, hand-off envelope, session end on 221/421).  The state merge is cross-checked by a two-representative differential check and by exploring all event sequences up to depth 2-3 (4 in thorough) without merging.',
   note='One event per recv() (segmentation is C09); STARTTLS with an open transaction and AUTH PLAIN in clear text are left to C08; transparent fake TLS, fake PTR lookup, recording queue; commands with non-UTF-8 arguments only need an error reply and no callback.',
   technique='explicit-state BFS over the real server state graph with a reference automaton as oracle',
   design='5/C07'),
 'C08': dict(level='exploration', engine='E2-seq',
   text='Finite product, completely enumerated on the real SmtpEdge/Server/Client with a fake TLS that keeps clear and TLS bytes in separate channels: 4 session prefixes x 7 clear-text injections behind STARTTLS x same/later segment x 5 TLS scripts (+ immediate TLS), judged metamorphically against the injection-free run plus absolute post-handshake reset checks; 5 reply injections behind the client-side 220; AUTH gating table: 5 mechanisms x 7 argument shapes x 18 Unicode credential triples x 3 TLS modes x 4 positions x 2 verdicts.',
   note='Fake TLS (a handshake with unread clear-text bytes fails, as real TLS fed plaintext does); empty authzid may be shown as None, "" or the authcid; lenient base64 that merely continues the challenge is accepted.',
   technique='exhaustive enumeration of a finite scenario product on the real code with a metamorphic oracle and a gating table',
   design='5/C08'),
 'C10': dict(level='exploration', engine='E2-seq',
   text='The real Client/LmtpClient run a full session against a scripted peer whose replies become readable only after the command that causes them was sent (a recv() with nothing owed raises OverRead) and carry unique texts.  Enumerated: 1..3 recipients x reply class per command (all server-consistent assignments with <= 2 non-success classes in quick, all in thorough) x 1..3 lines per reply x PIPELINING on/off x SMTP/LMTP x empty/non-empty data; every script in one burst, byte by byte, line by line and under every single cut, and under ALL segmentations for the all-success scripts (quick) / scripts with <= 1 non-success class (thorough).',
   note='Reply texts are ASCII tags (reply parsing is C17); continuation canonicaliser validated differentially.',
   technique='exhaustive enumeration of reply scripts x segmentations on the real client with a gating scripted peer',
   design='5/C10'),
 'C11': dict(level='fault_enumeration', engine='E1-vloop',
   text='Exhaustive fault enumeration over downstream behaviour, each script one deterministic run of the real relay classes on the virtual loop over in-memory sockets: (A) StaticSmtpRelay/StaticLmtpRelay against a scripted peer -- every single and every double deviation over stages banner, EHLO (+500 -> HELO), MAIL, each RCPT, DATA, end-of-data (per recipient for LMTP), RSET, QUIT x {4xx, 5xx, malformed line, code outside 1xx-5xx, disconnect}, PIPELINING on/off, 1..3 recipients, STARTTLS (required or not, client-side failure), AUTH, immediate TLS, refused connection, two envelopes on a re-used connection; (B) PipeRelay/MaildropRelay/DovecotLdaRelay over a fake Popen: exit status x 7 output shapes x per-recipient mode; (C) HttpRelay: 6 statuses x 5 reply-header shapes + refused/dropped/truncated; (D) MxSmtpRelay over a stub resolver: MX list/A fallback/nothing/errors x attempt number x recipient shapes.  Oracle: delivered only if the peer accepted; always a result or a RelayError (never another exception, a hang, or a failure object returned as success); error class per deciding reply.',
   note='In-memory sockets, fake TLS, fake Popen, scripted HTTP origin and stub resolver are the environment by definition; where replies of different classes decide about one recipient either class is accepted; contradictory HTTP status/reply-header pairs are undefined.',
   technique='exhaustive fault-script enumeration (all single and double deviations) on the real relay classes over a virtual event loop with a truth-recording scripted peer',
   design='5/C11'),
 'C12': dict(level='model_checking', engine='E1-vloop',
   text='Queue world on the virtual loop with a virtual clock (due times compared exactly): 44 (quick) configurations of backoff sequences (incl. 0 and equal due times), 1-2 (3) messages, driver scripts with flush() at every position, 0-2 pre-stored messages loaded at start-up, wait() announcements, pools, all four backends; all schedules with <= d deviations x relay outcomes with <= dd non-default answers, quiescent states merged.  Monitors at every attempt and at every moment virtual time is about to advance: no attempt before due unless flushed, nothing due left on the timetable, every stored known message in flight or scheduled with a wake-up no later than the earliest due time, flush() returns without any timer/environment event and its messages are attempted at once; nothing outstanding at final quiescence.',
   note='time.time() in slimta.queue is rebound to the virtual clock; fake redis client.',
   technique='stateless deviation-bounded model checking on a virtual event loop and clock with online monitors at quiescent points',
   design='5/C12'),
 'C13': dict(level='model_checking', engine='E1-vloop',
   text='Queue world restricted to failure histories on all four backends: whole-message and per-recipient permanent failures with equal/different replies, retry exhaustion with grouped transient replies, unexpected exceptions, failing bounces, 1..3 (4) recipients, 8-bit original, empty sender, bounce factories default/headers-only/None, own or separate bounce queue; all outcome histories with <= dd non-default outcomes x schedules with <= d deviations.  Oracle: per failure event (attempt ordinal x permanent|exhausted) the bounces built and enqueued equal the reference grouping by (code, message); each bounce has the null sender, the original sender as only recipient, lists exactly its group, quotes the reply and embeds the original header block (+ body) unchanged; nothing for a null sender; messages created <= originals + failure groups.',
   note='Reply texts differ by recipient position parity so grouping is observable; the CRLF in front of a MIME boundary belongs to the boundary.',
   technique='stateless deviation-bounded model checking of the real queue with a reference bounce-grouping oracle',
   design='5/C13'),
 'C14': dict(level='fault_enumeration', engine='E1-vloop',
   text='Virtual time, so each stall is one deterministic execution with an exact deadline.  Server: the real SmtpEdge.handle (command_timeout 11, data_timeout 17) against 4 client sessions (plain, STARTTLS, immediate TLS, AUTH LOGIN) stalled at every stall point -- before any byte, after each command, at (almost) every byte offset inside a line, inside DATA, after end-of-data, at the TLS handshake, at each AUTH challenge -- silent or trickling one byte every 0.9 x timeout; the handler must have sent 421 and returned exactly at the command/data deadline.  Relay: real StaticSmtpRelay/StaticLmtpRelay (timeouts 7/11/13) against a scripted peer stalling or trickling at every stage incl. connect, TLS handshake, AUTH 334, per-recipient LMTP replies, PIPELINING on/off; attempt must end with a transient failure within the scope.  Pipe and HTTP relays: subprocess/origin never answers or stalls mid-headers.',
   note='gevent.Timeout runs on the virtual loop; fake TLS whose handshake blocks until the peer says hello.',
   technique='exhaustive stall-point enumeration on a virtual clock with exact-deadline oracle',
   design='5/C14'),
 'C15': dict(level='model_checking', engine='E1-vloop',
   text='BFS over histories of mutating storage operations on two 3-recipient messages (write, set_timestamp x2 values, increment_attempts, set_recipients_delivered once per message with 4 index lists, remove; depth 4 after the writes in quick, 5 in thorough) executed on each real backend (dict, disk on in-memory FS with 64-byte chunks, redis on fake client, cloud on fake object store); a state is the history replayed on a fresh backend, merged on the content of a dict-based reference store; after every operation the backend is observed completely (get of both ids, load, get of removed ids) and compared with the reference.  Thorough adds every pair of operations on different ids overlapping in time (disk: each aio completion an event; redis/cloud: each command), interleavings with <= 3 deviations, compared with the sequential run.',
   note='Fake redis/object store; ids compared after ASCII decoding; get of a removed id may raise any exception; single marking round per message (multi-round is C03).',
   technique='explicit-state BFS over operation histories on the real backends against a reference store, plus bounded interleaving exploration of overlapping operations',
   design='5/C15'),
 'C16': dict(level='exploration', engine='E1-vloop',
   text='Every recipient list of length 0..4 over 6-7 addresses (duplicates, mixed-case, missing/empty domains) x every chain (order and repetition) of <= 2 (quick) / <= 3 (thorough) policies out of 11 (both splits, 4 forwarding rule sets, 3 header policies, a policy returning its input, a policy returning input + copy) x Date/Message-Id present/absent, through the real Queue.enqueue on a recording storage; oracle: independent reference model of the policies (recipient multiset and grouping), same sender/body/original headers, aliasing probe on the written objects, Date/Message-Id/Received rules.',
   note='Grouping is judged by the documented policy definitions; text of added headers and order of written envelopes are not judged; collapse of an original duplicate would be tolerated (never observed).',
   technique='exhaustive enumeration of inputs x policy chains on the real Queue.enqueue against a reference model',
   design='5/C16'),
 'C18': dict(level='exploration', engine='E2-seq',
   text='The three PROXY-protocol mix-ins are driven through handle() on a stub edge over a scripted socket whose every recv_into size is a choice point.  204 v1 and 196 v2 well-formed base headers at field boundaries x 5 payloads, 145 near-boundary v1 lines, every single-byte corruption (position x 8 values) and every truncation of 27 bases, all 256 values of v2 bytes 12..15, declared lengths 0..320 (quick) / 0..65535 (thorough), all 1555 garbage strings of length <= 4 over 6 symbols x 5 tails, double corruptions of the signature region (thorough); ALL short-read segmentations for inputs whose reads are <= 48 bytes (merged on consumed bytes + live parser frame state), bounded short reads (d=1..3) + byte-at-a-time otherwise.  Oracle: strict three-valued reference parser, exact consumption, no stray exception, one observation per input.',
   note='Merge assumes parser state lives only in frame locals (the module has no other state); for reads > 16 bytes in bounded mode only sizes {1..4, n/2, n-4..n-1} are tried; spellings Python accepts but the spec forbids (leading zeros, +, _) are don\'t-care.',
   technique='exhaustive input enumeration (boundaries, corruptions, truncations, garbage) x exhaustive short-read exploration on the real parser against a reference parser',
   design='5/C18'),
 'C19': dict(level='model_checking', engine='E1-vloop',
   text='Layer A: the real RelayPool + BlockingDeque + RelayPoolClient.poll with a harness client following the documented pattern whose per-request behaviour is an explorer choice {deliver, fail, deliver-then-die, requeue-and-exit} and takes time; 2-3 (4) callers x pool_size {1,2,3,None} x idle_timeout {None,5}; all interleavings of attempt() calls, client start-up, polling, completions and idle expiry (virtual timer, incl. equal times) with <= d deviations, quiescent states merged.  Layer B: the real StaticSmtpRelay/SmtpRelayClient with 2-3 concurrent attempts against auto-answering scripted peers with explorer-placed faults (connection refused, 4xx/5xx on MAIL, unsolicited 421 between messages, delayed reply), pool_size {1,2}, idle_timeout {None,5}.  Monitors after every loop step and at quiescence: live clients/connections <= pool_size, len(deque) == semaphore counter, every attempt gets the result of its own envelope (peer tags replies), nothing stranded, no caller blocked, no MAIL inside a transaction or after a failed one without RSET.',
   note='A client that dies without setting or re-queueing its request is a client bug and is not generated; wait_read() in slimta.smtp.client is rebound to in-memory socket readiness.',
   technique='stateless deviation-bounded model checking of the real pool and relay clients on a virtual event loop with invariants checked after every step',
   design='5/C19'),
 'C20': dict(level='exploration', engine='pure-enumeration',
   text='Exhaustive within bounds: 1690 header blocks (1..3 fields, 5 value kinds incl. folded, 8-bit, 78-byte lines) x CRLF/LF x every body over {NUL,CR,LF,.,a,0xFF} up to length 2-5, plus "Name:value" forms; every byte string over {a,:,SP,CR,LF,0xFF} up to 6/7 bytes and sequences of long tokens for the never-raises claim; UTF-8 texts over {e-acute,a,CRLF} x 4 header sets x {base64, quoted-printable, none} for 7-bit conversion.  Oracle: independent header reader, byte-exact body, copy/pickle round trips, parse(flatten()) fixed point, stdlib parser as independent decoder.',
   note='7-bit "same text" is judged modulo line-end convention; control characters that split header lines are outside the quantifier.',
   technique='exhaustive input enumeration over small alphabets with round-trip and differential oracles',
   design='5/C20'),
}

def main():
    checks = []
    for pid in ALL:
        if pid not in CHECKS:
            continue
        c = CHECKS[pid]
        checks.append({
            'property_id': pid,
            'quick_cmd': '%s run_check.py %s quick' % (PY, pid),
            'thorough_cmd': '%s run_check.py %s thorough' % (PY, pid),
            'evidence_file': 'evidence/%s.json' % pid,
            'replay_cmd_template': '%s run_check.py %s --replay {path}' % (PY, pid),
            'engine': c['engine'],
            'level_claimed': {'category': c['level'], 'text': c['text'], 'design_ref': 'DESIGN.md section ' + c['design']},
            'level_note': c['note'],
            'technique': c['technique'],
        })
    na = [{'property_id': p, 'reason': 'check not built yet in this session (planned, see DESIGN.md section 5); not claimed until its check exists and is silent on the unchanged tree'}
          for p in ALL if p not in CHECKS]
    m = {
        'version': 1,
        'setup_cmd': '%s tools/setup.py' % PY,
        'hooks': {'guard': 'SLIMTA_VERIF', 'enable': 'no source hooks are needed: every seam is a module attribute or constructor argument rebound by the harness at run time',
                  'baseline_off_cmd': 'cd /repo && /venv/bin/python -m pytest -ra -q -p no:cacheprovider --timeout=900 --continue-on-collection-errors',
                  'source_commits': [], 'add_only': True},
        'engines': [
            {'name': 'E1-vloop', 'path': 'engine/vloop.py', 'kind_free_text': 'stateless deviation-bounded DFS over the real gevent code on a virtual event loop (virtual clock, env events and timers as choice points, quiescent-state merging)',
             'serves_properties': [p for p in ALL if p in CHECKS and CHECKS[p]['engine'].startswith('E1')]},
            {'name': 'E2-seq', 'path': 'engine/seq.py', 'kind_free_text': 'exhaustive exploration of blocking sequential code fed by a scripted socket (all segmentations by explicit state graph / continuation merging; operation-sequence BFS)',
             'serves_properties': [p for p in ALL if p in CHECKS and CHECKS[p]['engine'].startswith('E2')]},
            {'name': 'E3-crash', 'path': 'engine/memfs.py', 'kind_free_text': 'in-memory POSIX-like FS with effect log; every prefix of the log is a crash state',
             'serves_properties': [p for p in ALL if p in CHECKS and CHECKS[p]['engine'].startswith('E3')]},
        ],
        'checks': checks,
        'not_applicable': na,
        'notes': 'All checks explore the real implementation in /repo (put first on sys.path at run time; nothing is cached). See DESIGN.md.',
    }
    with open(os.path.join(HERE, 'MANIFEST.json'), 'w') as f:
        json.dump(m, f, indent=1)
    print('MANIFEST.json: %d checks, %d not_applicable' % (len(checks), len(na)))

if __name__ == '__main__':
    main()
