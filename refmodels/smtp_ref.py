"""Reference SMTP *edge session* automaton for C07 (and C08's gating rules).

Fed event by event (an event = bytes of one or more complete lines).  For every event it returns
what the property demands: the ordered list of reply *specs* and the ordered list of callbacks
(validator calls and queue hand-offs).  Reply specs:
   '2'  any 2xx     '354'/'334' exact intermediate     'err' any 4xx/5xx     'NNN' exact code
Where the library may legitimately end the session on an error path (421 "unhandled error"), the
reference learns it from the actual code: an 'err' spec answered with 421 closes the reference too
("a 221/421 reply ends the session").
"""
import base64
import re

_cmd = re.compile(br'^([A-Za-z]+)(?:\s+(.+?))?\s*$', re.S)
_from = re.compile(br'^[fF][rR][oO][mM]:\s*<')
_to = re.compile(br'^[tT][oO]:\s*<')


def _addr(arg, pat):
    m = pat.match(arg or b'')
    if not m:
        return None
    i, quoted, start = m.end(0), False, m.end(0)
    while i < len(arg):
        c = arg[i:i + 1]
        if c == b'\\' and quoted:
            i += 2              # quoted-pair: the next character is literal
            continue
        if c == b'"':
            quoted = not quoted
        elif c == b'>' and not quoted:
            return arg[start:i], arg[i + 1:]
        i += 1
    return None


def spec_matches(spec, code):
    if spec == '2':
        return code[0] == '2'
    if spec == 'err':
        return code[0] in '45'
    return spec == code


class Expect(object):
    def __init__(self):
        self.replies = []
        self.callbacks = []
        self.undefined = False      # the property does not define this event's outcome

    def __repr__(self):
        return 'Expect(replies=%r, callbacks=%r)' % (self.replies, self.callbacks)


class RefEdge(object):
    def __init__(self, size_limit=None, starttls=False, auth=False, tls_immediate=False):
        self.size_limit = size_limit
        self.starttls = starttls
        self.auth = auth
        self.tls = tls_immediate
        self.greeted = False
        self.helo = False
        self.mail = False
        self.rcpt = False
        self.authed = False
        self.closed = False
        self.sender = None
        self.rcpts = []
        self.in_data = False
        self.data_lines = []

    def key(self):
        return (self.greeted, self.helo, self.mail, self.rcpt, self.authed, self.closed, self.tls,
                self.starttls, self.auth, self.size_limit, self.sender, tuple(sorted(set(self.rcpts))))

    def _reset(self):
        self.mail = self.rcpt = False
        self.sender, self.rcpts = None, []

    # ---- one reply: returns True when the session closes on it
    def _say(self, ex, spec, actual):
        ex.replies.append(spec)
        code = actual.pop(0) if actual else None
        if spec in ('221', '421'):
            self.closed = True
        elif spec == 'err' and code == '421':
            self.closed = True
        return self.closed

    def _cb(self, ex, verdict, name, *args):
        """record a callback; returns the verdict code if the validator rejects."""
        ex.callbacks.append((name, self.tls) + args)
        if verdict is not None and verdict[0] == name:
            return verdict[1]
        return None

    def connect(self, verdict, actual):
        ex = Expect()
        if self.tls:
            ex.callbacks.append(('TLS', True))
        v = self._cb(ex, verdict, 'BANNER')
        if v:
            self._say(ex, v, actual)
        else:
            self._say(ex, '220', actual)
            self.greeted = True
        return ex

    def feed(self, data, verdict, actual):
        """data: complete lines.  actual: list of actual final reply codes for this event (consumed
        only to learn about closure on error paths)."""
        ex = Expect()
        actual = list(actual or [])
        pos = 0
        while pos < len(data) and not self.closed:
            nl = data.find(b'\n', pos)
            if nl < 0:
                break
            raw = data[pos:nl + 1]
            pos = nl + 1
            if self.in_data:
                if raw in (b'.\r\n', b'.\n'):
                    self.in_data = False
                    content = b''.join(self.data_lines)
                    self.data_lines = []
                    if self.size_limit is not None and len(content) > self.size_limit:
                        self._say(ex, 'err', actual)
                    else:
                        v = self._cb(ex, verdict, 'HAVE_DATA', content)
                        if v:
                            self._say(ex, v, actual)
                        else:
                            ex.callbacks.append(('HANDOFF', self.tls, self.sender.decode('utf-8'),
                                                 tuple(r.decode('utf-8') for r in self.rcpts), content))
                            self._say(ex, '2', actual)
                    self._reset()
                else:
                    self.data_lines.append(raw[1:] if raw.startswith(b'.') else raw)
                continue
            line = raw[:-1]
            if line.endswith(b'\r'):
                line = line[:-1]
            self._command(ex, line, verdict, actual)
        return ex

    def _command(self, ex, line, verdict, actual):
        m = _cmd.match(line)
        if not m:
            return self._say(ex, 'err', actual)
        cmd, arg = m.group(1).upper(), m.group(2)
        try:
            (arg or b'').decode('utf-8')
        except UnicodeDecodeError:
            # undefined by the property beyond "error reply, no callback"; the library drops the session
            ex.undefined = True
            self._say(ex, 'err', actual)
            self.closed = True
            return
        if cmd in (b'EHLO', b'HELO'):
            if not self.greeted or not arg:
                return self._say(ex, 'err', actual)
            v = self._cb(ex, verdict, cmd.decode(), arg.decode('utf-8'))
            if v:
                return self._say(ex, v, actual)
            self._say(ex, '250', actual)
            self.helo = True
            self._reset()
            if cmd == b'HELO':
                # plain SMTP session: no extensions any more
                self.starttls = self.auth = False
                self.size_limit = None
            return
        if cmd == b'MAIL':
            a = _addr(arg, _from)
            if a is None or not self.helo or self.mail:
                return self._say(ex, 'err', actual)
            sz = re.search(br'\bSIZE(?:=(\S*))?', a[1], re.I)
            if sz is not None:
                val = sz.group(1) or b''
                if not val.isdigit() or self.size_limit is None or int(val) > self.size_limit:
                    return self._say(ex, 'err', actual)
            v = self._cb(ex, verdict, 'MAIL', a[0].decode('utf-8'))
            if v:
                return self._say(ex, v, actual)
            self._say(ex, '250', actual)
            self.mail, self.sender = True, a[0]
            return
        if cmd == b'RCPT':
            a = _addr(arg, _to)
            if a is None or not self.mail:
                return self._say(ex, 'err', actual)
            v = self._cb(ex, verdict, 'RCPT', a[0].decode('utf-8'))
            if v:
                return self._say(ex, v, actual)
            self._say(ex, '250', actual)
            self.rcpt = True
            self.rcpts.append(a[0])
            return
        if cmd == b'DATA':
            if arg or not (self.mail and self.rcpt):
                return self._say(ex, 'err', actual)
            v = self._cb(ex, verdict, 'DATA')
            if v:
                return self._say(ex, v, actual)
            self._say(ex, '354', actual)
            self.in_data = True
            return
        if cmd == b'RSET':
            if arg:
                return self._say(ex, 'err', actual)
            self._say(ex, '250', actual)
            self._reset()
            return
        if cmd == b'NOOP':
            return self._say(ex, '250', actual)
        if cmd == b'XHELP':
            self._cb(ex, None, 'XHELP', arg.decode('latin-1') if arg else None)
            return self._say(ex, '214', actual)
        if cmd == b'XCUST':
            # application-defined command: handed to the application in any state, which accepts it; no state change
            self._cb(ex, None, 'XCUST', arg.decode('latin-1') if arg else None)
            return self._say(ex, '250', actual)
        if cmd == b'QUIT':
            if arg:
                return self._say(ex, 'err', actual)
            return self._say(ex, '221', actual)
        if cmd == b'STARTTLS':
            if not self.starttls or arg or not self.helo:
                return self._say(ex, 'err', actual)
            self._say(ex, '220', actual)
            ex.callbacks.append(('TLS', True))
            self.tls = True
            self.helo = False
            self.starttls = False
            self._reset()             # C08: no open transaction survives the handshake
            return
        if cmd == b'AUTH':
            if not self.auth or not self.helo or self.authed or self.mail or not arg:
                return self._say(ex, 'err', actual)
            parts = arg.split(None, 1)
            if parts[0].upper() != b'PLAIN' or len(parts) != 2:
                ex.undefined = True       # other mechanisms / challenge flows are C08's business
                return self._say(ex, 'err', actual)
            try:
                raw = base64.b64decode(parts[1], validate=True)
                z, c, s = raw.split(b'\x00')
            except Exception:
                return self._say(ex, 'err', actual)
            if not self.tls:
                # PLAIN on an unencrypted session must be refused (C08)
                return self._say(ex, 'err', actual)
            v = self._cb(ex, verdict, 'AUTH', c.decode('utf-8'), s.decode('utf-8'), z.decode('utf-8') or None)
            if v:
                return self._say(ex, v, actual)
            self._say(ex, '235', actual)
            self.authed = True
            return
        return self._say(ex, 'err', actual)
