"""Boring reference SMTP server session: parses a client *byte stream* the way RFC 5321 says and
reports (callback trace, reply-code list).  Independent of slimta's parser on purpose.

Only what the properties state is modelled: command order, transaction reset, DATA framing, SIZE.
``verdict(callback_name, args) -> code or None`` lets the caller script validator decisions
(None = accept).
"""
import re

_cmd = re.compile(br'^([A-Za-z]+)(?:[ \t]+(.*?))?[ \t]*$', re.S)
_from = re.compile(br'^[fF][rR][oO][mM]:\s*<')
_to = re.compile(br'^[tT][oO]:\s*<')


def _addr(arg, pat):
    """-> (address bytes, rest) or None.  '>' inside a quoted string does not end the address."""
    m = pat.match(arg or b'')
    if not m:
        return None
    i, quoted = m.end(0), False
    start = i
    while i < len(arg):
        c = arg[i:i + 1]
        if c == b'"':
            quoted = not quoted
        elif c == b'>' and not quoted:
            return arg[start:i], arg[i + 1:]
        i += 1
    return None


class RefSession(object):
    def __init__(self, size_limit=None, verdict=None):
        self.size_limit = size_limit
        self.verdict = verdict or (lambda name, args: None)
        self.trace = []
        self.codes = []
        self.ehlo = False
        self.mail = False
        self.rcpt = False
        self.sender = None
        self.rcpts = []
        self.closed = False

    def _reply(self, code):
        self.codes.append(code)
        if code in ('221', '421'):
            self.closed = True

    def _call(self, name, *args):
        self.trace.append((name,) + args)
        v = self.verdict(name, args)
        return v

    def _reset(self):
        self.mail = self.rcpt = False
        self.sender, self.rcpts = None, []

    def run(self, stream):
        """Feed the whole client stream; returns (trace, codes, leftover-was-incomplete-line)."""
        v = self._call('BANNER')
        self._reply(v or '220')
        pos = 0
        n = len(stream)
        while not self.closed:
            nl = stream.find(b'\n', pos)
            if nl < 0:
                break                       # EOF (possibly mid-line): connection lost
            line = stream[pos:nl]
            if line.endswith(b'\r'):
                line = line[:-1]
            pos = nl + 1
            m = _cmd.match(line)
            if not m:
                self._reply('500')
                continue
            cmd, arg = m.group(1).upper(), m.group(2)
            if cmd in (b'EHLO', b'HELO'):
                if not arg:
                    self._reply('501')
                    continue
                v = self._call(cmd.decode(), arg.decode('utf-8', 'replace'))
                self._reply(v or '250')
                if not v:
                    self.ehlo = True
                    self._reset()
            elif cmd == b'MAIL':
                a = _addr(arg, _from)
                if a is None:
                    self._reply('501')
                elif not self.ehlo or self.mail:
                    self._reply('503')
                else:
                    sz = re.search(br'\bSIZE=(\S+)', a[1], re.I)
                    if sz is not None:
                        if not sz.group(1).isdigit():
                            self._reply('501')
                            continue
                        if self.size_limit is None:
                            self._reply('504')
                            continue
                        if int(sz.group(1)) > self.size_limit:
                            self._reply('552')
                            continue
                    v = self._call('MAIL', a[0].decode('utf-8', 'replace'))
                    self._reply(v or '250')
                    if not v:
                        self.mail = True
                        self.sender = a[0]
            elif cmd == b'RCPT':
                a = _addr(arg, _to)
                if a is None:
                    self._reply('501')
                elif not self.mail:
                    self._reply('503')
                else:
                    v = self._call('RCPT', a[0].decode('utf-8', 'replace'))
                    self._reply(v or '250')
                    if not v:
                        self.rcpt = True
                        self.rcpts.append(a[0])
            elif cmd == b'DATA':
                if arg:
                    self._reply('501')
                elif not (self.mail and self.rcpt):
                    self._reply('503')
                else:
                    v = self._call('DATA')
                    self._reply(v or '354')
                    if v:
                        continue
                    # content mode: up to and including the first <LF>.<CRLF> (or leading .<CRLF>)
                    lines = []
                    done = False
                    while True:
                        nl = stream.find(b'\n', pos)
                        if nl < 0:
                            break
                        ln = stream[pos:nl + 1]
                        pos = nl + 1
                        if ln in (b'.\r\n', b'.\n'):
                            done = True
                            break
                        if ln.startswith(b'.'):
                            ln = ln[1:]
                        lines.append(ln)
                    if not done:
                        break               # connection lost inside DATA: no HAVE_DATA callback
                    content = b''.join(lines)
                    if self.size_limit is not None and len(content) > self.size_limit:
                        v = self._call('HAVE_DATA', None, 'MessageTooBig')
                        self._reply(v or '552')
                    else:
                        v = self._call('HAVE_DATA', content, None)
                        self._reply(v or '250')
                    self._reset()
            elif cmd == b'RSET':
                if arg:
                    self._reply('501')
                else:
                    v = self._call('RSET')
                    self._reply(v or '250')
                    if not v:
                        self._reset()
            elif cmd == b'NOOP':
                v = self._call('NOOP')
                self._reply(v or '250')
            elif cmd == b'QUIT':
                if arg:
                    self._reply('501')
                else:
                    v = self._call('QUIT')
                    self._reply(v or '221')
            else:
                self._reply('500')
        return tuple(self.trace), tuple(self.codes)
