"""Strict, three-valued reference parser for the PROXY protocol, written from the specification
(haproxy doc/proxy-protocol.txt, sections 2.1 and 2.2) and *not* from slimta's code.

``parse_v1 / parse_v2 / parse_auto (stream) -> Verdict`` look at the whole byte stream a
connection delivers (header followed by payload, or cut short by EOF) and say what a receiver
is allowed to do with it:

  status 'wellformed'  the header is exactly as the spec writes it.  ``hlen`` bytes belong to the
                       header; ``src`` lists the acceptable source addresses (one entry, two for a
                       UNIX path with an embedded NUL), ``local`` tells a v2 LOCAL command.
  status 'malformed'   the spec forbids it / it is cut short: the receiver must fall back to the
                       "invalid" address (``local`` True: a LOCAL command was seen, dropping the
                       connection is acceptable too).
  status 'dontcare'    spellings the spec forbids or leaves open but that common lenient parsers
                       (``int()``, ``inet_pton``) may accept: leading zeros, signs, underscores or
                       white space in numbers, IPv6 with an embedded dotted quad, ``::`` standing
                       for no group, family/protocol combinations that are not in the spec's list
                       of valid ones, TLV regions that do not parse as TLVs, a LOCAL command
                       whose (ignored) address block does not fit its family, "UNKNOWN" glued to
                       further characters.  Either answer is fine.
  ``limit``            in every case: the number of bytes a receiver may consume at most
                       (107 for v1, 16 + declared length for v2).
  ``cls``              a short name of the input class (used in violation signatures).
"""
import re
import socket
import struct

V2SIG = b'\r\n\r\n\x00\r\nQUIT\n'
UNKNOWN = 'UNKNOWN'          # symbolic: the module's unknown address
V1_MAX = 107

_HEX = frozenset(b'0123456789abcdefABCDEF')
_DIG = frozenset(b'0123456789')
_PORT_LENIENT = frozenset(b'0123456789+-_ \t\n\r\x0b\x0c')
_RE_PORT = re.compile(br'\A(0|[1-9][0-9]{0,4})\Z')
_RE_DEC = re.compile(br'\A[0-9]+\Z')
_RE_V4 = re.compile(br'\A(0|[1-9][0-9]{0,2})\.(0|[1-9][0-9]{0,2})\.(0|[1-9][0-9]{0,2})\.(0|[1-9][0-9]{0,2})\Z')


class Verdict(object):
    __slots__ = ('status', 'version', 'cls', 'hlen', 'limit', 'src', 'dst', 'local')

    def __init__(self, status, version, cls, limit, hlen=None, src=None, dst=None, local=False):
        self.status, self.version, self.cls, self.limit = status, version, cls, limit
        self.hlen, self.src, self.dst, self.local = hlen, src, dst, local

    def __repr__(self):
        return 'Verdict(%s %s %s limit=%r hlen=%r src=%r local=%r)' % (
            self.status, self.version, self.cls, self.limit, self.hlen, self.src, self.local)


# ---------------------------------------------------------------------------- field parsers
# each returns ('ok', value) | ('lenient', None) | ('bad', None)

def port_field(b):
    if _RE_PORT.match(b):
        v = int(b.decode('ascii'))
        return ('ok', v) if v <= 65535 else ('bad', None)
    if _RE_DEC.match(b):
        if b[0:1] != b'0':
            return ('bad', None)              # plain decimal, more than five digits: out of range
        return ('lenient', None)              # leading zeros
    if b and all(c in _PORT_LENIENT for c in b) and any(c in _DIG for c in b):
        return ('lenient', None)              # sign / underscore / white space around digits
    return ('bad', None)


def ipv4_field(b):
    m = _RE_V4.match(b)
    if m:
        octets = [int(g) for g in m.groups()]
        if all(o <= 255 for o in octets):
            return ('ok', socket.inet_ntop(socket.AF_INET, bytes(octets)))
        return ('bad', None)
    parts = b.split(b'.')
    if len(parts) == 4 and all(_RE_DEC.match(p) for p in parts) and all(int(p) <= 255 for p in parts):
        return ('lenient', None)              # only leading zeros distinguish it from the strict form
    return ('bad', None)


def _groups(b):
    """list of 16-bit ints for a colon separated run of 1-4 digit hex groups ('' -> [])."""
    if b == b'':
        return []
    out = []
    for g in b.split(b':'):
        if not (1 <= len(g) <= 4) or not all(c in _HEX for c in g):
            return None
        out.append(int(g.decode('ascii'), 16))
    return out


def ipv6_field(b):
    if b == b'' or not all((c in _HEX) or c == 0x3a or c == 0x2e for c in b):
        return ('bad', None)
    if b'.' in b:
        return ('lenient', None)              # embedded dotted quad: not the spec's format
    if b.count(b'::') > 1 or b':::' in b:
        return ('bad', None)
    if b'::' in b:
        left, right = b.split(b'::')
        lg, rg = _groups(left), _groups(right)
        if lg is None or rg is None or len(lg) + len(rg) > 8:
            return ('bad', None)
        if len(lg) + len(rg) == 8:
            return ('lenient', None)          # '::' standing for nothing
        words = lg + [0] * (8 - len(lg) - len(rg)) + rg
    else:
        words = _groups(b)
        if words is None or len(words) != 8:
            return ('bad', None)
    return ('ok', socket.inet_ntop(socket.AF_INET6, struct.pack('!8H', *words)))


# ---------------------------------------------------------------------------- version 1

def parse_v1(stream):
    head = stream[:V1_MAX]
    i = head.find(b'\r\n')
    if i < 0:
        if len(stream) < V1_MAX:
            return Verdict('malformed', 1, 'v1-truncated', V1_MAX)
        return Verdict('malformed', 1, 'v1-no-crlf-in-107', V1_MAX)
    line, hlen = stream[:i], i + 2
    if line[:6] != b'PROXY ':
        return Verdict('malformed', 1, 'v1-bad-signature', V1_MAX)
    fields = line[6:].split(b' ')
    proto = fields[0]
    if proto == b'UNKNOWN':
        return Verdict('wellformed', 1, 'v1-unknown', V1_MAX, hlen, [UNKNOWN], [UNKNOWN])
    if proto.startswith(b'UNKNOWN'):
        return Verdict('dontcare', 1, 'v1-unknown-glued', V1_MAX)
    if proto == b'TCP4':
        ipf, name = ipv4_field, 'tcp4'
    elif proto == b'TCP6':
        ipf, name = ipv6_field, 'tcp6'
    else:
        return Verdict('malformed', 1, 'v1-bad-family', V1_MAX)
    if len(fields) != 5:
        return Verdict('malformed', 1, 'v1-field-count', V1_MAX)
    sip, dip = ipf(fields[1]), ipf(fields[2])
    spt, dpt = port_field(fields[3]), port_field(fields[4])
    if sip[0] == 'bad' or dip[0] == 'bad':
        return Verdict('malformed', 1, 'v1-bad-ip', V1_MAX)
    if spt[0] == 'bad' or dpt[0] == 'bad':
        return Verdict('malformed', 1, 'v1-bad-port', V1_MAX)
    if sip[0] == 'lenient' or dip[0] == 'lenient':
        return Verdict('dontcare', 1, 'v1-lenient-ip', V1_MAX)
    if spt[0] == 'lenient' or dpt[0] == 'lenient':
        return Verdict('dontcare', 1, 'v1-lenient-port', V1_MAX)
    return Verdict('wellformed', 1, 'v1-' + name, V1_MAX, hlen,
                   [(sip[1], spt[1])], [(dip[1], dpt[1])])


# ---------------------------------------------------------------------------- version 2

ADDR_LEN = {1: 12, 2: 36, 3: 216, 0: 0}
FAM_NAME = {0: 'unspec', 1: 'inet', 2: 'inet6', 3: 'unix'}
VALID_COMBOS = frozenset([0x00, 0x11, 0x12, 0x21, 0x22, 0x31, 0x32])


def tlv_ok(b):
    i = 0
    while i < len(b):
        if len(b) - i < 3:
            return False
        i += 3 + struct.unpack('!H', b[i + 1:i + 3])[0]
    return i == len(b)


def _unix_alts(raw):
    stripped = raw.rstrip(b'\x00')
    cstr = raw.split(b'\x00', 1)[0]
    return [stripped] if stripped == cstr else [stripped, cstr]


def parse_v2(stream):
    if len(stream) < 16:
        return Verdict('malformed', 2, 'v2-truncated', 16)
    declared = struct.unpack('!H', stream[14:16])[0]
    limit = 16 + declared
    if stream[:12] != V2SIG:
        return Verdict('malformed', 2, 'v2-bad-signature', limit)
    if stream[12] & 0xf0 != 0x20:
        return Verdict('malformed', 2, 'v2-bad-version', limit)
    cmd = stream[12] & 0x0f
    if cmd > 1:
        # "Receivers must drop connections presenting unexpected values here."
        return Verdict('malformed', 2, 'v2-bad-command', limit, local=True)
    local = cmd == 0
    if len(stream) < limit:
        return Verdict('malformed', 2, 'v2-truncated', limit, local=local)
    fam, proto = stream[13] >> 4, stream[13] & 0x0f
    block = stream[16:limit]
    if local:
        # the block, family included, is to be discarded; a block that would not even parse for
        # its family is left open (receivers differ), everything else must be a clean LOCAL
        if stream[13] in VALID_COMBOS and declared >= ADDR_LEN[fam] and \
                (fam == 0 or tlv_ok(block[ADDR_LEN[fam]:])):
            return Verdict('wellformed', 2, 'v2-local', limit, limit, [], [], local=True)
        return Verdict('dontcare', 2, 'v2-local-odd-block', limit, local=True)
    if fam not in ADDR_LEN:
        return Verdict('malformed', 2, 'v2-bad-family', limit)
    if proto > 2:
        # "must be rejected as invalid by receivers"
        return Verdict('malformed', 2, 'v2-bad-protocol', limit)
    if stream[13] not in VALID_COMBOS:
        return Verdict('dontcare', 2, 'v2-combo-not-listed', limit)
    need = ADDR_LEN[fam]
    if declared < need:
        return Verdict('malformed', 2, 'v2-short-address-block', limit)
    if fam != 0 and not tlv_ok(block[need:]):
        return Verdict('dontcare', 2, 'v2-tlv-unparseable', limit)
    if fam == 0:
        return Verdict('wellformed', 2, 'v2-unspec', limit, limit, [UNKNOWN], [UNKNOWN])
    if fam == 1:
        s, d, sp, dp = struct.unpack('!4s4sHH', block[:12])
        return Verdict('wellformed', 2, 'v2-inet', limit, limit,
                       [(socket.inet_ntop(socket.AF_INET, s), sp)], [(socket.inet_ntop(socket.AF_INET, d), dp)])
    if fam == 2:
        s, d, sp, dp = struct.unpack('!16s16sHH', block[:36])
        return Verdict('wellformed', 2, 'v2-inet6', limit, limit,
                       [(socket.inet_ntop(socket.AF_INET6, s), sp)], [(socket.inet_ntop(socket.AF_INET6, d), dp)])
    return Verdict('wellformed', 2, 'v2-unix', limit, limit, _unix_alts(block[:108]), _unix_alts(block[108:216]))


# ---------------------------------------------------------------------------- auto detection

def parse_auto(stream):
    """The first eight bytes decide: the v2 signature starts with CR LF CR LF NUL CR LF 'Q', a v1
    line with 'PROXY '.  Anything else is neither (limit: the larger v1 bound)."""
    if len(stream) >= 8 and stream[:8] == V2SIG[:8]:
        return parse_v2(stream)
    if len(stream) < 8 and V2SIG[:8].startswith(stream[:8]) and stream:
        return Verdict('malformed', 2, 'v2-truncated', 16)
    return parse_v1(stream)


PARSERS = {'v1': parse_v1, 'v2': parse_v2, 'auto': parse_auto}


# ---------------------------------------------------------------------------- builders

def build_v1(proto, src=None, dst=None, sport=None, dport=None, tail=None):
    if proto == 'UNKNOWN':
        return b'PROXY UNKNOWN' + (tail or b'') + b'\r\n'
    return ('PROXY %s %s %s %s %s\r\n' % (proto, src, dst, sport, dport)).encode('ascii')


def build_v2(cmd, fam, proto, addr_block, declared=None, vercmd=None, famproto=None):
    """cmd 0/1, fam 0..3, proto 0..2; ``declared`` defaults to len(addr_block)."""
    b12 = (0x20 | cmd) if vercmd is None else vercmd
    b13 = ((fam << 4) | proto) if famproto is None else famproto
    n = len(addr_block) if declared is None else declared
    return V2SIG + bytes([b12, b13]) + struct.pack('!H', n) + addr_block


def inet_block(src, sport, dst, dport):
    return socket.inet_pton(socket.AF_INET, src) + socket.inet_pton(socket.AF_INET, dst) + struct.pack('!HH', sport, dport)


def inet6_block(src, sport, dst, dport):
    return socket.inet_pton(socket.AF_INET6, src) + socket.inet_pton(socket.AF_INET6, dst) + struct.pack('!HH', sport, dport)


def unix_block(src, dst):
    return src.ljust(108, b'\x00') + dst.ljust(108, b'\x00')


def tlv_bytes(k):
    """k bytes of TLV area: a NOOP (type 4) TLV when k >= 3, else k filler bytes (unparseable)."""
    if k <= 0:
        return b''
    if k < 3:
        return b'\x04' * k
    return b'\x04' + struct.pack('!H', k - 3) + b'\xa5' * (k - 3)
