"""The queue world: a real slimta.queue.Queue on the virtual loop with a real storage backend
(dict / disk-on-memfs / redis-on-fake / cloud-on-fake), a scripted relay whose outcomes are
explorer choices, a driver greenlet issuing API calls as environment events, and monitors that
only observe and forward.  Shared by C01, C03, C12, C13 (and C02's slow-write machinery).
"""
import itertools
import re

import gevent
from gevent.event import AsyncResult

import slimta.queue as Q
import slimta.queue.dict as QD
import slimta.bounce as B
import slimta.diskstorage            # noqa: imported up front so that World can rebind their uuid/time
import slimta.redisstorage           # noqa
import slimta.cloudstorage           # noqa
import slimta.queue.proxy            # noqa
import slimta.policy.headers         # noqa
from slimta.queue import Queue, QueueStorage, QueueError
from slimta.queue.dict import DictStorage
from slimta.relay import Relay, TransientRelayError, PermanentRelayError
from slimta.envelope import Envelope
from slimta.smtp.reply import Reply
from slimta.bounce import Bounce

from engine.vloop import World
from engine.core import HarnessError

UUID_MODULES = ('slimta.queue.dict', 'slimta.diskstorage', 'slimta.redisstorage', 'slimta.bounce',
                'slimta.queue.proxy', 'slimta.policy.headers')

BACKOFFS = {
    'never': (),                     # default: no retry at all
    'r0x2': (0.0, 0.0),              # two immediate retries
    'r10': (10.0,),                  # one retry after 10 s
    'r10-20': (10.0, 20.0),
    'r5-5': (5.0, 5.0),              # equal waits (equal due times across messages)
    'r0-10': (0.0, 10.0),
}


def make_backoff(name):
    waits = BACKOFFS[name]

    def backoff(envelope, attempts):
        return waits[attempts - 1] if 0 < attempts <= len(waits) else None
    return backoff


def outcome_menu(n, per_recipient=True, sequences=False, boom=True, reply_ok=True, reversed_maps=False):
    """Ordered simplest-first list of attempt outcomes over n current recipients."""
    m = ['ok']
    if reply_ok:
        m.append('ok-reply')
    m += ['temp', 'perm']
    if boom:
        m.append('boom')
    if per_recipient and n >= 1:
        for assign in itertools.product('otp', repeat=n):
            m.append('map:' + ''.join(assign))
        if sequences:
            for assign in itertools.product('otp', repeat=n):
                m.append('seq:' + ''.join(assign))
        if reversed_maps and n >= 2:
            # the same mappings, built in reverse recipient order (a dict's order is not part of the contract)
            for assign in itertools.product('otp', repeat=n):
                if len(set(assign)) > 1:
                    m.append('rmap:' + ''.join(assign))
    return m


def make_envelope(i, n, sender=None, body=b'Subject: m\r\n\r\nbody\r\n', unicode_rcpts=False):
    rc = ['r%d%d@y' % (i, j) for j in range(n)]
    if unicode_rcpts:
        rc = ['r\u00e9%d%d@y' % (i, j) if j % 2 == 0 else r for j, r in enumerate(rc)]      # legal with SMTPUTF8
    e = Envelope(('s%d@x' % i) if sender is None else sender, rc)
    e.parse(body)
    e.client = {'ip': '192.0.2.9', 'name': 'client', 'host': None, 'protocol': 'ESMTP'}
    e.receiver = 'mx.test'
    e.timestamp = 0
    return e


class ScriptedRelay(Relay):
    def __init__(self, qw):
        super(ScriptedRelay, self).__init__()
        self.qw = qw

    def attempt(self, envelope, attempts):
        return self.qw.relay_attempt(envelope, attempts)


class MonitoredStore(QueueStorage):
    """Forwards to the real backend; records every call; can make an operation slow."""

    def __init__(self, qw, inner):
        self.qw = qw
        self.inner = inner

    def _call(self, op, qid, fn, *a):
        qw = self.qw
        n = qw.op_counter = qw.op_counter + 1
        if op in qw.slow_ops:
            if qw.ch.choose(2, 'slow:%s' % op, 'sched') == 1:
                qw.world.env_wait('store-%s#%d' % (op, n))
        if op in qw.fail_ops:
            # the storage may fail this operation (an I/O error of the substrate): a data choice
            if qw.ch.choose(2, 'fail:%s' % op, 'data') == 1:
                qw.ev('store', op, qw.sid(qid), 'raised:IOError(injected)')
                qw.store_faults += 1
                raise IOError('injected failure of %s' % op)
        try:
            r = fn(*a)
        except BaseException as e:
            qw.ev('store', op, qw.sid(qid), 'raised:' + type(e).__name__)
            raise
        return r

    def write(self, envelope, timestamp):
        # a backend may make the new message visible (and announce it) before write() returns: the harness learns the id
        # at that instant (see the redis backend) and completes the bookkeeping here otherwise
        self.qw.writing[gevent.getcurrent()] = (envelope, timestamp)
        try:
            qid = self._call('write', None, self.inner.write, envelope, timestamp)
        finally:
            self.qw.writing.pop(gevent.getcurrent(), None)
        self.qw.on_write(qid, envelope, timestamp)
        return qid

    def set_timestamp(self, id, timestamp):
        r = self._call('set_timestamp', id, self.inner.set_timestamp, id, timestamp)
        self.qw.ev('store', 'set_timestamp', self.qw.sid(id), round(timestamp - self.qw.t0, 6))
        self.qw.due[self.qw.sid(id)] = timestamp
        self.qw.stored_ts[self.qw.sid(id)] = timestamp
        self.qw.flushed.discard(self.qw.sid(id))
        return r

    def increment_attempts(self, id):
        r = self._call('increment_attempts', id, self.inner.increment_attempts, id)
        self.qw.last_incr[gevent.getcurrent()] = self.qw.sid(id)
        self.qw.ev('store', 'increment_attempts', self.qw.sid(id), r)
        return r

    def set_recipients_delivered(self, id, rcpt_indexes):
        r = self._call('set_recipients_delivered', id, self.inner.set_recipients_delivered, id, rcpt_indexes)
        self.qw.ev('store', 'set_recipients_delivered', self.qw.sid(id), tuple(sorted(rcpt_indexes)))
        return r

    def load(self):
        """A generator like the real backends' load().  With 'load-step' in slow_ops it behaves like redis/disk/cloud:
        the ids are listed in one go, then every record costs one I/O round trip during which other greenlets run."""
        qw = self.qw
        res = []
        inner = self._call('load', None, self.inner.load)
        if 'load-step' in qw.slow_ops:
            inner = list(inner)
        for entry in inner:
            if 'load-step' in qw.slow_ops:
                if qw.ch.choose(2, 'slow:load-step', 'sched') == 1:
                    qw.world.env_wait('store-load-step#%d' % len(res))
            res.append(entry)
            qw.known.add(qw.sid(entry[1]))
            yield entry
        qw.ev('store', 'load', None, tuple(sorted((round(t - qw.t0, 6), qw.sid(i)) for t, i in res)))

    def get(self, id):
        sid = self.qw.sid(id)
        self.qw.transit[sid] = self.qw.transit.get(sid, 0) + 1
        try:
            env, attempts = self._call('get', id, self.inner.get, id)
            if 'get-late' in self.qw.slow_ops:
                # the storage has answered (for disk/redis/cloud/shelve: with a copy of what it held at that moment) but the
                # answer reaches the caller late: what it carries may be stale by then
                if self.qw.ch.choose(2, 'slow:get-late', 'sched') == 1:
                    self.qw.world.env_wait('store-get-answer#%d' % self.qw.op_counter)
        finally:
            self.qw.transit[sid] -= 1
        self.qw.on_get(id, env, attempts)
        return env, attempts

    def remove(self, id):
        r = self._call('remove', id, self.inner.remove, id)
        self.qw.on_remove(id)
        return r

    def wait(self):
        if self.qw.harness_wait:
            w = AsyncResult()
            self.qw.waiters.append(w)
            entries = w.get()
            for t, i in entries:
                self.qw.known.add(self.qw.sid(i))
                self.qw.ev('announce', self.qw.sid(i))
            return entries
        res = self.inner.wait()
        res = list(res) if res is not None else []
        for t, i in res:
            self.qw.known.add(self.qw.sid(i))
            self.qw.ev('announce', self.qw.sid(i))
        return res

    def get_info(self):
        return self.inner.get_info()


class QueueWorld(object):
    """One execution.  ``cfg`` keys (all optional except backend):
      backend: dict|disk|redis|cloud      backoff: name in BACKOFFS      n: recipients per message
      messages: number of messages the driver enqueues          prestored: number stored before start
      script: list of driver actions after start, each ('enqueue', i) | ('flush',) | ('announce', i) | ('restart',)
      store_pool / relay_pool: None or int        bounce: 'default'|'none'|'headers-only'
      bounce_queue: 'self'|'separate'             senders: {i: sender}   (e.g. '' for a null sender)
      menu: kwargs for outcome_menu               slow_ops: iterable of storage op names that may be slow
      fail_ops: iterable of storage op names that may raise IOError (data choice)
      harness_wait: wait() announcements come from the driver (dict backend)
      max_attempts: after this many attempts of one message only final outcomes are offered
    """

    def __init__(self, ch, cfg):
        self.ch = ch
        self.cfg = cfg
        self.events = []
        self.op_counter = 0
        self.slow_ops = set(cfg.get('slow_ops', ()))
        self.fail_ops = set(cfg.get('fail_ops', ()))
        self.store_faults = 0
        self.harness_wait = cfg.get('harness_wait', False)
        self.waiters = []
        self.transit = {}
        self.stored_ts = {}
        self.index_model_differs = False
        self.flushed = set()           # ids flushed since their last set_timestamp
        self.last_incr = {}
        self.envs = []                 # keep envelope objects alive (id() stability)
        self.env_qid = {}              # id(envelope object) -> qid
        self.ledger = {}               # qid -> dict(sender, original, outstanding(list), delivered, failed{rcpt:reply}, bounce(bool), removed, attempts)
        self.writing = {}              # greenlet -> (envelope, timestamp) of the store.write() it is inside
        self.due = {}
        self.known = set()
        self.inflight = {}             # qid -> number of running attempts
        self.attempts = []             # dicts
        self.bounces = []              # dicts: orig_rcpts, reply, sender, produced(bool), enqueued(bool), headers_only
        self.flushes = []
        self.total_messages = 0
        self.violations = []           # (kind, detail) raised by online monitors
        self.real_reports = {}

    # ---- helpers
    def sid(self, qid):
        if isinstance(qid, bytes):
            return qid.decode('ascii')
        return qid

    def ev(self, *a):
        self.events.append((round(self.world.now, 6),) + a)

    def flag(self, kind, detail):
        self.violations.append((kind, detail))

    # ---- storage callbacks
    def on_write(self, qid, envelope, timestamp):
        qid = self.sid(qid)
        if qid in self.ledger and self.env_qid.get(id(envelope)) == qid:
            return          # registered already when the backend made it visible
        self.envs.append(envelope)
        self.env_qid[id(envelope)] = qid
        self.total_messages += 1
        self.known.add(qid)
        self.due[qid] = timestamp
        self.stored_ts[qid] = timestamp
        self.ledger[qid] = dict(sender=envelope.sender, original=list(envelope.recipients),
                                outstanding=list(envelope.recipients), delivered=[], failed={},
                                bounce=isinstance(envelope, Bounce), removed=False, attempts=0,
                                content=envelope.flatten())
        self.ev('write', qid, envelope.sender, tuple(envelope.recipients), isinstance(envelope, Bounce))
        for rec in self.bounces:
            if rec['bounce'] is envelope:
                rec['stored'] = True

    def on_get(self, qid, envelope, attempts):
        qid = self.sid(qid)
        self.envs.append(envelope)
        self.env_qid[id(envelope)] = qid
        self.ev('store', 'get', qid, tuple(envelope.recipients), attempts)

    def on_remove(self, qid):
        qid = self.sid(qid)
        led = self.ledger.get(qid)
        self.ev('store', 'remove', qid)
        if led is not None:
            if led['outstanding'] and not led['removed']:
                self.flag('removed-with-outstanding-recipients',
                          'remove(%s) while %r outstanding' % (qid, led['outstanding']))
            led['removed'] = True

    # ---- relay
    def relay_attempt(self, envelope, attempts):
        qid = self.env_qid.get(id(envelope))
        k = len(self.attempts)
        rcpts = list(envelope.recipients)
        rec = dict(k=k, qid=qid, t=self.world.now, rcpts=tuple(rcpts), attempts=attempts, outcome=None,
                   due=self.due.get(qid), end=None, sender=envelope.sender)
        self.attempts.append(rec)
        led = self.ledger.get(qid)
        self.ev('attempt-start', qid, tuple(rcpts), attempts)
        if led is not None:
            led['attempts'] += 1
            model = self.index_model(qid, led)
            settled = set(led['delivered']) | set(led['failed'])
            if [r for r in rcpts if r in settled] or [r for r in led['outstanding'] if r not in rcpts]:
                if model is None or list(model) != list(rcpts):
                    self.index_model_differs = True
            again = [r for r in rcpts if r in settled]
            if again:
                self.flag('settled-recipient-attempted-again', 'attempt #%d of %s includes settled %r (attempt recipients %r)'
                          % (led['attempts'], qid, again, rcpts))
            missing = [r for r in led['outstanding'] if r not in rcpts]
            if missing:
                self.flag('outstanding-recipient-omitted', 'attempt #%d of %s omits outstanding %r (attempt recipients %r)'
                          % (led['attempts'], qid, missing, rcpts))
        due = self.due.get(qid)
        if due is not None and self.world.loop._now < due - 1e-9 and qid not in self.flushed:
            self.flag('attempt-before-due', 'attempt of %s at t=%g although its retry is due at t=%g (not flushed)'
                      % (qid, self.world.now, due - self.t0))
        self.inflight[qid] = self.inflight.get(qid, 0) + 1
        if self.inflight[qid] > 1:
            self.flag('two-attempts-in-flight', 'second concurrent attempt of %s' % qid)
        try:
            self.world.env_wait('relay#%d:%s' % (k, qid))
            n = len(rcpts)
            menu_kw = dict(self.cfg.get('menu', {}))
            menu = outcome_menu(n, **menu_kw)
            maxa = self.cfg.get('max_attempts')
            if maxa is not None and led is not None and led['attempts'] >= maxa:
                menu = [m for m in menu if 't' not in m.split(':')[-1] and m not in ('temp', 'boom')] or ['ok']
            if self.cfg.get('relay_kind', 'scripted') != 'scripted':
                return self._real_relay_attempt(envelope, attempts, rec, led, rcpts, k)
            o = menu[self.ch.choose(len(menu), 'outcome#%d' % k, 'data')]
            rec['outcome'] = o
            return self._apply_outcome(o, rcpts, led)
        finally:
            self.inflight[qid] -= 1
            rec['end'] = self.world.now
            self.ev('attempt-end', qid, rec['outcome'])

    # ---- real relay classes fed by a scripted downstream (the downstream's behaviour is the data choice)
    REAL_MENUS = {
        'pipe': ['ok', 'temp', 'perm', 'first-ok-rest-temp', 'first-perm-rest-ok', 'killed', 'first-ok-rest-killed'],
        'pipe-whole': ['ok', 'temp', 'perm', 'killed'],
        'maildrop': ['ok', 'temp', 'perm', 'killed'],
        'smtp': [{}, {'rcpt0': '251'}, {'rcpt0': '5'}, {'rcpt0': '4'}, {'mail': '4'}, {'data': '5'}, {'eod': '4'}, {'eod': '5'}, {'banner': 'disconnect'},
                 {'rcpt0': '4', 'rcpt1': '5'}, {'eod': 'disconnect'}, {'connect': 'refused'}, {'mail': 'stall'}, {'eod': 'stall'},
                 {'rcpt0': '251', 'eod': '5'},
                 # one recipient accepted, one refused, and then DATA itself refused (e.g. greylisting at DATA time)
                 {'rcpt1': '5', 'data': '4'}, {'rcpt0': '4', 'data': '5'}],
        'http': ['200+250', '200', '500+451', '503', '400+550', '404', 'drop', 'refused', '200+garbage', '302', '204', '301+250', 'late'],
        'lmtp': [{}, {'rcpt0': '5'}, {'eod0': '5'}, {'eod0': '4'}, {'eod1': '4'}, {'mail': '4'}, {'eod0': '5', 'eod1': '4'}, {'banner': 'disconnect'},
                 {'rcpt0': '251', 'eod1': '4'}, {'rcpt0': '251', 'eod1': '5'}, {'rcpt0': '251'}, {'connect': 'refused'}, {'eod0': 'stall'},
                 {'rcpt1': '5', 'data': '4'}, {'rcpt0': '4', 'data': '5'}],
    }

    def _real_relay_attempt(self, envelope, attempts, rec, led, rcpts, k):
        kind = self.cfg['relay_kind']
        menu = self.REAL_MENUS[kind]
        c = self.ch.choose(len(menu), 'downstream#%d' % k, 'data')
        behaviour = menu[c]
        rec['outcome'] = 'downstream:%s' % (behaviour if isinstance(behaviour, str) else ','.join('%s=%s' % kv for kv in sorted(behaviour.items())) or 'ok')
        accepted, outcome = self._run_real_relay(kind, behaviour, envelope, attempts, rcpts)
        # ledger from the TRUTH for deliveries, from the relay's report for failure classes (C11 judges those)
        from worlds.relay_world import classify
        per, whole = classify(outcome, envelope)

        def reported_reply(r):
            v = outcome[1]
            if outcome[0] == 'returned' and isinstance(v, dict):
                v = v.get(r)
            elif outcome[0] == 'returned' and isinstance(v, (list, tuple)):
                v = v[rcpts.index(r)] if rcpts.index(r) < len(v) else None
            rep = getattr(v, 'reply', None)
            if rep is None:
                return None
            return (rep.code, rep.message)           # the text as it was when the relay reported it
        # the same downstream behaviour must be reported the same way whatever happened before in this process
        shape = tuple((per.get(r),) + tuple(re.sub(r' for \S*', '', x or '') for x in (reported_reply(r) or ('', ''))) for r in rcpts)
        key = (rec['outcome'], len(rcpts))
        first = self.real_reports.setdefault(key, shape)
        if first != shape:
            self.flag('relay-report-depends-on-history', 'downstream behaviour %s was reported as %r earlier in this process and as %r now'
                      % (rec['outcome'], first, shape))
        lt = {}
        for r in rcpts:
            if r in accepted:
                self._settle(led, r, 'ok')
            elif per.get(r) == 'perm':
                rp = reported_reply(r)
                self._settle(led, r, 'perm', rp if rp else ('550', None))
            else:
                rp = reported_reply(r)
                lt[r] = rp if rp else ('450', None)
        if led is not None:
            led['last_temp'] = lt
        rec['reported'] = whole
        if outcome[0] == 'raised':
            raise outcome[1]
        return outcome[1]

    def _run_real_relay(self, kind, behaviour, envelope, attempts, rcpts):
        if self.cfg.get('persistent_relay') and not hasattr(self, 'relay_cache'):
            self.relay_cache = {}
        return run_real_relay(self.world, kind, behaviour, envelope, attempts, rcpts, cache=getattr(self, 'relay_cache', None))

    def index_model(self, qid, led):
        """What KF-C03-1 predicts get() to return: the delivered indexes of every marking round, each relative to
        the recipient list of its own round, concatenated and applied to the ORIGINAL list in one reverse-sorted
        pass (QueueStorage._remove_delivered_rcpts).  Only meaningful for disk/redis/cloud."""
        if self.cfg['backend'] in ('dict', 'shelf'):
            return None
        flat = []
        for e in self.events:
            if len(e) >= 5 and e[1] == 'store' and e[2] == 'set_recipients_delivered' and e[3] == qid:
                flat += list(e[4])
        rc = list(led['original'])
        try:
            for index in sorted(flat, reverse=True):
                del rc[index]
        except IndexError:
            return None
        return rc

    def _settle(self, led, rcpt, how, reply=None):
        if led is None:
            return
        if rcpt in led['outstanding']:
            led['outstanding'].remove(rcpt)
        if how == 'ok':
            led['delivered'].append(rcpt)
        else:
            led['failed'][rcpt] = reply
            # failure event = (how, ordinal of the attempt of this message that produced it)
            led.setdefault('fail_event', {})[rcpt] = (how, led['attempts'])

    def _apply_outcome(self, o, rcpts, led):
        # reply texts; with cfg['unicode_replies'] they are not ASCII (legal with SMTPUTF8 / 8-bit replies)
        T, P = ('t\u00e9mp \u2709', 'p\u00e9rm \u5bc6') if self.cfg.get('unicode_replies') else ('temp', 'perm')
        def temp(i='', bare=False):
            # bare: the same reply written without its enhanced status code (Reply supplies the default one: it reads the same)
            return TransientRelayError('t' + i, Reply('450', ('' if bare else '4.0.0 ') + T + i))

        def perm(i='', bare=False):
            return PermanentRelayError('p' + i, Reply('550', ('' if bare else '5.0.0 ') + P + i))
        if o == 'ok':
            for r in rcpts:
                self._settle(led, r, 'ok')
            return None
        if o == 'ok-reply':
            for r in rcpts:
                self._settle(led, r, 'ok')
            return Reply('250', '2.0.0 queued downstream')
        if o == 'temp':
            if led is not None:
                led['last_temp'] = {r: ('450', '4.0.0 ' + T) for r in rcpts}
            raise temp()
        if o == 'perm':
            for r in rcpts:
                self._settle(led, r, 'perm', ('550', '5.0.0 ' + P))
            raise perm()
        if o == 'boom':
            if led is not None:
                led['last_temp'] = {r: ('450', None) for r in rcpts}
            raise RuntimeError('boom')
        kind, assign = o.split(':')
        vals = []
        lt = {}
        for j, (r, c) in enumerate(zip(rcpts, assign)):
            # different recipients get different reply texts in odd positions so that grouping matters
            tag = str(j % 2)
            if c == 'o':
                self._settle(led, r, 'ok')
                vals.append(None)
            elif c == 't':
                lt[r] = ('450', '4.0.0 ' + T + tag)
                vals.append(temp(tag, bare=bool(self.cfg.get('mixed_spelling')) and j >= 2))
            else:
                self._settle(led, r, 'perm', ('550', '5.0.0 ' + P + tag))
                vals.append(perm(tag, bare=bool(self.cfg.get('mixed_spelling')) and j >= 2))
        if led is not None:
            led['last_temp'] = lt
        if kind == 'map':
            return dict(zip(rcpts, vals))
        if kind == 'rmap':
            return dict(reversed(list(zip(rcpts, vals))))
        return list(vals)

    # ---- build & run
    def build_backend(self, w):
        b = self.cfg['backend']
        if b == 'dict':
            return DictStorage()
        if b == 'shelf':
            # the documented persistent variant of the dict backend: real shelve.Shelf objects over in-memory dicts
            import shelve
            return DictStorage(shelve.Shelf({}), shelve.Shelf({}))
        if b == 'disk':
            import slimta.diskstorage as ds
            from engine import memfs
            self.fs = memfs.MemFS()
            memfs.bind(w, self.fs, chunk_size=self.cfg.get('chunk_size'))
            return ds.DiskStorage('/q/env', '/q/meta', '/q/tmp')
        if b == 'redis':
            import slimta.redisstorage as rs
            from fakes.fakeredis import make_storage
            st, _fake = make_storage(w, prefix=self.cfg.get('redis_prefix', 'slimta:'))
            self.fake_redis = st.redis

            def early(key, st=st):
                cur = self.writing.get(gevent.getcurrent())
                if cur is not None:
                    k = key.decode('ascii') if isinstance(key, bytes) else key
                    self.on_write(k[len(st.prefix):], cur[0], cur[1])
            st.redis.on_new_hash = early
            cmds = set(self.cfg.get('redis_yields', ()))
            if cmds:
                # each listed command is a network round trip during which other greenlets may run
                def hook(name):
                    if name in cmds and self.ch.choose(2, 'slow:redis-%s' % name, 'sched') == 1:
                        w.env_wait('redis-%s#%d' % (name, st.redis.commands))
                st.redis.yield_hook = hook
            return st
        if b == 'cloud':
            import slimta.cloudstorage as cs
            from fakes.fakecloud import FakeObjectStore, FakeMessageQueue
            self.objstore = FakeObjectStore(uuid4=w.fake_uuid4)
            mq = FakeMessageQueue() if self.cfg.get('cloud_mq') else None
            return cs.CloudStorage(self.objstore, mq)
        raise ValueError(b)

    def run(self):
        cfg = self.cfg
        with World(self.ch, uuid_modules=UUID_MODULES, max_steps=cfg.get('max_steps', 400)) as w:
            self.world = w
            self.t0 = w.loop._now
            inner = self.build_backend(w)
            self.inner = inner
            n = cfg.get('n', 2)
            senders = cfg.get('senders', {})
            # messages already in storage before the queue starts (exercise load())
            for i in range(cfg.get('prestored', 0)):
                env = make_envelope(100 + i, n, senders.get(100 + i))
                pre = gevent.spawn(inner.write, env, self.t0 + cfg.get('prestored_due', 0.0))
                w.run_until_quiescent()
                if pre.exception is not None:
                    raise HarnessError('prestore failed: %r' % (pre.exception,))
                self.on_write(pre.value, env, self.t0 + cfg.get('prestored_due', 0.0))
                self.known.discard(self.sid(pre.value))       # the queue learns of it through load() / wait()
            if cfg.get('damage_meta') is not None and cfg['backend'] == 'disk':
                # crash-shaped damage: the k-th stored message has its envelope file but no meta file (the process died
                # between the two writes).  It is lost to the queue; the OTHER messages must not be.
                qid = sorted(self.ledger)[cfg['damage_meta']]
                self.fs.files.pop('/q/meta/%s.meta' % qid, None)
                self.ledger[qid]['outstanding'] = []
                self.ledger[qid]['removed'] = True
                self.ev('damaged', qid)
            if cfg['backend'] == 'redis' and cfg.get('prestored', 0) and not cfg.get('keep_announcements', True):
                self.fake_redis.data.pop((self.cfg.get('redis_prefix', 'slimta:') + 'queue').encode(), None)
            store = MonitoredStore(self, inner)
            self.store = store
            relay = ScriptedRelay(self)
            bq = None
            if cfg.get('bounce_queue') == 'separate':
                bq = RecordingBounceQueue(self)
            elif cfg.get('bounce_queue') in ('separate-real', 'separate-real-started'):
                # a real second Queue (storage only, no relay of its own), as in a set-up where bounces leave
                # through a different channel; built before the main queue and possibly not started yet
                bq = Queue(DictStorage())
                real_enqueue = bq.enqueue

                def bq_enqueue(envelope, real_enqueue=real_enqueue):
                    self.on_bounce_enqueued(envelope)
                    self.total_messages += 1
                    ret = real_enqueue(envelope)
                    for rec in self.bounces:
                        if rec['bounce'] is envelope and ret and not isinstance(ret[0][1], BaseException):
                            rec['stored'] = True
                    return ret
                bq.enqueue = bq_enqueue
                if cfg['bounce_queue'] == 'separate-real-started':
                    bq.start()
            factory = self.make_bounce_factory(cfg.get('bounce', 'default'))
            def make_queue():
                q = Queue(store, relay, backoff=self.monitored_backoff(make_backoff(cfg.get('backoff', 'never'))),
                          bounce_factory=factory, bounce_queue=bq,
                          store_pool=cfg.get('store_pool'), relay_pool=cfg.get('relay_pool'))
                self.q = q
                if bq is None:
                    orig_enqueue = q.enqueue

                    def enqueue_spy(envelope):
                        if isinstance(envelope, Bounce):
                            self.on_bounce_enqueued(envelope)
                        return orig_enqueue(envelope)
                    q.enqueue = enqueue_spy
                else:
                    orig_enqueue = q.enqueue

                    def enqueue_guard(envelope):
                        if isinstance(envelope, Bounce):
                            self.flag('bounce-not-handed-to-configured-queue', 'a bounce for %r was enqueued on the main queue although a '
                                      'separate bounce queue is configured' % (envelope.recipients,))
                        return orig_enqueue(envelope)
                    q.enqueue = enqueue_guard
                return q
            self.make_queue = make_queue
            q = make_queue()
            w.loop.state_key = self.state_key
            w.loop.before_timer = self.on_time_advance
            q.start()
            script = list(cfg.get('script', [('enqueue', i) for i in range(cfg.get('messages', 1))]))
            self.script_pos = 0

            def step(pos):
                def fire():
                    self.script_pos = pos + 1
                    act = script[pos]
                    if act[0] == 'enqueue':
                        env = make_envelope(act[1], n, senders.get(act[1]), cfg.get('body', b'Subject: m\r\n\r\nbody\r\n'), cfg.get('unicode_rcpts', False))
                        g = gevent.spawn(q.enqueue, env)
                        g.link_exception(lambda g: self.ev('enqueue-raised', type(g.exception).__name__))
                    elif act[0] == 'flush':
                        gevent.spawn(self.do_flush)
                    elif act[0] == 'announce':
                        self.do_announce(act[1])
                    elif act[0] == 'restart':
                        gevent.spawn(self.do_restart)
                    if pos + 1 < len(script):
                        w.add_event('driver:%s' % (script[pos + 1][0],), step(pos + 1))
                return fire
            if script:
                w.add_event('driver:%s' % (script[0][0],), step(0))
            w.run_until_quiescent()
            self.final_check()
            self.errors = [e for e in w.errors() if e != ('RuntimeError', 'boom')]
            return self.observation()

    def monitored_backoff(self, fn):
        """The backoff policy decides when retries stop: a None answer is the moment the recipients of
        that envelope become failed for good (retries exhausted)."""
        def backoff(envelope, attempts):
            wait = fn(envelope, attempts)
            self.ev('backoff', tuple(envelope.recipients), attempts, wait)
            q0 = self.last_incr.get(gevent.getcurrent())
            l0 = self.ledger.get(q0)
            if l0 is not None and not l0.get('prestored') and attempts != l0['attempts']:
                # the policy decides from the number of attempts made: asked about another number it grants retries it never
                # meant to grant (or stops too early)
                self.flag('backoff-asked-about-wrong-attempt-number', 'message %s: %d attempt(s) made, the backoff policy was asked about attempt %r'
                          % (q0, l0['attempts'], attempts))
            if wait is not None:
                # the policy has chosen the next attempt time: from now on an attempt before it is early,
                # whether or not the new timestamp has reached storage yet
                qid = self.last_incr.get(gevent.getcurrent())
                if qid is not None:
                    self.due[qid] = self.world.loop._now + wait
                    self.flushed.discard(qid)
            if wait is None:
                # Queue._retry_later calls increment_attempts(id) and then backoff() in the same greenlet
                qid = self.last_incr.get(gevent.getcurrent())
                led = self.ledger.get(qid)
                if led is not None:
                    for r in list(envelope.recipients):
                        if r in led['outstanding']:
                            self._settle(led, r, 'exhausted', led.get('last_temp', {}).get(r, ('450', None)))
            return wait
        return backoff

    def do_restart(self):
        """the queue process is restarted in an orderly way while nothing is in flight: a new Queue object over the same
        storage; what it knows it learns from load().  (Skipped while an attempt or a storage operation is running:
        dying in the middle of those is C04's subject.)"""
        if any(v > 0 for v in self.inflight.values()) or any(v > 0 for v in self.transit.values()) or self.q.active_ids:
            self.ev('restart-skipped')
            return
        self.q.kill()
        self.known.clear()
        self.ev('restart')
        q = self.make_queue()
        q.start()

    def do_flush(self):
        rec = {'call': self.world.now, 'ret': None, 'steps_at_call': self.world.loop.steps, 'steps_at_ret': None,
               'waiting': [self.sid(i) for _, i in self.q.queued], 'attempts_at_call': len(self.attempts), 'checked': False}
        self.flushes.append(rec)
        self.flushed.update(rec['waiting'])
        self.ev('flush-call')
        self.q.flush()
        rec['ret'] = self.world.now
        rec['steps_at_ret'] = self.world.loop.steps
        self.ev('flush-return')
        # with a bounded store pool flush() legitimately waits for a free slot (Pool.spawn is the back-pressure point); the
        # property only rules out waiting on the scheduler loop, which is observable when the pool cannot be the reason
        if self.cfg.get('store_pool') is None and (rec['steps_at_ret'] != rec['steps_at_call'] or rec['ret'] != rec['call']):
            self.flag('flush-waited', 'flush() called at t=%g returned at t=%g after %d loop events (timers/environment) fired'
                      % (rec['call'], rec['ret'], rec['steps_at_ret'] - rec['steps_at_call']))

    def scheduled_or_in_flight(self, qid):
        q = self.q
        active = set(map(self.sid, q.active_ids))
        queued = set(self.sid(i) for _, i in q.queued)
        return qid in active or qid in queued or self.transit.get(qid, 0) > 0 or self.inflight.get(qid, 0) > 0

    def on_time_advance(self, next_due):
        """Called by the loop just before virtual time moves forward: a quiescent moment."""
        q = self.q
        now = self.world.loop._now
        stored = self.stored_ids()
        for qid, led in sorted(self.ledger.items()):
            if led['outstanding'] and not led['removed'] and qid in stored and qid in self.known:
                if not self.scheduled_or_in_flight(qid):
                    self.flag('known-message-neither-scheduled-nor-in-flight',
                              'at t=%g message %s (outstanding %r) is in storage and known to the queue but neither in flight nor '
                              'on the timetable (queued=%r active=%r)' % (self.world.now, qid, led['outstanding'],
                                                                         [self.sid(i) for _, i in q.queued], sorted(map(self.sid, q.active_ids))))
        for ts, i in q.queued:
            if ts <= now:
                self.flag('due-but-not-dispatched', 'at t=%g the timetable still holds %s due at t=%g while time moves on to t=%g'
                          % (self.world.now, self.sid(i), ts - self.t0, next_due - self.t0))
        if q.queued and next_due > q.queued[0][0] + 1e-9:
            self.flag('no-wakeup-before-due', 'time moves on to t=%g but %s is due at t=%g and no timer wakes the scheduler before'
                      % (next_due - self.t0, self.sid(q.queued[0][1]), q.queued[0][0] - self.t0))
        for rec in self.flushes:
            if rec['ret'] is not None and not rec['checked']:
                rec['checked'] = True
                for qid in rec['waiting']:
                    led = self.ledger.get(qid)
                    tried = any(a['qid'] == qid for a in self.attempts[rec['attempts_at_call']:])
                    if led is not None and led['outstanding'] and not tried and not self.transit.get(qid, 0):
                        self.flag('flushed-message-not-attempted', 'flush() at t=%g returned but %s was not attempted before time moved on'
                                  % (rec['call'], qid))

    def do_announce(self, which):
        """storage wait() announcement of the which-th known id (may be already known to the queue)."""
        ids = sorted(self.ledger)
        if not ids or not self.waiters:
            self.ev('announce-skipped')
            return
        qid = ids[which % len(ids)]
        w = self.waiters.pop(0)
        # an announcement carries the timestamp the storage currently holds (not one still being written)
        w.set([(self.stored_ts.get(qid, self.t0), qid)])

    def make_bounce_factory(self, kind):
        qw = self

        def factory(envelope, reply):
            rec = dict(rcpts=tuple(envelope.recipients), code=reply.code, message=reply.message, sender=envelope.sender,
                       produced=False, enqueued=False, stored=False, bounce=None, t=qw.world.now,
                       orig=envelope.flatten(), headers_only=(kind == 'headers-only'))
            qw.bounces.append(rec)
            qw.ev('bounce-factory', tuple(envelope.recipients), reply.code, reply.message)
            if kind == 'none':
                return None
            try:
                b = Bounce(envelope, reply, headers_only=(kind == 'headers-only'))
            except BaseException as e:
                rec['raised'] = '%s: %s' % (type(e).__name__, str(e)[:100])      # the library's own bounce class could not be built
                raise
            rec['produced'] = True
            rec['bounce'] = b
            return b
        return factory

    def on_bounce_enqueued(self, bounce):
        for rec in self.bounces:
            if rec['bounce'] is bounce:
                rec['enqueued'] = True
                return
        self.bounces.append(dict(rcpts=(), code=None, message=None, sender=None, produced=True, enqueued=True, stored=False,
                                 bounce=bounce, t=self.world.now, orig=None, headers_only=False, foreign=True))

    # ---- canonical state at a loop-level choice point (for merging)
    def state_key(self):
        lp = self.world.loop
        now = lp._now
        q = self.q
        led = tuple(sorted((k, tuple(v['outstanding']), tuple(v['delivered']), tuple(sorted(v['failed'])), v['removed'], v['attempts'])
                           for k, v in self.ledger.items()))
        return (tuple(sorted(round(t.due - now, 6) for t in lp._timers)),
                tuple(e.label for e in lp.env_events),
                tuple((round(ts - now, 6), self.sid(i)) for ts, i in q.queued),
                tuple(sorted(map(self.sid, q.queued_ids))), tuple(sorted(map(self.sid, q.active_ids))),
                led, self.script_pos, len(self.violations), len(self.bounces), len(self.flushes),
                tuple(sorted((k, round(v - now, 6)) for k, v in self.due.items() if not self.ledger[k]['removed'])),
                len(self.world.hub.errors), self.storage_fingerprint())

    def storage_fingerprint(self):
        b = self.cfg['backend']
        try:
            if b in ('dict', 'shelf'):
                return tuple(sorted((k, v['attempts'], tuple(self.inner.env_db[k].recipients)) for k, v in self.inner.meta_db.items()))
            if b == 'disk':
                return tuple(sorted((p, hash(v)) for p, v in self.fs.files.items()))
            if b == 'redis':
                return tuple(sorted((k, tuple(sorted((f, hash(v)) for f, v in d.items())) if isinstance(d, dict) else tuple(d))
                                    for k, d in self.fake_redis.data.items()))
            if b == 'cloud':
                return tuple(sorted((k, tuple(sorted(o['meta'].items()))) for k, o in self.objstore.objects.items()))
        except Exception as e:
            return ('fp-error', type(e).__name__)

    # ---- end of run
    def stored_ids(self):
        b = self.cfg['backend']
        if b in ('dict', 'shelf'):
            return set(self.inner.env_db) | set(self.inner.meta_db)
        if b == 'disk':
            return set(p.rsplit('/', 1)[1][:-4] for p in self.fs.files if p.endswith('.env') or p.endswith('.meta'))
        if b == 'redis':
            return set(k.decode()[len(self.cfg.get('redis_prefix', 'slimta:')):] for k, d in self.fake_redis.data.items() if isinstance(d, dict))
        if b == 'cloud':
            return set(self.objstore.objects)

    def pools_full(self):
        """a bounded pool that is full when nothing can happen any more: its members wait for ever"""
        rp, sp = getattr(self.q, 'relay_pool', None), getattr(self.q, 'store_pool', None)
        return bool((rp is not None and rp.free_count() == 0) or (sp is not None and sp.free_count() == 0))

    def pool_blockers(self):
        """where the members of the full pools wait: call chains inside slimta/queue/__init__.py, e.g.
        'store:_retry_later>_remove>_pool_spawn' (a store-pool task waiting for a slot of a pool)."""
        out = set()
        for which in ('store', 'relay'):
            pool = getattr(self.q, which + '_pool', None)
            if pool is None or pool.free_count() != 0:
                continue
            for g in list(pool.greenlets):
                names = []
                f = g.gr_frame
                while f is not None:
                    fn = f.f_code.co_filename
                    if fn.endswith('slimta/queue/__init__.py'):
                        names.append(f.f_code.co_name)
                    elif fn.endswith('gevent/pool.py') and f.f_code.co_name in ('spawn', 'add', 'start') and not names:
                        names.append('<pool-slot-wait>')
                    elif fn.endswith(('gevent/lock.py', 'gevent/_semaphore.py')) and not names:
                        names.append('<lock-wait>')
                    f = f.f_back
                out.add('%s:%s' % (which, '>'.join(reversed(names)) or '?'))
        if out and all(c.endswith('_pool_spawn><pool-slot-wait>') for c in out):
            # every member is a task that holds a slot of a bounded pool while it waits for a slot of a bounded pool
            return 'pool-slot-wait:' + ','.join(sorted(set(c.split('>')[0] for c in out)))
        return ','.join(sorted(out))

    def final_check(self):
        """Obligations on the quiescent terminal state (nothing can happen any more)."""
        stored = self.stored_ids()
        self.pool_deadlock = self.pools_full()
        self.pool_blocked_at = self.pool_blockers() if self.pool_deadlock else ''
        for name, before, after in self.world.changed_constants():
            self.flag('shared-reply-constant-modified', 'the pre-defined reply slimta.smtp.reply.%s (%s) was modified in place and now reads %r: '
                      'every later session and bounce of the process quotes the modified text' % (name, before, after))
        for rec in self.flushes:
            if rec['ret'] is None:
                self.flag('flush-never-returned', 'flush() called at t=%g never returned' % rec['call'])
        for qid, led in sorted(self.ledger.items()):
            if led['outstanding']:
                where = 'still in storage' if qid in stored else 'gone from storage'
                self.flag('recipient-stranded', 'message %s: recipients %r never settled and nothing is scheduled (%s; '
                          'queued=%r active=%r)' % (qid, led['outstanding'], where,
                                                    [self.sid(i) for _, i in self.q.queued], sorted(map(self.sid, self.q.active_ids))))
            if not led['outstanding'] and qid in stored:
                self.flag('finalised-message-left-in-storage', 'message %s fully settled but still stored' % qid)
        self.ev('end')

    def observation(self):
        return (tuple((a['qid'], a['rcpts'], a['attempts'], a['outcome'], round(a['t'], 6)) for a in self.attempts),
                tuple(sorted((k, tuple(v['delivered']), tuple(sorted(v['failed']))) for k, v in self.ledger.items())),
                tuple((b['rcpts'], b['code'], b['produced'], b['enqueued']) for b in self.bounces),
                tuple(sorted(set(v[0] for v in self.violations))), tuple(sorted(set(self.errors))))


def run_real_relay(world, kind, behaviour, envelope, attempts, rcpts, cache=None):
    """One attempt of a real relay class in front of a scripted downstream.  -> (set of recipients the downstream truly
    accepted, ('returned', value) | ('raised', exception))."""
    import socket as _socket
    if kind in ('pipe', 'pipe-whole', 'maildrop'):
        import slimta.relay.pipe as pipe
        from fakes.fakepopen import FakeSubprocess
        calls = []

        def script(args, stdin, i):
            calls.append(i)
            b = behaviour
            if b == 'first-ok-rest-temp':
                b = 'ok' if i == 0 else 'temp'
            elif b == 'first-perm-rest-ok':
                b = 'perm' if i == 0 else 'ok'
            elif b == 'first-ok-rest-killed':
                b = 'ok' if i == 0 else 'killed'
            if b == 'ok':
                return (0, b'', b'')
            if b == 'killed':
                return (-9, b'', b'')          # the delivery program died from a signal
            if kind == 'maildrop':
                return (75, b'maildrop: busy\n', b'') if b == 'temp' else (1, b'maildrop: no such user\n', b'')
            return (1, b'4.2.0 try later\n', b'') if b == 'temp' else (1, b'5.1.1 no such user\n', b'')
        sp = FakeSubprocess(script)
        world.patch(pipe, 'subprocess', sp)
        if kind == 'maildrop':
            relay = pipe.MaildropRelay()
        else:
            relay = pipe.PipeRelay(['deliver', '{recipient}'])
            relay.per_recipient = kind == 'pipe'
        try:
            outcome = ('returned', relay.attempt(envelope, attempts))
        except gevent.GreenletExit:
            raise
        except BaseException as e:
            outcome = ('raised', e)
        accepted = set()
        for i in calls:
            b = behaviour
            if b == 'first-ok-rest-temp':
                b = 'ok' if i == 0 else 'temp'
            elif b == 'first-perm-rest-ok':
                b = 'perm' if i == 0 else 'ok'
            elif b == 'first-ok-rest-killed':
                b = 'ok' if i == 0 else 'killed'
            if b == 'ok':
                accepted.update([rcpts[i]] if relay.per_recipient else rcpts)
        return accepted, outcome
    if kind == 'http':
        # HttpRelay in front of a scripted origin: the origin took the message iff it answered 2xx
        import types
        import slimta.http as shttp
        from slimta.relay.http import HttpRelay
        from fakes.vsock import Net
        from fakes.fakehttp import HttpPeer, response
        if cache is not None and 'http' in cache:
            # one relay object (pool of one client) for every attempt of this execution: what an attempt leaves behind in the
            # pool is what the next one finds
            relay, holder, took = cache['http']
            holder['behaviour'] = behaviour
            del took[:]
            try:
                outcome = ('returned', relay.attempt(envelope, attempts))
            except gevent.GreenletExit:
                raise
            except BaseException as e:
                outcome = ('raised', e)
            return (set(rcpts) if took else set()), outcome
        net = Net(world)
        took = []
        holder = {'behaviour': behaviour}

        def create_connection(addr, timeout=None, source_address=None):
            if holder['behaviour'] == 'refused':
                raise _socket.error(111, 'Connection refused')
            c, s_ = net.pair(peername=addr)

            def responder(req, k):
                behaviour = holder['behaviour']
                if behaviour == 'drop':
                    return 'drop'
                if behaviour == 'late':
                    gevent.sleep(12.0)          # the origin answers after the relay's timeout (9 s): nothing is reported in time
                    return response(200, 'OK', [], b'x')
                status, _, hdr = behaviour.partition('+')
                hs = []
                if hdr == 'garbage':
                    hs = [('X-Smtp-Reply', 'not a reply')]
                elif hdr:
                    hs = [('X-Smtp-Reply', '%s; message="%s.0.0 scripted origin answer"' % (hdr, hdr[0]))]
                if status.startswith('2'):
                    took.append(k)
                return response(int(status), {'200': 'OK', '204': 'No Content', '301': 'Moved Permanently', '302': 'Found',
                                              '500': 'Internal Server Error', '503': 'Service Unavailable',
                                              '400': 'Bad Request', '404': 'Not Found'}[status], hs, b'' if status == '204' else b'x')
            gevent.spawn(HttpPeer(s_, responder).run)
            return c
        world.patch(shttp, 'socket', types.SimpleNamespace(create_connection=create_connection))
        relay = HttpRelay('http://mx.test:8025/deliver', ehlo_as='relay.test', timeout=9.0, pool_size=1 if cache is not None else None)
        if cache is not None:
            cache['http'] = (relay, holder, took)
        try:
            outcome = ('returned', relay.attempt(envelope, attempts))
        except gevent.GreenletExit:
            raise
        except BaseException as e:
            outcome = ('raised', e)
        return (set(rcpts) if took else set()), outcome
    # SMTP / LMTP over in-memory sockets
    from slimta.relay.smtp.static import StaticSmtpRelay, StaticLmtpRelay
    from fakes.vsock import Net, VContext
    from fakes.downstream import ScriptedPeer
    net = Net(world)
    peers = []

    def creator(address):
        if behaviour.get('connect') == 'refused':
            raise _socket.error(111, 'Connection refused')
        c, s_ = net.pair(peername=address)
        p = ScriptedPeer(s_, dict(behaviour), lmtp=(kind == 'lmtp'))
        peers.append(p)
        gevent.spawn(p.run)
        return c
    cls = StaticLmtpRelay if kind == 'lmtp' else StaticSmtpRelay
    relay = cls('mx.test', 25, socket_creator=creator, ehlo_as='relay.test', context=VContext())
    try:
        outcome = ('returned', relay.attempt(envelope, attempts))
    except gevent.GreenletExit:
        raise
    except BaseException as e:
        outcome = ('raised', e)
    accepted = set()
    for p in peers:
        accepted |= set(r.decode('utf-8') for snd, r in p.accepted())
    return accepted, outcome



class RecordingBounceQueue(object):
    """A separate bounce queue: records what it is given (through the normal enqueue path)."""

    def __init__(self, qw):
        self.qw = qw
        self.got = []

    def enqueue(self, envelope):
        self.got.append(envelope)
        self.qw.on_bounce_enqueued(envelope)
        for rec in self.qw.bounces:
            if rec['bounce'] is envelope:
                rec['stored'] = True
        self.qw.total_messages += 1
        return [(envelope, 'bq%d' % len(self.got))]
