"""Relay-client worlds: a real StaticSmtpRelay / StaticLmtpRelay (real SmtpRelayClient / LmtpRelayClient,
real smtp.client.Client) talking over in-memory sockets to a ScriptedPeer, on the virtual loop."""
import socket as _socket

import gevent
from gevent.event import AsyncResult

import engine.speedups  # noqa
import slimta.relay.smtp.client as rsc
from slimta.relay.smtp.static import StaticSmtpRelay, StaticLmtpRelay
from slimta.relay import RelayError, TransientRelayError, PermanentRelayError
from slimta.envelope import Envelope
from slimta.smtp.reply import Reply

from engine.vloop import World
from engine.core import Horizon
from fakes.vsock import Net, VContext
from fakes.downstream import ScriptedPeer


def make_envelope(i, n, body=b'Subject: m%d\r\n\r\nbody\r\n', sender=None):
    e = Envelope(('s%d@x' % i) if sender is None else sender, ['r%d%d@y' % (i, j) for j in range(n)])
    e.parse(body % i if b'%d' in body else body)
    e.client = {'ip': '192.0.2.9', 'name': 'client'}
    e.receiver = 'mx.test'
    e.timestamp = 0
    return e


class SmtpRelayWorld(object):
    def __init__(self, ch, cfg):
        self.ch = ch
        self.cfg = cfg
        self.peers = []
        self.results = []

    def socket_creator(self, address):
        how = self.cfg.get('connect', 'ok')
        if isinstance(how, list):
            how = how[min(len(self.peers) + self.refused, len(how) - 1)]
        if how == 'refused':
            self.refused += 1
            raise _socket.error(111, 'Connection refused')
        if how == 'stall':
            gevent.event.Event().wait()
        client, server = self.net.pair(peername=address, chunked=bool(self.cfg.get('unsolicited_partial')), capacity=self.cfg.get('capacity'))
        k = len(self.peers)
        scripts = self.cfg.get('scripts') or [self.cfg.get('script', {})]
        script = scripts[min(k, len(scripts) - 1)]
        peer = ScriptedPeer(server, script, lmtp=self.cfg.get('lmtp', False),
                            context=VContext() if self.cfg.get('tls') else None,
                            pipelining=self.cfg.get('pipelining', True), auth=self.cfg.get('auth') if isinstance(self.cfg.get('auth'), str) else bool(self.cfg.get('auth')),
                            tls_immediately=(self.cfg.get('tls') == 'immediate'), **self.cfg.get('peer_kw', {}))
        self.peers.append(peer)
        if self.cfg.get('unsolicited_partial'):
            peer.push_after_ehlo = self.cfg['unsolicited_partial']
            fd = 1000 + len(self.peers)
            client.fileno = lambda fd=fd: fd
            self.socks[fd] = client
        g = gevent.spawn(peer.run)
        peer.greenlet = g
        return client

    def build_relay(self):
        cfg = self.cfg
        kw = dict(socket_creator=self.socket_creator, ehlo_as='relay.test',
                  connect_timeout=cfg.get('connect_timeout', 7.0), command_timeout=cfg.get('command_timeout', 11.0),
                  data_timeout=cfg.get('data_timeout', 13.0), idle_timeout=cfg.get('idle_timeout'))
        if cfg.get('tls'):
            kw['tls_required'] = bool(cfg.get('tls_required'))
            kw['tls_immediately'] = cfg.get('tls') == 'immediate'
        if cfg.get('auth'):
            kw['credentials'] = ('user', 'pw')
            form = cfg.get('cred_form')
            if form == 'callable':
                kw['credentials'] = lambda: ('user', 'pw')        # documented: a function returning the tuple
            elif form == 'authzid':
                kw['credentials'] = ('user', 'pw', 'zid')
            elif form == 'mech-login':
                kw['auth_mechanism'] = b'LOGIN'
        if cfg.get('ehlo_callable'):
            kw['ehlo_as'] = lambda address: 'relay.test'          # documented: a function of the destination address
        if cfg.get('binary_encoder') is not None:
            kw['binary_encoder'] = cfg['binary_encoder']
        ctx = VContext(fail=bool(cfg.get('client_tls_fail'))) if cfg.get('tls') else VContext()
        cls = StaticLmtpRelay if cfg.get('lmtp') else StaticSmtpRelay
        if cfg.get('lmtp'):
            relay = cls('mx.test', 24, pool_size=cfg.get('pool_size'), context=ctx, **kw)
        else:
            relay = cls('mx.test', 25, pool_size=cfg.get('pool_size'), context=ctx, **kw)
        return relay

    def attempt(self, relay, env, attempts=0):
        rec = {'env': env, 'outcome': None, 'start': self.world.now, 'end': None}
        self.results.append(rec)

        def go():
            try:
                rec['outcome'] = ('returned', relay.attempt(env, attempts))
            except gevent.GreenletExit:
                raise
            except BaseException as e:
                rec['outcome'] = ('raised', e)
            rec['end'] = self.world.now
        return gevent.spawn(go)

    def run(self, horizon=None):
        cfg = self.cfg
        self.refused = 0
        with World(self.ch, max_steps=cfg.get('max_steps', 2000), horizon=horizon) as w:
            self.world = w
            self.net = Net(w)
            self.socks = {}
            if cfg.get('unsolicited_partial'):
                import slimta.smtp.client as sclient

                def wait_read(fd, timeout=None, timeout_exc=None):
                    s_ = self.socks.get(fd)
                    if s_ is not None and s_.readable():
                        return
                    raise timeout_exc
                w.patch(sclient, 'wait_read', wait_read)
            relay = self.build_relay()
            self.relay = relay
            n = cfg.get('n', 2)
            envs = [make_envelope(i, n, cfg.get('body', b'Subject: m%d\r\n\r\nbody\r\n')) for i in range(cfg.get('envelopes', 1))]
            self.envs = envs
            if cfg.get('sequential', True):
                def seq():
                    for e in envs:
                        self.attempt(relay, e).join()
                gevent.spawn(seq)
            elif cfg.get('stagger'):
                def staggered():
                    for e in envs:
                        self.attempt(relay, e)
                        gevent.sleep(cfg['stagger'])       # the next attempt arrives while the previous one is being worked on
                gevent.spawn(staggered)
            else:
                for e in envs:
                    self.attempt(relay, e)
            self.horizon_hit = False
            try:
                w.run_until_quiescent()
            except Horizon:
                self.horizon_hit = True      # still busy after thousands of loop events: never settles
            self.errors = w.errors()
            self.end_time = w.now
        return self


def classify(outcome, env):
    """-> per recipient: 'delivered' | 'perm' | 'temp' | 'other:<type>' ; plus whole-message descriptor."""
    if outcome is None:
        return {r: 'blocked' for r in env.recipients}, 'blocked'
    kind, val = outcome
    per = {}
    if kind == 'raised':
        if isinstance(val, PermanentRelayError):
            c = 'perm'
        elif isinstance(val, TransientRelayError):
            c = 'temp'
        else:
            c = 'other:' + type(val).__name__
        return {r: c for r in env.recipients}, 'raised:' + c
    if isinstance(val, dict):
        for r in env.recipients:
            v = val.get(r, 'missing')
            per[r] = _one(v)
        return per, 'mapping'
    if isinstance(val, (list, tuple)):
        for r, v in zip(env.recipients, val):
            per[r] = _one(v)
        return per, 'sequence'
    if isinstance(val, BaseException):
        # attempt() handed back an error object as its whole-message result: every caller (the Queue) reads any value that is
        # neither a mapping nor a sequence as success
        c = 'error-object-returned-as-result:' + type(val).__name__
        return {r: c for r in env.recipients}, 'whole:' + c
    c = _one(val)
    return {r: c for r in env.recipients}, 'whole:' + c


def _one(v):
    if v is None:
        return 'delivered'
    if isinstance(v, Reply):
        return 'delivered' if not v.is_error() else 'error-reply-as-success:' + v.code
    if isinstance(v, PermanentRelayError):
        return 'perm'
    if isinstance(v, TransientRelayError):
        return 'temp'
    if isinstance(v, BaseException):
        return 'other:' + type(v).__name__
    if v == 'missing':
        return 'missing'
    return 'other-value:' + type(v).__name__


def run_on_real_sockets(cfg, timeout=10.0):
    """Conformance: the same scenario over real gevent sockets (socketpair) on the real gevent loop.
    Only for scenarios without TLS and without stalls.  Returns (per-recipient classes, whole, accepted set)."""
    import gevent.socket
    peers = []
    scripts = cfg.get('scripts') or [cfg.get('script', {})]

    def creator(address):
        if cfg.get('connect') == 'refused':
            raise _socket.error(111, 'Connection refused')
        a, b = gevent.socket.socketpair()
        script = scripts[min(len(peers), len(scripts) - 1)]
        p = ScriptedPeer(b, script, lmtp=cfg.get('lmtp', False), pipelining=cfg.get('pipelining', True), auth=False)
        peers.append(p)
        gevent.spawn(p.run)
        return a
    cls = StaticLmtpRelay if cfg.get('lmtp') else StaticSmtpRelay
    relay = cls('mx.test', 24 if cfg.get('lmtp') else 25, socket_creator=creator, ehlo_as='relay.test',
                connect_timeout=5.0, command_timeout=5.0, data_timeout=5.0)
    env = make_envelope(0, cfg.get('n', 2), cfg.get('body', b'Subject: m%d\r\n\r\nbody\r\n'))
    box = {}

    def go():
        try:
            box['o'] = ('returned', relay.attempt(env, 0))
        except gevent.GreenletExit:
            raise
        except BaseException as e:
            box['o'] = ('raised', e)
    g = gevent.spawn(go)
    g.join(timeout=timeout)
    per, whole = classify(box.get('o'), env)
    acc = set()
    for p in peers:
        acc |= set((a.decode('latin-1'), b.decode('latin-1')) for a, b in p.accepted())
    if not g.dead:
        g.kill()
    return per, whole, acc
