"""Harness around the real ``slimta.smtp.server.Server``: recording handlers + reply splitting."""
import re

from slimta.smtp.server import Server
from slimta.smtp import ConnectionLost, MessageTooBig


class Handlers(object):
    """Records every callback; ``verdict(name, args) -> code or None`` scripts the validators."""

    def __init__(self, verdict=None, server_ref=None):
        self.trace = []
        self.verdict = verdict
        self.flags = []          # encryption flag at each callback (C08)
        self.server = None

    def __canon__(self):
        return ('H', tuple(self.trace))

    def _do(self, reply, name, *args):
        self.trace.append((name,) + args)
        if self.server is not None:
            self.flags.append(bool(self.server.io.encrypted))
        if self.verdict is not None and reply is not None:
            v = self.verdict(name, args)
            if v:
                reply.code = v
                reply.message = ('%s.0.0 scripted verdict' % v[0]) if v[0] in '245' else 'scripted verdict'

    def BANNER_(self, reply):
        self._do(reply, 'BANNER')

    def EHLO(self, reply, ehlo_as):
        self._do(reply, 'EHLO', ehlo_as)

    def HELO(self, reply, helo_as):
        self._do(reply, 'HELO', helo_as)

    def MAIL(self, reply, address, params):
        self._do(reply, 'MAIL', address)

    def RCPT(self, reply, address, params):
        self._do(reply, 'RCPT', address)

    def DATA(self, reply):
        self._do(reply, 'DATA')

    def HAVE_DATA(self, reply, data, err):
        if isinstance(err, MessageTooBig):
            reply.code = '552'
            reply.message = '5.3.4 Message exceeded size limit'
            self._do(None, 'HAVE_DATA', None, 'MessageTooBig')
            if self.verdict is not None:
                v = self.verdict('HAVE_DATA', (None, 'MessageTooBig'))
                if v:
                    reply.code = v
            return
        elif err:
            raise err
        self._do(reply, 'HAVE_DATA', data, None)

    def RSET(self, reply):
        self._do(reply, 'RSET')

    def NOOP(self, reply):
        self._do(reply, 'NOOP')

    def QUIT(self, reply):
        self._do(reply, 'QUIT')

    def STARTTLS(self, reply, extensions):
        self._do(reply, 'STARTTLS')

    def AUTH(self, reply, creds):
        self._do(reply, 'AUTH', getattr(creds, 'authcid', None), getattr(creds, 'secret', None),
                 getattr(creds, 'authzid', None))

    def TLSHANDSHAKE(self):
        self._do(None, 'TLSHANDSHAKE')

    def CLOSE(self):
        self._do(None, 'CLOSE')


_final = re.compile(br'^(\d\d\d)([ -])')


def reply_codes(sent):
    """Final-line codes of every reply in the server's output, plus garbage marker."""
    codes = []
    for line in sent.split(b'\n'):
        if not line:
            continue
        m = _final.match(line)
        if m is None:
            if line.strip(b'\r') == b'':
                continue        # timed_out.newline_first
            codes.append('???')
        elif m.group(2) == b' ':
            codes.append(m.group(1).decode())
    return tuple(codes)


def run_server(sock, size_limit=None, verdict=None, **kw):
    """Run a whole session; returns (trace, sent bytes, how it ended)."""
    h = Handlers(verdict)
    s = Server(sock, h, ('192.0.2.1', 4321), **kw)
    h.server = s
    if size_limit:
        s.extensions.add('SIZE', size_limit)
    try:
        s.handle()
        end = 'returned'
    except ConnectionLost:
        end = 'lost'
    except Exception as e:
        end = 'exception:' + type(e).__name__
    return tuple(h.trace), sock.sent(), end
