"""E2 driver for the real SmtpEdge/SmtpSession/Server over a scripted socket, one event per recv().

An *event* is a chunk of client bytes (usually one command line, or DATA + content) delivered as one
recv() result, together with an optional validator verdict ``(callback_name, code)`` that applies to
the validator callback of that name if it is reached while the event is processed.
"""
import bisect

import engine.speedups  # noqa

import slimta.edge.smtp as edge_smtp
from slimta.edge.smtp import SmtpEdge, SmtpSession, SmtpValidators
from slimta.smtp.server import Server
from slimta.smtp import ConnectionLost

from engine.seq import ScriptSocket, FixedCtl
from fakes.faketls import FakeContext
from worlds.server_world import reply_codes


class FakePtrLookup(object):
    def __init__(self, ip):
        self.ip = ip

    def start(self):
        pass

    def finish(self, runtime=None):
        return None

    def kill(self, block=True):
        pass


class RecordingQueue(object):
    """Queue-like: records handoffs, answers one id per envelope."""

    def __init__(self, run):
        self.run = run

    def enqueue(self, envelope):
        hdr, body = envelope.flatten()
        self.run.note('HANDOFF', envelope.sender, tuple(envelope.recipients), hdr + body)
        return [(envelope, 'id%d' % len(self.run.trace))]


class EdgeRun(object):
    def __init__(self, events, verdicts=None, banner_verdict=None, auth=False, tls='none', size=None,
                 tls_events=None, cuts=None, ctl=None, context_fail=False):
        self.clear_events = list(events)
        self.tls_events = list(tls_events) if tls_events is not None else None
        self.events = self.clear_events + (self.tls_events or [])
        tls_stream = b''.join(self.tls_events) if self.tls_events is not None else None
        self.verdicts = list(verdicts) if verdicts is not None else [None] * len(self.events)
        self.banner_verdict = banner_verdict
        self.auth, self.tls, self.size = auth, tls, size
        self.stream = b''.join(self.clear_events)
        self.ends = []
        p = 0
        for e in self.events:
            p += len(e)
            self.ends.append(p)
        self.trace = []          # (event index, name, args...)
        self.mail_time_auth = []
        self.creds = []
        self.server = None
        self.session = None
        self.end = None
        self.sock = ScriptSocket(self.stream, ctl or FixedCtl(cuts if cuts is not None else list(self.ends)),
                                 tls_stream=tls_stream)
        self.context = FakeContext(context_fail) if tls != 'none' else None

    # ---- bookkeeping used by the recording validators / queue
    def current_event(self):
        pos = self.sock.pos
        if pos == 0:
            return -1
        return bisect.bisect_left(self.ends, pos)

    def note(self, name, *args):
        enc = bool(self.server.io.encrypted) if self.server is not None else False
        self.trace.append((self.current_event(), name, enc) + args)

    def verdict_for(self, name):
        idx = self.current_event()
        v = self.banner_verdict if idx < 0 else (self.verdicts[idx] if idx < len(self.verdicts) else None)
        if v is not None and v[0] == name:
            return v[1]
        return None

    def run(self):
        run = self

        class V(SmtpValidators):
            def _do(self, reply, name, *args):
                run.note(name, *args)
                code = run.verdict_for(name)
                if code and reply is not None:
                    reply.code = code
                    reply.message = '%s.9.9 verdict' % code[0]

            def handle_banner(self, reply, address):
                self._do(reply, 'BANNER')

            def handle_ehlo(self, reply, ehlo_as):
                self._do(reply, 'EHLO', ehlo_as)

            def handle_helo(self, reply, helo_as):
                self._do(reply, 'HELO', helo_as)

            def handle_auth(self, reply, creds):
                run.creds.append(creds)
                self._do(reply, 'AUTH', creds.authcid, getattr(creds, '_secret', None), creds.authzid or None)

            def handle_mail(self, reply, sender, params):
                run.mail_time_auth.append(self.session.auth)
                self._do(reply, 'MAIL', sender)

            def handle_rcpt(self, reply, rcpt, params):
                self._do(reply, 'RCPT', rcpt)

            def handle_data(self, reply):
                self._do(reply, 'DATA')

            def handle_have_data(self, reply, data):
                self._do(reply, 'HAVE_DATA', data)

            def handle_tls(self):
                self._do(None, 'TLS')

        class CapServer(Server):
            def __init__(self, *a, **k):
                Server.__init__(self, *a, **k)
                run.server = self

        class CapSession(SmtpSession):
            def __init__(self, *a, **k):
                SmtpSession.__init__(self, *a, **k)
                run.session = self

            def XCUST(self, reply, arg, server):
                # an application-defined command: the application accepts it by rewriting the reply it is handed
                run.note('XCUST', arg.decode('latin-1') if arg else None)
                reply.code = '250'
                reply.message = '2.0.0 custom command done'

            def XHELP(self, reply, arg, server):
                # another application-defined command, answered with a 2xx code that is neither 221 nor 250
                run.note('XHELP', arg.decode('latin-1') if arg else None)
                reply.code = '214'
                reply.message = '2.0.0 see the manual'

        from engine.vloop import snapshot_reply_constants, restore_reply_constants, reset_mutable_defaults
        from slimta.envelope import Envelope
        reset_mutable_defaults(Envelope, SmtpSession, Server, SmtpEdge)     # executions must not inherit each other's state
        snap = snapshot_reply_constants()
        saved = (edge_smtp.Server, edge_smtp.PtrLookup)
        edge_smtp.Server = CapServer
        edge_smtp.PtrLookup = FakePtrLookup
        try:
            edge = SmtpEdge(None, RecordingQueue(self), max_size=self.size, validator_class=V,
                            auth=self.auth, context=self.context,
                            tls_immediately=(self.tls == 'immediate'), hostname='mx.test',
                            session_class=CapSession)
            try:
                edge.handle(self.sock, ('192.0.2.1', 4321))
                self.end = 'returned'
            except ConnectionLost:
                self.end = 'lost'
            except Exception as e:
                self.end = 'exception:' + type(e).__name__
        finally:
            edge_smtp.Server, edge_smtp.PtrLookup = saved
            # pre-defined replies are shared by every session of the process: a session must leave them as they were
            self.changed_constants = restore_reply_constants(snap)
        return self

    # ---- per-event views
    def out_slices(self):
        """output chunks attributed to (banner, event0, event1, ...) using the recv log."""
        log = self.sock.recv_log
        out = self.sock.out
        marks = [l[1] for l in log]
        res = []
        res.append(b''.join(out[:marks[0]] if marks else out))
        for k in range(len(self.events)):
            if k < len(marks):
                lo = marks[k]
                hi = marks[k + 1] if k + 1 < len(marks) else len(out)
                res.append(b''.join(out[lo:hi]))
            else:
                res.append(None)        # event never read
        return res

    def event_view(self, k):
        """(codes, callbacks) of event k (k=-1: banner)."""
        sl = self.out_slices()[k + 1]
        cbs = tuple(t[1:] for t in self.trace if t[0] == k)
        return (reply_codes(sl) if sl is not None else None), cbs

    def real_state(self, closed):
        s = self.server
        if s is None:
            return ('no-server', closed)
        env = None
        if self.session is not None and self.session.envelope is not None and s.have_mailfrom:
            e = self.session.envelope
            env = (e.sender, tuple(sorted(set(e.recipients))))
        return (bool(s.bannered), s.ehlo_as is not None, bool(s.have_mailfrom), bool(s.have_rcptto),
                bool(s.authed), bool(s.io.encrypted), tuple(sorted(s.extensions.extensions.keys())),
                closed, env)
